"""audit evidence/*.json before it is committed: every file must be a valid record of a quiet run on the unchanged tree.

  /venv/bin/python harness/evidence_audit.py        exit 0 = every claimed property has a valid, quiet record

Checks per file: JSON schema (/root/.vp/EVIDENCE.schema.json when jsonschema is importable, otherwise the
required keys by hand), level == the level claimed in MANIFEST.json, discharged == obligations, violations == 0,
every obligation in obligation_list ok, non-empty samples, and that /repo had no uncommitted change is NOT
checked here (the record does not carry it) - runs against mutated trees write elsewhere (VERIF_EVIDENCE_DIR,
set by harness/seeded.py).
"""
import json
import sys
from pathlib import Path

V = Path(__file__).resolve().parent.parent
SCHEMA = Path("/root/.vp/EVIDENCE.schema.json")


def audit():
    man = json.loads((V / "MANIFEST.json").read_text())
    validator = None
    try:
        import jsonschema
        if SCHEMA.exists():
            validator = jsonschema.Draft202012Validator(json.loads(SCHEMA.read_text()))
    except ImportError:
        pass
    bad = []
    for chk in man["checks"]:
        pid = chk["property_id"]
        f = V / chk["evidence_file"]
        if not f.exists():
            bad.append(f"{pid}: {f} missing")
            continue
        try:
            e = json.loads(f.read_text())
        except ValueError as exc:
            bad.append(f"{pid}: not JSON ({exc})")
            continue
        if validator is not None:
            bad += [f"{pid}: schema: {x.message[:160]}" for x in validator.iter_errors(e)]
        for k in ("property_id", "tier", "seed", "level", "coverage", "wall_s"):
            if k not in e:
                bad.append(f"{pid}: key {k} missing")
        c = e.get("coverage", {})
        if e.get("property_id") != pid:
            bad.append(f"{pid}: property_id is {e.get('property_id')}")
        if e.get("level") != chk["level_claimed"]["category"]:
            bad.append(f"{pid}: level {e.get('level')} != claimed {chk['level_claimed']['category']}")
        if e.get("level") == "proof":
            if not c.get("obligations") or c.get("discharged") != c.get("obligations"):
                bad.append(f"{pid}: discharged ({c.get('discharged')}) != obligations ({c.get('obligations')})")
            failed = [o["name"] for o in c.get("obligation_list", []) if not o.get("ok")]
            if failed:
                bad.append(f"{pid}: failed obligations recorded: {failed[:3]}")
            if len(c.get("obligation_list", [])) != c.get("obligations"):
                bad.append(f"{pid}: obligation_list has {len(c.get('obligation_list', []))} entries, obligations says {c.get('obligations')}")
            if not str(c.get("checker_cmd", "")).strip() or not c.get("trusted_base"):
                bad.append(f"{pid}: checker_cmd / trusted_base empty")
        if e.get("violations", 0) != 0 or c.get("disagreements", 0) != 0:
            bad.append(f"{pid}: record of a run that was not quiet (violations={e.get('violations')}, disagreements={c.get('disagreements')})")
        if not c.get("samples") or c.get("samples") == ["(no samples recorded)"]:
            bad.append(f"{pid}: no samples")
        if not c.get("evaluations") or (c.get("distinct_nontrivial") or 0) < 2:
            bad.append(f"{pid}: evaluations / distinct_nontrivial too small")
    return bad


if __name__ == "__main__":
    bad = audit()
    for b in bad:
        print("evidence-audit:", b)
    print("evidence-audit:", "ok" if not bad else f"{len(bad)} problem(s)", "(schema validated)" if SCHEMA.exists() else "(schema file absent: keys checked by hand)")
    sys.exit(1 if bad else 0)
