"""adds a 'fixed' line to known_findings.jsonl for every fixes/<slug>.msg whose subject is a commit in /repo and that is not recorded yet"""
import json, subprocess
from pathlib import Path
V = Path(__file__).resolve().parent.parent
log = subprocess.run("git -C /repo log --format='%h %s'", shell=True, capture_output=True, text=True).stdout.splitlines()
subj = {l.split(' ', 1)[1]: l.split(' ', 1)[0] for l in log}
kf = V / "known_findings.jsonl"
have = set()
for l in kf.read_text().splitlines():
    if l.strip() and not l.startswith("#"):
        have.add(json.loads(l)["id"])
out = []
for m in sorted((V / "fixes").glob("*.msg")):
    slug = m.stem
    if slug in have:
        continue
    first = m.read_text().splitlines()[0]
    if first not in subj:
        print("not applied:", slug)
        continue
    prop = slug.split("-")[0].upper()
    body = " ".join(x.strip() for x in m.read_text().splitlines()[2:6])[:260]
    out.append(json.dumps({"property": prop, "id": slug, "status": "fixed", "commit": subj[first],
                           "what": f"fixed: property={prop} {subj[first]} {first[5:]} — {body}", "patch": f"fixes/{slug}.patch"}))
kf.write_text(kf.read_text() + "".join(o + "\n" for o in out))
print(len(out), "recorded")
