"""correspondence-only family `compu-grid` (extension W2): a grid of DOPs with LINEAR / TEXTTABLE compu methods, DTC-DOPs and
LENGTH-KEYs behind LINEAR DOPs that the random generators do not produce — negative / zero denominators, zero slope, OPEN
limits, real physical types, ambiguous or empty text-table scales, duplicate trouble codes, limits on a length key's DOP — each
with right and wrong values (ints, floats incl. -0.0 / 0.1 / 1e300, str, bytes, None, list, dict) and PDUs, in strict AND
non-strict mode. The real code's reply is compared with `drv_codec` (Model/CodecCompu.lean); there is no direct oracle here
(the round-trip / error-class oracles of C01/C04/C05 see the generated descriptions)."""
import itertools

import codec_oracles as O
from odxgen import desc as D
from odxgen import sexp as S


def grid():
    """[(kind, composite)]; kind: L linear, T texttable, D dtc, K length key"""
    out = []
    u8, i8 = D.Std("A_UINT32", 8), D.Std("A_INT32", 8)
    u16, i12 = D.Std("A_UINT32", 16, None, False), D.Std("A_INT32", 12, "SM")
    n = 0

    def add(kind, dop):
        out.append((kind, D.Composite(f"{kind}{n}", "request", [D.sid(), D.value("x", dop), D.value("y", D.u8())])))

    coeffs = ((0, 1, 1), (1, 2, 2), (-40, 1, 2), (5, -2, 4), (0, 3, -2), (0, -1, -4), (7, 0, 1), (3, 10, 10), (0, 1, 0), (1, 5, 1), (0, 2, 8), (1, 2, -2))
    limits = (None, ((2, "CLOSED"), (15, "CLOSED")), ((2, "OPEN"), (9, "OPEN")), ((0, "CLOSED"), (3, "OPEN")))
    for dct in (u8, i8, u16, i12):
        for phys in ("A_INT32", "A_UINT32", "A_FLOAT64", "A_FLOAT32"):
            for (a, b, d) in coeffs:
                for lim in limits:
                    if d == 0 and lim is not None:
                        continue            # (the loader divides by the denominator when it derives the physical limits)
                    n += 1
                    lo, hi = lim if lim else (None, None)
                    add("L", D.SimpleDop(dct, phys, D.Linear(a, b, d, lo, hi)))
    tables = (([(0, 0, "off"), (1, 1, "on")], None), ([(0, 0, "off"), (1, 1, "on"), (2, 2, "on")], None), ([(0, 1, "low"), (1, 2, "high")], None),
              ([(0, 3, "a"), (4, 9, "b")], {"a": 2, "b": 9}), ([(-3, -1, "neg"), (0, 0, "z")], {"neg": -2}), ([(5, 2, "empty"), (0, 0, "z")], None))
    for dct in (u8, i8):
        for scales, inv in tables:
            n += 1
            add("T", D.SimpleDop(dct, "A_UNICODE2STRING", D.TextTable(scales, inv)))
    for cm in (D.Identical(), D.Linear(0, 2, 1), D.Linear(1, 1, 1, (1, "CLOSED"), (20, "CLOSED"))):
        for dtcs in ([(1, "A"), (7, "B"), (300, "C")], [(4, "A"), (4, "B")], [(3, "A")]):
            n += 1
            add("D", D.DtcDop(u16, "A_UINT32", cm, dtcs))
    for (a, b) in ((0, 8), (-8, 8), (8, 8), (0, 1), (0, 4)):
        for lim in (None, ((1, "CLOSED"), (4, "CLOSED"))):
            for phys in ("A_INT32", "A_UINT32"):
                n += 1
                lo, hi = lim if lim else (None, None)
                kd = D.SimpleDop(u8, phys, D.Linear(a, b, 1, lo, hi))
                out.append(("K", D.Composite(f"K{n}", "request", [D.sid(), D.length_key("k", kd),
                                                                   D.value("x", D.SimpleDop(D.ParamLen("A_BYTEFIELD", "k"), "A_BYTEFIELD")), D.value("y", D.u8())])))
    return out


VALUES = {
    "L": [0, 1, 2, 3, 4, 5, 9, 10, 15, 16, 21, 76, 77, -1, -2, -40, 100, 255, 256, 1.0, 2.5, 0.5, -0.0, 0.1, 7.25, 1e300, "on", b"\x01", None, [1], {"a": 1}],
    "T": ["off", "on", "low", "high", "a", "b", "neg", "z", "empty", "nope", "", 1, 1.0, b"on", None],
    "D": [1, 7, 300, 4, 3, 2, 150, 0, "A", "B", "Z", 2.0, None, b"\x00", S.DtcVal(7)],
}
PDUS8 = [bytes([0x22, a, 1]) for a in (0, 1, 2, 3, 4, 5, 9, 10, 15, 16, 127, 128, 200, 255)]
PDUS16 = [bytes([0x22, a, b, 1]) for a, b in ((0, 0), (0, 1), (1, 0), (0, 7), (7, 0), (1, 44), (44, 1), (0, 4), (4, 0), (0, 3), (3, 0), (0, 2), (0, 20), (0, 21),
                                              (255, 255), (128, 1), (1, 128))]
PDUSK = [bytes([0x22, k]) + bytes(range(1, m + 1)) for k in range(0, 6) for m in range(0, 5)] + [bytes([0x22, 8, 9, 1]), bytes([0x22, 16, 9, 9, 1]),
                                                                                              bytes([0x22, 9, 9, 1, 1])]


def run_family(ctx, corr, stride=1, offset=0):
    """every `stride`-th description of the grid (all of them in the thorough tier), both modes"""
    import logging

    import odxtools.exceptions as X
    if corr is None or not corr.enabled:
        return
    sel = [kc for i, kc in enumerate(grid()) if i % stride == offset % stride]
    L, err = O.safe_load([c for _, c in sel])
    if L is None:
        ctx.notes.append("compu-grid: document rejected by the loader: " + str(err)[:200])
        return
    lg = logging.getLogger("odxtools")
    lvl = lg.level
    lg.setLevel(logging.CRITICAL)             # (odxraise logs its message in non-strict mode)
    try:
        for kind, c in sel:
            obj = L[c.name]
            ctx.histo("family", "compu-grid")
            for strict in (True, False):
                X.strict_mode = strict
                try:
                    if kind == "K":
                        for k, xv in itertools.product([None, 0, 1, 2, 3, 8, 16, 24, 5, -8], [b"", b"\x01", b"\x01\x02", b"\x01\x02\x03"]):
                            v = {"x": xv, "y": 1}
                            if k is not None:
                                v["k"] = k
                            corr.add("compu-grid", c, S.encode_line(c, v, None, strict), O.reply_encode(O.impl_encode(obj, v)))
                        pdus = PDUSK
                    else:
                        for x in VALUES[kind]:
                            v = {"x": x, "y": 1} if x is not None else {"y": 1}
                            corr.add("compu-grid", c, S.encode_line(c, v, None, strict), O.reply_encode(O.impl_encode(obj, v)))
                        pdus = PDUS8 if c.params[1].dop.dct.bitlen == 8 else PDUS16
                    for pdu in pdus + [b"\x22", b"\x22\x01"]:
                        corr.add("compu-grid", c, S.decode_line(c, pdu, strict), O.reply_decode(O.impl_decode(obj, pdu)))
                finally:
                    X.strict_mode = True
            ctx.count("compu_grid_descriptions")
        corr.flush()
    finally:
        X.strict_mode = True
        lg.setLevel(lvl)
