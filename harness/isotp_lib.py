"""ISO-TP: reference segmentation (mirrors lean/OdxVerif/Spec/IsoTpSeg.lean), instrumented runs of the
real state machine, canonical event strings identical to the Lean driver's output."""
import asyncio
import io
from common import hexa

DLS = [8, 12, 16, 20, 24, 32, 48, 64]


def segment(p: bytes, dl: int, pad: bytes):
    n = len(p)
    if n <= 7:
        return [bytes([n]) + p + pad]
    if n <= dl - 2:
        return [bytes([0, n]) + p + pad]
    frames = [bytes([0x10 + n // 256, n % 256]) + p[:dl - 2]]
    rest, sn = p[dl - 2:], 1
    while True:
        if len(rest) <= dl - 1:
            frames.append(bytes([0x20 + sn % 16]) + rest + pad)
            break
        frames.append(bytes([0x20 + sn % 16]) + rest[:dl - 1])
        rest, sn = rest[dl - 1:], sn + 1
    return frames


def make_recorder():
    from odxtools.isotp_state_machine import IsoTpStateMachine

    class Rec(IsoTpStateMachine):
        def __init__(self, ids):
            super().__init__(ids)
            self.ev = []
            self.cur = None

        def on_single_frame(self, i, p): self.ev.append(f"({self.cur} (single {hexa(bytes(p))}))"); super().on_single_frame(i, p)
        def on_first_frame(self, i, p): self.ev.append(f"({self.cur} (first))"); super().on_first_frame(i, p)
        def on_consecutive_frame(self, i, s, p): self.ev.append(f"({self.cur} (consec {s}))"); super().on_consecutive_frame(i, s, p)
        def on_flow_control_frame(self, i, f): self.ev.append(f"({self.cur} (flow {f}))"); super().on_flow_control_frame(i, f)
        def on_sequence_error(self, i, e, r): self.ev.append(f"({self.cur} (seqerr {e} {r}))"); super().on_sequence_error(i, e, r)
        def on_frame_type_error(self, i, ft): self.ev.append(f"({self.cur} (typeerr {ft}))"); super().on_frame_type_error(i, ft)
        def on_telegram_complete(self, i, p): self.ev.append(f"({self.cur} (complete {hexa(bytes(p))}))"); super().on_telegram_complete(i, p)
    return Rec


def run_impl(ids, frames):
    """returns (canonical line, telegrams [(id, bytes)], exception-or-None, per-frame telegram lists)"""
    Rec = make_recorder()
    m = Rec(list(ids))
    teles, per_frame, exc = [], [], None
    for (cid, data) in frames:
        m.cur = cid
        got = []
        try:
            for (rid, p) in m.decode_rx_frame(cid, data):
                m.ev.append(f"({rid} (tele {hexa(bytes(p))}))")
                teles.append((rid, bytes(p)))
                got.append((rid, bytes(p)))
        except Exception as e:  # noqa
            exc = type(e).__name__
            m.ev.append(f"(raise {exc})")
            per_frame.append(got)
            break
        per_frame.append(got)
    # final per-ID state: read from the private attributes the model mirrors. A refactoring that renames or restructures them must not
    # crash the harness: the state is then reported as unobservable (the model line differs there = a broken correspondence, never exit 2;
    # events and telegrams are still compared by the oracle)
    slots = []
    try:
        for k in range(len(ids)):
            d = m._telegram_data[k]
            slots.append(f"({m._telegram_specified_len[k]} {'none' if d is None else hexa(bytes(d))} {m._telegram_last_rx_fragment_idx[k]})")
    except Exception as e:  # noqa
        slots = [f"(unobservable {type(e).__name__})"]
    line = f"(ok (events {' '.join(m.ev)}) (slots {' '.join(slots)}))"
    return line, teles, exc, per_frame


def model_line(ids, frames):
    fr = " ".join(f"({c} {hexa(d)})" for c, d in frames)
    return f"(isotp (ids {' '.join(map(str, ids))}) (frames {fr}))"


def run_text_log(ids, frames, fmt):
    """feed the frames through IsoTpStateMachine.read_telegrams as a candump-style text log"""
    from odxtools.isotp_state_machine import IsoTpStateMachine
    lines = []
    for n, (cid, data) in enumerate(frames):
        if fmt == "normal":
            lines.append(f"  can0  {cid:03X}   [{len(data)}]  " + " ".join(f"{b:02X}" for b in data))
        elif fmt == "log":
            lines.append(f"({1600000000 + n}.{n:06d}) can0 {cid:03X}#{data.hex().upper()}")
        else:
            lines.append(f"({1600000000 + n}.{n:06d}) vcan0 {cid:03x}##1{data.hex()}")
    m = IsoTpStateMachine(list(ids))

    async def go():
        out = []
        async for (rid, p) in m.read_telegrams(io.StringIO("\n".join(lines) + "\n")):
            out.append((rid, bytes(p)))
        return out
    return asyncio.run(go())


class StubBus:
    def __init__(self): self.sent = []
    def send(self, msg): self.sent.append((msg.arbitration_id, bytes(msg.data)))


def run_active(rx, tx, pad_size, pad_val, frames):
    from odxtools.isotp_state_machine import IsoTpActiveDecoder
    bus = StubBus()
    m = IsoTpActiveDecoder(bus, list(rx), list(tx), padding_size=pad_size, padding_value=pad_val)
    out, teles = [], []
    for (cid, data) in frames:
        n0 = len(bus.sent)
        got = [(rid, bytes(p)) for rid, p in m.decode_rx_frame(cid, data)]
        for (tid, p) in bus.sent[n0:]:
            out.append(f"(send {tid} {hexa(p)})")
        teles += got
    return out, teles, bus.sent


def active_model_line(rx, tx, pad_size, pad_val, frames):
    fr = " ".join(f"({c} {hexa(d)})" for c, d in frames)
    return (f"(isotp-active (rx {' '.join(map(str, rx))}) (tx {' '.join(map(str, tx))}) (pad {pad_size} {pad_val}) (frames {fr}))")


# ---------------------------------------------------------------------------------------------------------------------
# C13: every way odxtools itself constructs an ISO-TP decoder (entry points of the anchored code). The property speaks of
# "processing a frame": that is decode_rx_frame of whatever decoder object the user holds - the plain state machine, the
# active decoder, and the verbose subclasses `odxtools snoop` creates through cli/snoop.py:init_verbose_state_machine
# (whose callbacks run inside decode_rx_frame).
VARIANTS = ["plain", "snoop-passive", "active", "snoop-active"]
ACTIVE_VARIANTS = ("active", "snoop-active")


class _Null:
    """sink for what the verbose decoders print"""
    def write(self, s): return len(s)
    def flush(self): pass


_NULL = _Null()


def tx_ids_for(ids):
    """paired transmit IDs for the active decoders (disjoint from every listened ID used by the generators: those are < 0x800)"""
    return [0x1000 + i for i in ids]


def make_variant(name, ids, pad=(8, 0xAA)):
    """returns (decoder, stub bus or None); raises whatever the construction raises"""
    import odxtools.isotp_state_machine as ism
    ids = list(ids)
    if name == "plain":
        return ism.IsoTpStateMachine(ids), None
    if name == "snoop-passive":
        from odxtools.cli.snoop import init_verbose_state_machine
        return init_verbose_state_machine(BaseClass=ism.IsoTpStateMachine, can_rx_ids=ids), None
    bus = StubBus()
    tx = tx_ids_for(ids)
    if name == "active":
        return ism.IsoTpActiveDecoder(bus, ids, tx, padding_size=pad[0], padding_value=pad[1]), bus
    if name == "snoop-active":
        from odxtools.cli.snoop import init_verbose_state_machine
        # snoop's active_main passes bare ints (one ECU); lists for the multi-ID streams
        one = len(ids) == 1
        return init_verbose_state_machine(BaseClass=ism.IsoTpActiveDecoder, can_bus=bus, can_rx_ids=ids[0] if one else ids,
                                          can_tx_ids=tx[0] if one else tx, padding_size=8), bus
    raise KeyError(name)


def variant_pad(name, k):
    """padding configuration of the active decoders: snoop's is fixed, the bare class is run with several"""
    return (8, 0xAA) if name != "active" else [(0, 0xAA), (8, 0x00), (12, 0xCC), (8, 0xAA)][k % 4]


def run_variant(name, ids, frames, pad=(8, 0xAA)):
    """feed the frames through decode_rx_frame of one decoder variant.
    Returns (per-frame telegram lists, exception-or-None, canonical send lines of the stub bus).
    Everything the implementation can do wrong here (construction, callbacks, prints) becomes data."""
    import sys
    per_frame, exc, sends = [], None, []
    old = sys.stdout
    sys.stdout = _NULL
    try:
        try:
            m, bus = make_variant(name, ids, pad)
        except (Exception, SystemExit) as e:  # noqa
            return [], f"construct:{type(e).__name__}", []
        n0 = 0
        for (cid, data) in frames:
            got = []
            try:
                for (rid, p) in m.decode_rx_frame(cid, data):
                    got.append((rid, bytes(p)))
            except (Exception, SystemExit) as e:  # noqa
                exc = type(e).__name__
                per_frame.append(got)
                break
            per_frame.append(got)
            if bus is not None and len(bus.sent) > n0:
                for (tid, p) in bus.sent[n0:]:
                    sends.append(f"(send {tid} {hexa(p)})")
                n0 = len(bus.sent)
    finally:
        sys.stdout = old
    return per_frame, exc, sends


def text_log_lines(frames, fmt):
    lines = []
    for n, (cid, data) in enumerate(frames):
        if fmt == "normal":
            lines.append(f"  can0  {cid:03X}   [{len(data)}]  " + " ".join(f"{b:02X}" for b in data))
        elif fmt == "log":
            lines.append(f"({1600000000 + n}.{n:06d}) can0 {cid:03X}#{data.hex().upper()}")
        else:
            lines.append(f"({1600000000 + n}.{n:06d}) vcan0 {cid:03x}##1{data.hex()}")
    return lines


def run_text_log_variant(name, ids, frames, fmt):
    """the frames as a candump-style text log through read_telegrams of a passive decoder variant (what `odxtools snoop`
    does with stdin). Returns (telegrams, exception-or-None). Lines the regexes do not accept (empty data field) only
    produce a warning on stderr, which is swallowed."""
    import sys
    old = (sys.stdout, sys.stderr)
    sys.stdout = sys.stderr = _NULL
    out = []
    try:
        try:
            m, _ = make_variant(name, ids)
        except (Exception, SystemExit) as e:  # noqa
            return [], f"construct:{type(e).__name__}"
        text = io.StringIO("\n".join(text_log_lines(frames, fmt)) + "\n")

        async def go():
            async for (rid, p) in m.read_telegrams(text):
                out.append((rid, bytes(p)))
        try:
            asyncio.run(go())
        except (Exception, SystemExit) as e:  # noqa
            return out, type(e).__name__
    finally:
        sys.stdout, sys.stderr = old
    return out, None


class _End(BaseException):
    """raised by the fake bus when its frames are used up (read_telegrams on a bus never returns by itself)"""


class _Hang(BaseException):
    pass


def _alarm(signum, frame):
    raise _Hang()


def _fake_bus_class():
    import os
    import can

    class FakeBus(can.BusABC):
        """a python-can bus that delivers a fixed list of frames and is always readable"""

        def __init__(self, frames):
            self.msgs = [can.Message(arbitration_id=c, data=d, is_extended_id=False) for (c, d) in frames]
            self.msgs.reverse()
            self.sent = []
            self.r, self.w = os.pipe()
            os.write(self.w, b"x")
            self._is_shutdown = True     # nothing to shut down (silences BusABC.__del__)

        def fileno(self): return self.r

        def recv(self, timeout=None):
            if not self.msgs:
                raise _End()
            return self.msgs.pop()

        def send(self, msg, timeout=None): self.sent.append((msg.arbitration_id, bytes(msg.data)))

        def close(self):
            os.close(self.r)
            os.close(self.w)
    return FakeBus


_FAKE_BUS = []


def run_bus_variant(name, ids, frames):
    """the frames as python-can messages through read_telegrams(bus) of the decoder `odxtools snoop` builds for a live
    channel (passive: snoop-passive, active: snoop-active, where the bus also receives the flow control frames).
    Returns (telegrams, exception-or-None, sent)"""
    import signal
    import sys
    import odxtools.isotp_state_machine as ism
    if not _FAKE_BUS:
        _FAKE_BUS.append(_fake_bus_class())
    old = (sys.stdout, sys.stderr)
    sys.stdout = sys.stderr = _NULL
    out, exc, bus = [], None, None
    old_handler = signal.signal(signal.SIGALRM, _alarm)
    try:
        try:
            bus = _FAKE_BUS[0](frames)
            if name == "snoop-active":
                from odxtools.cli.snoop import init_verbose_state_machine
                one = len(ids) == 1
                tx = tx_ids_for(ids)
                m = init_verbose_state_machine(BaseClass=ism.IsoTpActiveDecoder, can_bus=bus, can_rx_ids=ids[0] if one else list(ids),
                                               can_tx_ids=tx[0] if one else tx, padding_size=8)
            else:
                m, _ = make_variant(name, ids)
        except (Exception, SystemExit) as e:  # noqa
            return [], f"construct:{type(e).__name__}", []

        async def go():
            async for (rid, p) in m.read_telegrams(bus):
                out.append((rid, bytes(p)))
        signal.setitimer(signal.ITIMER_REAL, 5.0)
        try:
            asyncio.run(go())
            exc = "returned"          # the frames cannot be used up without _End
        except _End:
            pass
        except _Hang:
            exc = "hang"
        except (Exception, SystemExit) as e:  # noqa
            exc = type(e).__name__
        finally:
            signal.setitimer(signal.ITIMER_REAL, 0)
    finally:
        signal.signal(signal.SIGALRM, old_handler)
        sys.stdout, sys.stderr = old
        if bus is not None:
            try:
                bus.close()
            except Exception:  # noqa
                pass
    return out, exc, list(bus.sent)


def interleave(rng, streams):
    """random merge of several frame lists, each keeping its own order"""
    idx = [0] * len(streams)
    out = []
    live = [k for k, s in enumerate(streams) if s]
    while live:
        k = rng.choice(live)
        out.append(streams[k][idx[k]])
        idx[k] += 1
        if idx[k] == len(streams[k]):
            live.remove(k)
    return out


def all_interleavings(streams):
    """every merge of the given lists (use only for small totals)"""
    if all(not s for s in streams):
        yield []
        return
    for k, s in enumerate(streams):
        if s:
            rest = [t if j != k else t[1:] for j, t in enumerate(streams)]
            for tail in all_interleavings(rest):
                yield [s[0]] + tail


def boundary_lengths(dl):
    s = set(range(1, 10)) | {dl - 3, dl - 2, dl - 1, dl, dl + 1, 4094, 4095, 255, 256, 257}
    for k in (1, 2, 3, 15, 16, 17, 18, 31, 32, 33):
        base = (dl - 2) + k * (dl - 1)
        s |= {base - 1, base, base + 1}
    return sorted(x for x in s if 1 <= x <= 4095)


def reference_explain(frames):
    """C13 reference for ONE id: the telegrams the property allows, per frame index.
    Returns list (per frame) of lists of allowed payloads:
    the single-frame payload of that frame, or the announced-length prefix of the most recent first
    frame + its in-sequence consecutive frames, if not yet reported."""
    allowed = []
    pend = None  # [announced, data, last_sn, reported]
    for f in frames:
        a = []
        if len(f) >= 1:
            ft, lo = f[0] >> 4, f[0] & 15
            if ft == 0:
                if lo == 0 and len(f) > 8:
                    a.append(bytes(f[2:2 + f[1]]))
                else:
                    a.append(bytes(f[1:1 + lo]))
            elif ft == 1 and len(f) >= 2:
                pend = [lo * 256 + f[1], bytearray(f[2:]), 0, False]
            elif ft == 2 and pend is not None and not pend[3]:
                if lo == (pend[2] + 1) % 16:
                    pend[2] = lo
                    pend[1] += f[1:]
                    if len(pend[1]) >= pend[0]:
                        a.append(bytes(pend[1][:pend[0]]))
                        pend[3] = True
        allowed.append(a)
    return allowed
