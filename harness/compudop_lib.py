"""DOPs behind *every* compu category, for the decode-side properties (C05).

odxgen's composite generator knows IDENTICAL, LINEAR with a constant denominator and TEXTTABLE only; the other categories
(SCALE-LINEAR, TAB-INTP, RAT-FUNC, SCALE-RAT-FUNC, COMPUCODE, TEXTTABLE over float internal types, LINEAR with float
coefficients / absent denominator / INFINITE limits) existed as descriptions of compu_lib (C07/C03: the compu method *object* is
called directly), never as the compu method of a DATA-OBJECT-PROP that a PDU is decoded through.  This module joins the two:

* `other_of_desc`    compu_lib desc  ->  odxgen `D.OtherCompu` (emitted as XML, loaded through the real loader)
* `composite_of`     one DOP of that compu method inside a request / response, in one of five contexts (CONTEXTS)
* `pole_descs`       the enumerated small scope of rational functions: denominator polynomial x numerator x limits relative to
                     the pole x category (one scale / two scales meeting at the pole) x internal type x physical type
* `internal_points`  the coded values that matter for one description: every zero of a denominator inside the window of the
                     coded type (found by exact evaluation over the whole window), every scale limit, their neighbours, the
                     extremes of the coded type; for float types also the non-finite / extreme bit patterns
* `code`             internal value -> the bytes of the coded type

Nothing here looks at the implementation; the oracle is the caller's.
"""
import math
import struct
from fractions import Fraction as Fr

import compu_lib as CL
from odxgen import desc as D

INT_TYPES, FLOAT_TYPES, NUM_TYPES = CL.INT_TYPES, CL.FLOAT_TYPES, CL.NUM_TYPES
CONTEXTS = ("param", "struct", "eop-field", "response", "dtc-dop")

#: bit patterns of float objects that no finite sample reaches (quiet/signalling NaN, the infinities, largest / smallest
#: magnitudes, the zeros)
FLOAT_PATTERNS = {
    "A_FLOAT32": ["7fc00000", "7fa00000", "ffc00000", "7f800000", "ff800000", "7f7fffff", "ff7fffff", "00000001", "80000001",
                  "00800000", "00000000", "80000000"],
    "A_FLOAT64": ["7ff8000000000000", "7ff4000000000000", "fff8000000000000", "7ff0000000000000", "fff0000000000000",
                  "7fefffffffffffff", "ffefffffffffffff", "0000000000000001", "8000000000000001", "0010000000000000",
                  "0000000000000000", "8000000000000000"],
}


# ------------------------------------------------------------------ compu_lib desc -> odxgen
def _py(v):
    return CL.pyval(v)


def _lim(l):
    if l is None:
        return None
    return (None if l["v"] is None else _py(l["v"]), l["t"])


def _scale(s):
    out = {"lower": _lim(s.get("lo")), "upper": _lim(s.get("hi"))}
    if s.get("inv") is not None:
        out["inv"] = _py(s["inv"])
    if s.get("const") is not None:
        out["const"] = _py(s["const"])
    if s.get("num") is not None:
        out["num"] = [_py(x) for x in s["num"]]
        out["den"] = [_py(x) for x in s.get("den") or []]
    return out


def other_of_desc(desc):
    i2p, p2i = desc.get("i2p") or {"scales": [], "default": None}, desc.get("p2i")
    dv = i2p.get("default")
    return D.OtherCompu(desc["cat"], [_scale(s) for s in i2p["scales"]],
                        [_scale(s) for s in p2i["scales"]] if p2i and p2i.get("scales") else None,
                        None if dv is None else _py(dv))


def well_formed(desc):
    """the part of ODX well-formedness that the constructors of odxtools do not check themselves and that compu_lib's
    'mostly well-formed' generator leaves open: a limit without value is INFINITE; every scale of a TEXTTABLE / TAB-INTP has
    its COMPU-CONST; rational scales have coefficients; a constant COMPU-DENOMINATOR is not zero (ODX 7.3.6.6: V /= 0)"""
    cat = desc["cat"]
    if cat in ("IDENTICAL",):
        return True
    if desc.get("i2p") is None:
        return False
    scales = desc["i2p"]["scales"]
    if not scales and cat != "COMPUCODE":
        return False
    for s in scales:
        for l in (s.get("lo"), s.get("hi")):
            if l is not None and l["v"] is None and l["t"] != "INFINITE":
                return False
        if cat in ("TEXTTABLE", "TAB-INTP") and s.get("const") is None:
            return False
        if cat in ("LINEAR", "SCALE-LINEAR", "RAT-FUNC", "SCALE-RAT-FUNC"):
            if not s.get("num"):
                return False
            den = s.get("den") or []
            if den and all(CL.frac(c) == 0 for c in den):
                return False
        if cat in ("LINEAR", "SCALE-LINEAR") and (len(s["num"]) > 2 or len(s.get("den") or []) > 1):
            return False
    if cat == "TAB-INTP" and len(scales) < 2:
        return False
    return True


# ------------------------------------------------------------------ coded type and bytes
def window(ity, width=8):
    if ity == "A_UINT32":
        return (0, 2 ** width - 1)
    if ity == "A_INT32":
        return (-2 ** (width - 1), 2 ** (width - 1) - 1)
    return (-128, 255)             # sample window of the float types (integers and halves)


def coded_type(ity, width=8, hl=None):
    if ity in INT_TYPES:
        return D.Std(ity, width, None, hl)
    return D.Std(ity, 32 if ity == "A_FLOAT32" else 64, None, hl)


def code(dct, x):
    """bytes of internal value x (int | Fraction | float) in a byte-aligned STANDARD-LENGTH object; None = not representable"""
    hl = D.is_hl(dct)
    if dct.bt in INT_TYPES:
        if Fr(x).denominator != 1:
            return None
        x = int(x)
        lo, hi = window(dct.bt, dct.bitlen)
        if not lo <= x <= hi:
            return None
        b = (x & (2 ** dct.bitlen - 1)).to_bytes(dct.bitlen // 8, "big")
    else:
        try:
            f = x if isinstance(x, float) else Fr(x).numerator / Fr(x).denominator
            b = struct.pack(">f" if dct.bt == "A_FLOAT32" else ">d", f)
        except (OverflowError, struct.error):
            return None
    return b if hl else b[::-1]


def nbytes(dct):
    return dct.bitlen // 8


# ------------------------------------------------------------------ the coded values that matter
def _zeros(cs, lo, hi, half=False):
    """the zeros of the polynomial among the integers lo..hi (half: among k/2, 2*lo <= k <= 2*hi), in integer arithmetic"""
    q = [CL.frac(c) for c in cs]
    if not q or all(c == 0 for c in q):
        return []
    m = 1
    for c in q:
        m = m * c.denominator // math.gcd(m, c.denominator)
    ints = [int(c * m) for c in q]
    n = len(ints) - 1
    if half:
        ints = [c * 2 ** (n - i) for i, c in enumerate(ints)]      # p(k/2) * 2^n = sum c_i k^i 2^(n-i)
        lo, hi = 2 * lo, 2 * hi
    out = []
    for x in range(lo, hi + 1):
        acc = 0
        for c in reversed(ints):
            acc = acc * x + c
        if acc == 0:
            out.append(Fr(x, 2) if half else Fr(x))
    return out


def _rational_roots(cs):
    """exact rational zeros of a polynomial of degree <= 2 (coefficients as vals)"""
    q = [CL.frac(c) for c in cs]
    while q and q[-1] == 0:
        q.pop()
    if len(q) == 2:
        return [-q[0] / q[1]]
    if len(q) == 3:
        disc = q[1] * q[1] - 4 * q[2] * q[0]
        if disc < 0:
            return []
        n, d = disc.numerator, disc.denominator
        rn, rd = math.isqrt(n), math.isqrt(d)
        if rn * rn != n or rd * rd != d:
            return []
        r = Fr(rn, rd)
        return sorted({(-q[1] - r) / (2 * q[2]), (-q[1] + r) / (2 * q[2])})
    return []


def poles(desc, dct):
    """zeros of the denominators of the internal-to-physical scales that the coded type can carry"""
    out = set()
    lo, hi = window(dct.bt, dct.bitlen)
    for s in (desc.get("i2p") or {}).get("scales", []):
        den = s.get("den") or []
        if s.get("num") is None or not den:
            continue
        if dct.bt in INT_TYPES:
            # exhaustive over the 8-bit window (every zero, whatever the degree); beyond it the exact zeros up to degree 2
            out.update(_zeros(den, max(lo, -256), min(hi, 255)))
            out.update(r for r in _rational_roots(den) if r.denominator == 1 and lo <= r <= hi)
        else:
            out.update(r for r in _rational_roots(den))
            out.update(_zeros(den, -16, 16, half=True))
    return sorted(out)


def internal_points(rng, desc, dct, thorough):
    """[(tag, internal value as Fraction)]: poles, limits and their neighbours, extremes of the coded type, samples"""
    lo, hi = window(dct.bt, dct.bitlen)
    pts = {}

    def add(tag, q):
        q = Fr(q)
        if q not in pts:
            pts[q] = tag
    for p in poles(desc, dct):
        add("pole", p)
    for p in list(pts):
        for d in (-1, 1):
            add("pole-neighbour", p + d)
        if dct.bt in FLOAT_TYPES:
            for d in (Fr(-1, 2), Fr(1, 2), Fr(1, 1024), Fr(-1, 1024)):
                add("pole-neighbour", p + d)
    for s in (desc.get("i2p") or {}).get("scales", []):
        for l in (s.get("lo"), s.get("hi")):
            if l is not None and CL.is_num(l["v"]):
                q = CL.frac(l["v"])
                add("limit", q)
                for d in (-1, 1):
                    add("limit-neighbour", q + d)
                if dct.bt in FLOAT_TYPES:
                    for d in (Fr(-1, 2), Fr(1, 2)):
                        add("limit-neighbour", q + d)
    for q in (lo, lo + 1, hi - 1, hi, 0, 1, -1, 2):
        add("extreme", q)
    if thorough and dct.bt in INT_TYPES and dct.bitlen <= 8:
        for q in range(lo, hi + 1):
            add("window", q)
    else:
        for _ in range(10 if thorough else 4):
            add("sample", rng.randint(lo, hi))
    if dct.bt in FLOAT_TYPES:
        for _ in range(8 if thorough else 3):
            add("sample", Fr(rng.randint(2 * lo, 2 * hi), 2))
        for e in (20, 62, 100, 127, 300, 1000):
            add("magnitude", Fr(2) ** e)
            add("magnitude", -Fr(2) ** e)
            add("magnitude", Fr(1, 2 ** e))
    return [(t, q) for q, t in pts.items()]


def byte_strings(rng, desc, comp_info, thorough):
    """(family, bytes) for one composite built by `composite_of`: one PDU per coded value that matters (+ the float bit
    patterns), every proper prefix of the first two of them, the value repeated (fields), a byte appended"""
    dct, head, tail = comp_info["dct"], comp_info["head"], comp_info["tail"]
    out, seen = [], set()

    def emit(fam, b):
        if b not in seen:
            seen.add(b)
            out.append((fam, b))
    full = []
    for tag, q in internal_points(rng, desc, dct, thorough):
        c = code(dct, q)
        if c is None:
            continue
        emit("coded-" + tag, head + c + tail)
        full.append(head + c + tail)
        if comp_info["context"] == "eop-field" and tag in ("pole", "limit", "extreme"):
            emit("coded-" + tag, head + code(dct, 1) + c)          # the value that matters in the second item
    if dct.bt in FLOAT_TYPES:
        for h in FLOAT_PATTERNS[dct.bt]:
            c = bytes.fromhex(h)
            emit("coded-float-pattern", head + (c if D.is_hl(dct) else c[::-1]) + tail)
    for pdu in full[:2]:
        for n in range(len(pdu)):
            emit("prefix", pdu[:n])
        emit("extension", pdu + b"\x00")
        emit("extension", pdu + pdu)
    return out


# ------------------------------------------------------------------ the composite around the DOP
def dtc_capable(desc):
    """a DTC-DOP is an unsigned coded value whose physical value is the (integer) trouble code"""
    return desc["ity"] == "A_UINT32" and desc["pty"] == "A_UINT32" and desc["cat"] not in ("TEXTTABLE", "COMPUCODE")


def composite_of(desc, name, context="param", width=8, hl=None, compu=None):
    """(composite, info): `[SID 0x22] x [y: u8]` with x behind the compu method, in one of CONTEXTS; `compu`: the odxgen
    compu method to use instead of `D.OtherCompu` (a LINEAR / TEXTTABLE the codec model follows)"""
    dct = coded_type(desc["ity"], width, hl)
    if context == "dtc-dop" and not dtc_capable(desc):
        context = "param"
    cm = compu if compu is not None else other_of_desc(desc)
    if context == "dtc-dop":
        # the trouble code is the physical value; all the codes the window can produce need not be declared (an undeclared
        # code is a DecodeError in strict mode, a substitute DTC object in lenient mode)
        dop = D.DtcDop(dct, desc["pty"], cm, [(1, "DTC_A"), (5, "DTC_B"), (255, "DTC_C")])
    else:
        dop = D.SimpleDop(dct, desc["pty"], cm)
    x = D.value("x", dop)
    kind, tail = "request", b"\x01"
    if context in ("param", "dtc-dop"):
        params = [D.sid(), x, D.value("y", D.u8())]
    elif context == "struct":
        params = [D.sid(), D.value("s", D.Struct([x])), D.value("y", D.u8())]
    elif context == "eop-field":
        params, tail = [D.sid(), D.value("f", D.EopField(D.Struct([x])))], b""
    elif context == "response":
        kind, params = "pos-response", [D.sid(0x62), x, D.value("y", D.u8())]
    else:
        raise ValueError(context)
    comp = D.Composite(name, kind, params)
    return comp, {"dct": dct, "head": bytes([0x62 if kind == "pos-response" else 0x22]), "tail": tail, "context": context}


# ------------------------------------------------------------------ enumerated small scope: rational functions and their poles
#: denominator polynomials (coefficients of x^0, x^1, ...); the zeros lie at 0, at +-1, +-2, at a half, at the extremes of
#: the 8-bit coded types, nowhere (constant / x^2+1), everywhere-but-declared (x*(x-1) has two)
DENOMINATORS = [
    ("x", [0, 1]), ("x-1", [-1, 1]), ("x+1", [1, 1]), ("x-2", [-2, 1]), ("2x-1", [-1, 2]), ("x^2", [0, 0, 1]), ("x^2-4", [-4, 0, 1]),
    ("x^2-x", [0, -1, 1]), ("x-255", [-255, 1]), ("x-127", [-127, 1]), ("x+128", [128, 1]), ("3-x", [3, -1]), ("x^2+1", [1, 0, 1]),
    ("const-2", [2]), ("none", []),
]
NUMERATORS = [("1", [1]), ("x", [0, 1]), ("0", [0])]
LIMITS = ("none", "closed-at-pole", "open-at-pole", "around", "beyond", "below", "infinite")
SPLITS = ("pole-in-first", "pole-in-second", "pole-in-gap", "pole-inside-second")


def _first_pole(den, ity):
    lo, hi = window(ity)
    cs = [CL.vi(c) for c in den]
    if ity in INT_TYPES:
        zs = _zeros(cs, lo, hi)
    else:
        zs = [r for r in _rational_roots(cs)] or _zeros(cs, -4, 4)
    return zs[0] if zs else None


def _rs(lo, hi, num, den, pty):
    mk = (lambda c: CL.vnum(c, pty))
    return {"lo": lo, "hi": hi, "inv": None, "const": None, "num": [mk(c) for c in num], "den": [mk(c) for c in den]}


def _L(v, t, ity):
    if ity in INT_TYPES:
        v = int(v) if Fr(v).denominator == 1 else int(Fr(v) // 1)
    return {"v": CL.vnum(v, ity), "t": t}


def pole_descs():
    """RAT-FUNC: one scale, limits placed relative to the first pole p of the denominator (absent / p is the closed lower
    limit / p is the open lower limit / p strictly inside / the interval starts behind p / ends before p / INFINITE lower
    limit up to p); SCALE-RAT-FUNC: two scales meeting at p, with p in the first, in the second, in neither, or strictly
    inside the second.  All internal types x all physical types; coefficients are integers (legal for every type)."""
    for ity in NUM_TYPES:
        for pty in NUM_TYPES:
            for dn, den in DENOMINATORS:
                p = _first_pole(den, ity)
                for nn, num in NUMERATORS:
                    for lk in LIMITS:
                        if p is None and lk not in ("none", "around"):
                            continue
                        q = Fr(0) if p is None else p
                        lo, hi = {"none": (None, None),
                                  "closed-at-pole": (_L(q, "CLOSED", ity), _L(q + 10, "CLOSED", ity)),
                                  "open-at-pole": (_L(q, "OPEN", ity), _L(q + 10, None, ity)),
                                  "around": (_L(q - 3, None, ity), _L(q + 3, "OPEN", ity)),
                                  "beyond": (_L(q + 1, "CLOSED", ity), _L(q + 10, "CLOSED", ity)),
                                  "below": (_L(q - 10, "CLOSED", ity), _L(q, "OPEN", ity)),
                                  "infinite": ({"v": None, "t": "INFINITE"}, _L(q, "CLOSED", ity))}[lk]
                        if lk == "open-at-pole" and ity in INT_TYPES and Fr(q).denominator != 1:
                            continue
                        yield {"cat": "RAT-FUNC", "ity": ity, "pty": pty, "i2p": {"scales": [_rs(lo, hi, num, den, pty)], "default": None},
                               "p2i": None, "family": f"ratfunc/{dn}/{nn}/{lk}"}
                    if p is None:
                        continue
                    for sk in SPLITS:
                        a, b = {"pole-in-first": (("CLOSED", "CLOSED"), ("OPEN", "CLOSED")),
                                "pole-in-second": (("CLOSED", "OPEN"), ("CLOSED", "CLOSED")),
                                "pole-in-gap": (("CLOSED", "OPEN"), ("OPEN", "CLOSED")),
                                "pole-inside-second": (("CLOSED", "OPEN"), ("CLOSED", None))}[sk]
                        cut = p - 2 if sk == "pole-inside-second" else p
                        s1 = _rs(_L(cut - 6, a[0], ity), _L(cut, a[1], ity), num, den, pty)
                        s2 = _rs(_L(cut, b[0], ity), _L(cut + 6, b[1], ity), [1, 1], den, pty)
                        yield {"cat": "SCALE-RAT-FUNC", "ity": ity, "pty": pty, "i2p": {"scales": [s1, s2], "default": None}, "p2i": None,
                               "family": f"scaleratfunc/{dn}/{nn}/{sk}"}


def zero_denominator_descs():
    """the degenerate member of the pole family: LINEAR with COMPU-DENOMINATOR 0 -- the loader accepts it (without limits
    nothing is evaluated at load time), *every* coded value is a pole.  Given as (desc, odxgen D.Linear): this is the one
    arithmetic failure of a conversion that the Lean codec model follows (`methodI2P arith`), so these descriptions are
    also correspondence inputs."""
    for ity in INT_TYPES:
        for pty in ("A_INT32", "A_UINT32", "A_FLOAT64"):
            for num0, num1 in ((1, 1), (0, 2), (0, 0)):
                desc = {"cat": "LINEAR", "ity": ity, "pty": pty, "p2i": None, "family": f"linear/{num0}+{num1}x/0",
                        "i2p": {"scales": [{"lo": None, "hi": None, "inv": None, "const": None,
                                            "num": [CL.vnum(num0, pty), CL.vnum(num1, pty)], "den": [CL.vnum(0, pty)]}], "default": None}}
                yield desc, D.Linear(num0, num1, 0)


def random_desc(rng, cat, ity, pty):
    """a well-formed description of compu_lib's generators with a numeric internal type (None = the draw was not well formed)"""
    if cat == "TEXTTABLE":
        d = (CL.gen_texttable_zero if rng.random() < 0.4 else CL.gen_texttable)(rng, ity)
    elif cat == "IDENTICAL":
        d = {"cat": "IDENTICAL", "ity": ity, "pty": ity, "i2p": None, "p2i": None}
    elif cat == "COMPUCODE":
        d = {"cat": "COMPUCODE", "ity": ity, "pty": pty, "i2p": {"scales": [], "default": None}, "p2i": None}
    else:
        d = CL.gen_desc(rng, cat, ity, pty)
    return d if well_formed(d) else None


RANDOM_CATEGORIES = ("LINEAR", "SCALE-LINEAR", "TAB-INTP", "RAT-FUNC", "SCALE-RAT-FUNC", "TEXTTABLE", "IDENTICAL", "COMPUCODE")
