"""Hand-written ODX documents for C11 that exhibit the elements and attributes the shipped examples lack.

Written from the parsers' point of view (every slot a `from_et` reads should occur at least once, optional
attributes present), independent of the templates.  Four stand-alone documents so that one element the writer
cannot handle does not hide the others:
   rmeta  admin data, company data, special data groups, audiences, state charts, libraries, patterns, parent refs
   rdict  data dictionary: diag coded types, compu methods, constraints, units, DTCs, tables, fields, mux, env data
   rcomm  services with every attribute, single ECU jobs, every parameter kind, comparam-less refs, sub components
   rhard  elements whose writer macros are fragile (dyn-defined spec, end-marker field, layer company data, IMPORT-REFS)
   rvars  rhard plus DIAG-VARIABLES (the writer cannot write them at all on the pinned commit)
Families of small multi-document databases: `seq_variants` (write sequences) and `xdoc_*` (one six-layer hierarchy with
communication parameters, distributed over diagnostic layer containers in every possible way; load orders, derived state).
"""

XSI = 'xmlns:xsi="http://www.w3.org/2001/XMLSchema-instance"'


def doc(name, body, head=""):
    return (f'<?xml version="1.0" encoding="UTF-8"?>\n<ODX MODEL-VERSION="2.2.0" {XSI}>\n'
            f'<DIAG-LAYER-CONTAINER ID="{name}" OID="oid.{name}">\n<SHORT-NAME>{name}</SHORT-NAME>\n'
            f'<LONG-NAME>container {name}</LONG-NAME>\n<DESC TI="ti.{name}"><p>container {name}</p></DESC>\n'
            f'{head}{body}</DIAG-LAYER-CONTAINER>\n</ODX>\n')


def ident(i, long=True, desc=True, oid=True):
    return (f'<SHORT-NAME>{i}</SHORT-NAME>' + (f'<LONG-NAME>long {i}</LONG-NAME>' if long else "")
            + (f'<DESC><p>desc of {i}</p></DESC>' if desc else ""))


UINT8 = ('<DIAG-CODED-TYPE BASE-DATA-TYPE="A_UINT32" xsi:type="STANDARD-LENGTH-TYPE"><BIT-LENGTH>8</BIT-LENGTH></DIAG-CODED-TYPE>')


def dop(i, extra="", dct=UINT8, phys='<PHYSICAL-TYPE BASE-DATA-TYPE="A_UINT32"/>', cm='<COMPU-METHOD><CATEGORY>IDENTICAL</CATEGORY></COMPU-METHOD>', attrs=""):
    return (f'<DATA-OBJECT-PROP ID="{i}"{attrs}>{ident(i, desc=False)}{cm}{dct}{phys}{extra}</DATA-OBJECT-PROP>')


def sid_param(v, name="sid", sem="SERVICE-ID"):
    return (f'<PARAM SEMANTIC="{sem}" xsi:type="CODED-CONST"><SHORT-NAME>{name}</SHORT-NAME><BYTE-POSITION>0</BYTE-POSITION>'
            f'<CODED-VALUE>{v}</CODED-VALUE>{UINT8}</PARAM>')


def sdgs(tag):
    return (f'<SDGS><SDG ID="sdg.{tag}" SI="si.{tag}"><SDG-CAPTION ID="cap.{tag}" OID="oid.cap.{tag}">{ident("cap_" + tag)}</SDG-CAPTION>'
            f'<SD SI="sd.si" TI="sd.ti">value one</SD><SD>value two</SD>'
            f'<SDG SI="inner"><SDG-CAPTION-REF ID-REF="cap.{tag}"/><SD TI="deep">nested</SD></SDG></SDG></SDGS>')


ADMIN = ('<ADMIN-DATA><LANGUAGE>en-UK</LANGUAGE><COMPANY-DOC-INFOS><COMPANY-DOC-INFO><COMPANY-DATA-REF ID-REF="CD.acme"/>'
         '<TEAM-MEMBER-REF ID-REF="TM.alice"/><DOC-LABEL>label 1</DOC-LABEL>%s</COMPANY-DOC-INFO></COMPANY-DOC-INFOS>'
         '<DOC-REVISIONS><DOC-REVISION><TEAM-MEMBER-REF ID-REF="TM.alice"/><REVISION-LABEL>1.2.3</REVISION-LABEL><STATE>draft</STATE>'
         '<DATE>2024-02-29T12:34:56</DATE><TOOL>odxgen 1.0</TOOL><COMPANY-REVISION-INFOS><COMPANY-REVISION-INFO>'
         '<COMPANY-DATA-REF ID-REF="CD.acme"/><REVISION-LABEL>r7</REVISION-LABEL><STATE>released</STATE></COMPANY-REVISION-INFO>'
         '</COMPANY-REVISION-INFOS><MODIFICATIONS><MODIFICATION><CHANGE>changed everything</CHANGE><REASON>because</REASON></MODIFICATION>'
         '<MODIFICATION><CHANGE>and again</CHANGE></MODIFICATION></MODIFICATIONS></DOC-REVISION></DOC-REVISIONS></ADMIN-DATA>')


def admin(tag=None):
    return ADMIN % (sdgs(tag) if tag else "")


COMPANY = ('<COMPANY-DATAS><COMPANY-DATA ID="CD.acme" OID="oid.acme">' + ident("acme") + '<ROLES><ROLE>supplier</ROLE><ROLE>tester</ROLE></ROLES>'
           '<TEAM-MEMBERS><TEAM-MEMBER ID="TM.alice" OID="oid.alice">' + ident("alice") + '<ROLES><ROLE>author</ROLE></ROLES>'
           '<DEPARTMENT>R and D</DEPARTMENT><ADDRESS>1 Main St</ADDRESS><ZIP>12345</ZIP><CITY>Springfield</CITY><PHONE>+1 555 0100</PHONE>'
           '<FAX>+1 555 0101</FAX><EMAIL>alice@example.com</EMAIL></TEAM-MEMBER><TEAM-MEMBER ID="TM.bob"><SHORT-NAME>bob</SHORT-NAME></TEAM-MEMBER>'
           '</TEAM-MEMBERS><COMPANY-SPECIFIC-INFO><RELATED-DOCS><RELATED-DOC><XDOC>' + ident("xd") + '<NUMBER>42</NUMBER><STATE>final</STATE>'
           '<DATE>2020-01-01T00:00:00</DATE><PUBLISHER>ACME press</PUBLISHER><URL>http://example.com/x?a=1</URL><POSITION>p. 7</POSITION></XDOC>'
           '<DESC><p>related</p></DESC></RELATED-DOC></RELATED-DOCS>%s</COMPANY-SPECIFIC-INFO></COMPANY-DATA></COMPANY-DATAS>')


def company(tag="co"):
    return COMPANY % sdgs(tag)


def service(i, req, pos=(), neg=(), attrs="", extra_pre="", extra_post=""):
    return (f'<DIAG-SERVICE ID="{i}"{attrs}>{ident(i)}{extra_pre}<REQUEST-REF ID-REF="{req}"/>'
            + ("<POS-RESPONSE-REFS>" + "".join(f'<POS-RESPONSE-REF ID-REF="{r}"/>' for r in pos) + "</POS-RESPONSE-REFS>" if pos else "")
            + ("<NEG-RESPONSE-REFS>" + "".join(f'<NEG-RESPONSE-REF ID-REF="{r}"/>' for r in neg) + "</NEG-RESPONSE-REFS>" if neg else "")
            + extra_post + "</DIAG-SERVICE>")


def request(i, params, extra=""):
    return f'<REQUEST ID="{i}">{ident(i)}{extra}<PARAMS>{params}</PARAMS></REQUEST>'


def response(tag, i, params, extra=""):
    return f'<{tag} ID="{i}">{ident(i)}{extra}<PARAMS>{params}</PARAMS></{tag}>'


def value_param(name, dopid, pos, extra="", attrs=""):
    return (f'<PARAM{attrs} xsi:type="VALUE"><SHORT-NAME>{name}</SHORT-NAME><BYTE-POSITION>{pos}</BYTE-POSITION>{extra}'
            f'<DOP-REF ID-REF="{dopid}"/></PARAM>')


# -------------------------------------------------------------------------------------------------
def rmeta():
    sd = ('<ECU-SHARED-DATA ID="msd" OID="oid.msd">' + ident("msd") + admin("msd") + company("msdco")
          + '<FUNCT-CLASSS><FUNCT-CLASS ID="FC.a" OID="oid.fca">' + ident("fc_a") + admin() + '</FUNCT-CLASS>'
          '<FUNCT-CLASS ID="FC.b"><SHORT-NAME>fc_b</SHORT-NAME></FUNCT-CLASS></FUNCT-CLASSS>'
          '<DIAG-DATA-DICTIONARY-SPEC><DATA-OBJECT-PROPS>' + dop("D.u8") + '</DATA-OBJECT-PROPS></DIAG-DATA-DICTIONARY-SPEC>'
          '<DIAG-COMMS>'
          + service("S.one", "RQ.one", pos=["PR.one"], neg=["NR.one"],
                    attrs=' OID="oid.s1" SEMANTIC="SESSION" DIAGNOSTIC-CLASS="STARTCOMM" IS-MANDATORY="true" IS-EXECUTABLE="false" IS-FINAL="true"'
                          ' IS-CYCLIC="false" IS-MULTIPLE="true" ADDRESSING="FUNCTIONAL-OR-PHYSICAL" TRANSMISSION-MODE="SEND-AND-RECEIVE"',
                    extra_pre=admin("svc") + sdgs("svc2")
                    + '<FUNCT-CLASS-REFS><FUNCT-CLASS-REF ID-REF="FC.a"/><FUNCT-CLASS-REF ID-REF="FC.b"/></FUNCT-CLASS-REFS>'
                    '<AUDIENCE IS-SUPPLIER="false" IS-DEVELOPMENT="true" IS-MANUFACTURING="false" IS-AFTERSALES="true" IS-AFTERMARKET="false">'
                    '<ENABLED-AUDIENCE-REFS><ENABLED-AUDIENCE-REF ID-REF="AA.x"/></ENABLED-AUDIENCE-REFS></AUDIENCE>'
                    '<RELATED-DIAG-COMM-REFS><RELATED-DIAG-COMM-REF ID-REF="S.two"><RELATION-TYPE>follow-up</RELATION-TYPE></RELATED-DIAG-COMM-REF>'
                    '</RELATED-DIAG-COMM-REFS><PRE-CONDITION-STATE-REFS><PRE-CONDITION-STATE-REF ID-REF="ST.off"/></PRE-CONDITION-STATE-REFS>'
                    '<STATE-TRANSITION-REFS><STATE-TRANSITION-REF ID-REF="STT.on"/></STATE-TRANSITION-REFS>')
          + service("S.two", "RQ.one",
                    extra_pre='<AUDIENCE><DISABLED-AUDIENCE-REFS><DISABLED-AUDIENCE-REF ID-REF="AA.x"/><DISABLED-AUDIENCE-REF ID-REF="AA.y"/>'
                              '</DISABLED-AUDIENCE-REFS></AUDIENCE>')
          + '</DIAG-COMMS>'
          '<REQUESTS>' + request("RQ.one", sid_param(16) + value_param("p1", "D.u8", 1), extra=admin() + sdgs("rq")) + '</REQUESTS>'
          '<POS-RESPONSES>' + response("POS-RESPONSE", "PR.one", sid_param(80) + value_param("p1", "D.u8", 1), extra=admin() + sdgs("pr")) + '</POS-RESPONSES>'
          '<NEG-RESPONSES>' + response("NEG-RESPONSE", "NR.one", sid_param(127)) + '</NEG-RESPONSES>'
          '<GLOBAL-NEG-RESPONSES>' + response("GLOBAL-NEG-RESPONSE", "GNR.one", sid_param(127) + value_param("code", "D.u8", 1)) + '</GLOBAL-NEG-RESPONSES>'
          '<STATE-CHARTS><STATE-CHART ID="SC.power" OID="oid.sc">' + ident("power") + '<SEMANTIC>POWER</SEMANTIC>'
          '<STATE-TRANSITIONS><STATE-TRANSITION ID="STT.on" OID="oid.stt">' + ident("turn_on") + '<SOURCE-SNREF SHORT-NAME="off"/><TARGET-SNREF SHORT-NAME="on"/>'
          '<EXTERNAL-ACCESS-METHOD ID="EAM.1" OID="oid.eam">' + ident("eam") + '<METHOD>press button</METHOD></EXTERNAL-ACCESS-METHOD></STATE-TRANSITION>'
          '<STATE-TRANSITION ID="STT.off"><SHORT-NAME>turn_off</SHORT-NAME><SOURCE-SNREF SHORT-NAME="on"/><TARGET-SNREF SHORT-NAME="off"/></STATE-TRANSITION>'
          '</STATE-TRANSITIONS><START-STATE-SNREF SHORT-NAME="off"/><STATES><STATE ID="ST.off" OID="oid.off">' + ident("off") + '</STATE>'
          '<STATE ID="ST.on"><SHORT-NAME>on</SHORT-NAME></STATE></STATES></STATE-CHART></STATE-CHARTS>'
          '<ADDITIONAL-AUDIENCES><ADDITIONAL-AUDIENCE ID="AA.x" OID="oid.aax">' + ident("aud_x") + '</ADDITIONAL-AUDIENCE>'
          '<ADDITIONAL-AUDIENCE ID="AA.y"><SHORT-NAME>aud_y</SHORT-NAME></ADDITIONAL-AUDIENCE></ADDITIONAL-AUDIENCES>'
          '<LIBRARYS><LIBRARY ID="LIB.a" OID="oid.lib">' + ident("lib_a") + '<CODE-FILE>lib.jar</CODE-FILE><ENCRYPTION>none</ENCRYPTION>'
          '<SYNTAX>JAR</SYNTAX><REVISION>1.0</REVISION><ENTRYPOINT>com.example.Lib</ENTRYPOINT></LIBRARY></LIBRARYS>'
          + sdgs("msdtail") + '</ECU-SHARED-DATA>')
    fg = ('<FUNCTIONAL-GROUP ID="mfg">' + ident("mfg")
          + '<DIAG-COMMS><DIAG-COMM-REF ID-REF="S.two"/>' + service("S.fg", "RQ.fg") + '</DIAG-COMMS>'
          '<REQUESTS>' + request("RQ.fg", sid_param(17)) + '</REQUESTS>'
          '<PARENT-REFS><PARENT-REF ID-REF="msd" DOCREF="rmeta" DOCTYPE="CONTAINER" xsi:type="ECU-SHARED-DATA-REF">'
          '<NOT-INHERITED-DIAG-COMMS><NOT-INHERITED-DIAG-COMM><DIAG-COMM-SNREF SHORT-NAME="S.one"/></NOT-INHERITED-DIAG-COMM></NOT-INHERITED-DIAG-COMMS>'
          '<NOT-INHERITED-DOPS><NOT-INHERITED-DOP><DOP-BASE-SNREF SHORT-NAME="nope"/></NOT-INHERITED-DOP></NOT-INHERITED-DOPS>'
          '<NOT-INHERITED-TABLES><NOT-INHERITED-TABLE><TABLE-SNREF SHORT-NAME="notab"/></NOT-INHERITED-TABLE></NOT-INHERITED-TABLES>'
          '<NOT-INHERITED-GLOBAL-NEG-RESPONSES><NOT-INHERITED-GLOBAL-NEG-RESPONSE><GLOBAL-NEG-RESPONSE-SNREF SHORT-NAME="GNR.none"/>'
          '</NOT-INHERITED-GLOBAL-NEG-RESPONSE></NOT-INHERITED-GLOBAL-NEG-RESPONSES>'
          '</PARENT-REF></PARENT-REFS></FUNCTIONAL-GROUP>')
    bv = ('<BASE-VARIANT ID="mbv">' + ident("mbv")
          + '<DIAG-COMMS>' + service("S.id", "RQ.id", pos=["PR.id"]) + '</DIAG-COMMS>'
          '<REQUESTS>' + request("RQ.id", sid_param(34)) + '</REQUESTS>'
          '<POS-RESPONSES>' + response("POS-RESPONSE", "PR.id", sid_param(98) + value_param("ident", "D.u8", 1)) + '</POS-RESPONSES>'
          '<BASE-VARIANT-PATTERN><MATCHING-BASE-VARIANT-PARAMETERS><MATCHING-BASE-VARIANT-PARAMETER><EXPECTED-VALUE>7</EXPECTED-VALUE>'
          '<USE-PHYSICAL-ADDRESSING>false</USE-PHYSICAL-ADDRESSING><DIAG-COMM-SNREF SHORT-NAME="S.id"/><OUT-PARAM-IF-SNREF SHORT-NAME="ident"/>'
          '</MATCHING-BASE-VARIANT-PARAMETER></MATCHING-BASE-VARIANT-PARAMETERS></BASE-VARIANT-PATTERN>'
          '<PARENT-REFS><PARENT-REF ID-REF="mfg" xsi:type="FUNCTIONAL-GROUP-REF"/>'
          '<PARENT-REF ID-REF="msd" xsi:type="ECU-SHARED-DATA-REF"/></PARENT-REFS></BASE-VARIANT>')
    ev = ('<ECU-VARIANT ID="mev" OID="oid.mev">' + ident("mev")
          + '<ECU-VARIANT-PATTERNS><ECU-VARIANT-PATTERN><MATCHING-PARAMETERS><MATCHING-PARAMETER><EXPECTED-VALUE>7</EXPECTED-VALUE>'
          '<DIAG-COMM-SNREF SHORT-NAME="S.id"/><OUT-PARAM-IF-SNREF SHORT-NAME="ident"/></MATCHING-PARAMETER>'
          '<MATCHING-PARAMETER><EXPECTED-VALUE>9</EXPECTED-VALUE><DIAG-COMM-SNREF SHORT-NAME="S.id"/>'
          '<OUT-PARAM-IF-SNPATHREF SHORT-NAME-PATH="ident"/></MATCHING-PARAMETER></MATCHING-PARAMETERS></ECU-VARIANT-PATTERN>'
          '<ECU-VARIANT-PATTERN><MATCHING-PARAMETERS><MATCHING-PARAMETER><EXPECTED-VALUE>8</EXPECTED-VALUE>'
          '<DIAG-COMM-SNREF SHORT-NAME="S.id"/><OUT-PARAM-IF-SNREF SHORT-NAME="ident"/></MATCHING-PARAMETER></MATCHING-PARAMETERS>'
          '</ECU-VARIANT-PATTERN></ECU-VARIANT-PATTERNS>'
          '<PARENT-REFS><PARENT-REF ID-REF="mbv" xsi:type="BASE-VARIANT-REF"/></PARENT-REFS></ECU-VARIANT>')
    head = admin("dlc") + company("dlcco") + sdgs("dlc2")
    body = (f'<FUNCTIONAL-GROUPS>{fg}</FUNCTIONAL-GROUPS><ECU-SHARED-DATAS>{sd}</ECU-SHARED-DATAS>'
            f'<BASE-VARIANTS>{bv}</BASE-VARIANTS><ECU-VARIANTS>{ev}</ECU-VARIANTS>')
    return doc("rmeta", body, head)


# -------------------------------------------------------------------------------------------------
def limit(tag, v, it=None):
    return f'<{tag}' + (f' INTERVAL-TYPE="{it}"' if it else "") + f'>{v}</{tag}>'


def rdict():
    f32 = '<PHYSICAL-TYPE BASE-DATA-TYPE="A_FLOAT32" DISPLAY-RADIX="DEC"><PRECISION>3</PRECISION></PHYSICAL-TYPE>'
    txt = '<PHYSICAL-TYPE BASE-DATA-TYPE="A_UNICODE2STRING"/>'
    dops = [
        dop("D.ident", attrs=' OID="oid.dident"', extra='<UNIT-REF ID-REF="U.kmh"/>' , phys='<PHYSICAL-TYPE BASE-DATA-TYPE="A_UINT32" DISPLAY-RADIX="HEX"/>'),
        dop("D.masked", dct='<DIAG-CODED-TYPE BASE-DATA-TYPE="A_UINT32" IS-HIGHLOW-BYTE-ORDER="false" xsi:type="STANDARD-LENGTH-TYPE">'
                            '<BIT-LENGTH>16</BIT-LENGTH><BIT-MASK>0FF0</BIT-MASK></DIAG-CODED-TYPE>'),
        dop("D.condensed", dct='<DIAG-CODED-TYPE BASE-DATA-TYPE="A_UINT32" IS-CONDENSED="true" xsi:type="STANDARD-LENGTH-TYPE">'
                               '<BIT-LENGTH>8</BIT-LENGTH><BIT-MASK>F0</BIT-MASK></DIAG-CODED-TYPE>'),
        dop("D.signed", dct='<DIAG-CODED-TYPE BASE-DATA-TYPE="A_INT32" BASE-TYPE-ENCODING="2C" IS-HIGHLOW-BYTE-ORDER="true" xsi:type="STANDARD-LENGTH-TYPE">'
                            '<BIT-LENGTH>12</BIT-LENGTH></DIAG-CODED-TYPE>', phys='<PHYSICAL-TYPE BASE-DATA-TYPE="A_INT32"/>'),
        dop("D.lin", phys=f32, attrs=' OID="oid.dlin"',
            cm='<COMPU-METHOD><CATEGORY>LINEAR</CATEGORY><COMPU-INTERNAL-TO-PHYS><COMPU-SCALES><COMPU-SCALE><SHORT-LABEL>lbl</SHORT-LABEL>'
               '<DESC><p>scale desc</p></DESC>' + limit("LOWER-LIMIT", 0, "CLOSED") + limit("UPPER-LIMIT", 200, "OPEN")
               + '<COMPU-RATIONAL-COEFFS><COMPU-NUMERATOR><V>1.5</V><V>0.25</V></COMPU-NUMERATOR><COMPU-DENOMINATOR><V>2</V></COMPU-DENOMINATOR>'
               '</COMPU-RATIONAL-COEFFS></COMPU-SCALE></COMPU-SCALES></COMPU-INTERNAL-TO-PHYS></COMPU-METHOD>',
            extra='<INTERNAL-CONSTR>' + limit("LOWER-LIMIT", 1) + limit("UPPER-LIMIT", 250, "CLOSED")
                  + '<SCALE-CONSTRS><SCALE-CONSTR VALIDITY="NOT-VALID"><SHORT-LABEL>bad</SHORT-LABEL><DESC><p>invalid range</p></DESC>'
                  + limit("LOWER-LIMIT", 100) + limit("UPPER-LIMIT", 110) + '</SCALE-CONSTR>'
                  '<SCALE-CONSTR VALIDITY="NOT-AVAILABLE">' + limit("LOWER-LIMIT", 120, "OPEN") + limit("UPPER-LIMIT", 121, "INFINITE") + '</SCALE-CONSTR></SCALE-CONSTRS></INTERNAL-CONSTR>'
                  '<PHYS-CONSTR>' + limit("LOWER-LIMIT", 2) + limit("UPPER-LIMIT", 99, "CLOSED") + '</PHYS-CONSTR>'),
        dop("D.scalelin", phys=f32,
            cm='<COMPU-METHOD><CATEGORY>SCALE-LINEAR</CATEGORY><COMPU-INTERNAL-TO-PHYS><COMPU-SCALES>'
               '<COMPU-SCALE>' + limit("LOWER-LIMIT", 0) + limit("UPPER-LIMIT", 99, "CLOSED")
               + '<COMPU-INVERSE-VALUE><V>3</V></COMPU-INVERSE-VALUE><COMPU-RATIONAL-COEFFS><COMPU-NUMERATOR><V>0</V><V>0</V></COMPU-NUMERATOR>'
               '<COMPU-DENOMINATOR><V>1</V></COMPU-DENOMINATOR></COMPU-RATIONAL-COEFFS></COMPU-SCALE>'
               '<COMPU-SCALE>' + limit("LOWER-LIMIT", 100) + limit("UPPER-LIMIT", 255)
               + '<COMPU-RATIONAL-COEFFS><COMPU-NUMERATOR><V>-100</V><V>1</V></COMPU-NUMERATOR></COMPU-RATIONAL-COEFFS></COMPU-SCALE>'
               '</COMPU-SCALES></COMPU-INTERNAL-TO-PHYS></COMPU-METHOD>'),
        dop("D.text", phys=txt,
            cm='<COMPU-METHOD><CATEGORY>TEXTTABLE</CATEGORY><COMPU-INTERNAL-TO-PHYS><COMPU-SCALES>'
               '<COMPU-SCALE><SHORT-LABEL>zero</SHORT-LABEL>' + limit("LOWER-LIMIT", 0) + limit("UPPER-LIMIT", 0) + '<COMPU-CONST><VT>off</VT></COMPU-CONST></COMPU-SCALE>'
               '<COMPU-SCALE>' + limit("LOWER-LIMIT", 1) + limit("UPPER-LIMIT", 9) + '<COMPU-INVERSE-VALUE><V>5</V></COMPU-INVERSE-VALUE>'
               '<COMPU-CONST><VT TI="vt.ti">on and on</VT></COMPU-CONST></COMPU-SCALE></COMPU-SCALES>'
               '<COMPU-DEFAULT-VALUE><VT>undefined</VT><COMPU-INVERSE-VALUE><V>255</V></COMPU-INVERSE-VALUE></COMPU-DEFAULT-VALUE>'
               '</COMPU-INTERNAL-TO-PHYS></COMPU-METHOD>'),
        dop("D.tabintp", phys=f32,
            cm='<COMPU-METHOD><CATEGORY>TAB-INTP</CATEGORY><COMPU-INTERNAL-TO-PHYS><COMPU-SCALES>'
               '<COMPU-SCALE>' + limit("LOWER-LIMIT", 0) + '<COMPU-CONST><V>-10</V></COMPU-CONST></COMPU-SCALE>'
               '<COMPU-SCALE>' + limit("LOWER-LIMIT", 100) + '<COMPU-CONST><V>10</V></COMPU-CONST></COMPU-SCALE>'
               '<COMPU-SCALE>' + limit("LOWER-LIMIT", 200) + '<COMPU-CONST><V>50.5</V></COMPU-CONST></COMPU-SCALE>'
               '</COMPU-SCALES></COMPU-INTERNAL-TO-PHYS></COMPU-METHOD>'),
        dop("D.ratfunc", phys=f32,
            cm='<COMPU-METHOD><CATEGORY>RAT-FUNC</CATEGORY><COMPU-INTERNAL-TO-PHYS><COMPU-SCALES><COMPU-SCALE>' + limit("LOWER-LIMIT", 0) + limit("UPPER-LIMIT", 255)
               + '<COMPU-RATIONAL-COEFFS><COMPU-NUMERATOR><V>1</V><V>2</V><V>0.5</V></COMPU-NUMERATOR><COMPU-DENOMINATOR><V>1</V><V>0.125</V></COMPU-DENOMINATOR>'
               '</COMPU-RATIONAL-COEFFS></COMPU-SCALE></COMPU-SCALES></COMPU-INTERNAL-TO-PHYS>'
               '<COMPU-PHYS-TO-INTERNAL><COMPU-SCALES><COMPU-SCALE>' + limit("LOWER-LIMIT", 0) + limit("UPPER-LIMIT", 1000)
               + '<COMPU-RATIONAL-COEFFS><COMPU-NUMERATOR><V>0</V><V>1</V></COMPU-NUMERATOR><COMPU-DENOMINATOR><V>2</V></COMPU-DENOMINATOR>'
               '</COMPU-RATIONAL-COEFFS></COMPU-SCALE></COMPU-SCALES></COMPU-PHYS-TO-INTERNAL></COMPU-METHOD>'),
        dop("D.scalerat", phys=f32,
            cm='<COMPU-METHOD><CATEGORY>SCALE-RAT-FUNC</CATEGORY><COMPU-INTERNAL-TO-PHYS><COMPU-SCALES>'
               '<COMPU-SCALE>' + limit("LOWER-LIMIT", 0) + limit("UPPER-LIMIT", 100)
               + '<COMPU-RATIONAL-COEFFS><COMPU-NUMERATOR><V>1</V><V>2</V></COMPU-NUMERATOR><COMPU-DENOMINATOR><V>4</V></COMPU-DENOMINATOR></COMPU-RATIONAL-COEFFS></COMPU-SCALE>'
               '<COMPU-SCALE>' + limit("LOWER-LIMIT", 101) + limit("UPPER-LIMIT", 255)
               + '<COMPU-RATIONAL-COEFFS><COMPU-NUMERATOR><V>0</V><V>1</V></COMPU-NUMERATOR><COMPU-DENOMINATOR><V>1</V></COMPU-DENOMINATOR></COMPU-RATIONAL-COEFFS></COMPU-SCALE>'
               '</COMPU-SCALES></COMPU-INTERNAL-TO-PHYS></COMPU-METHOD>'),
        dop("D.code", phys=f32,
            cm='<COMPU-METHOD><CATEGORY>COMPUCODE</CATEGORY><COMPU-INTERNAL-TO-PHYS><PROG-CODE><CODE-FILE>conv.java</CODE-FILE><ENCRYPTION>rot13</ENCRYPTION>'
               '<SYNTAX>JAVA</SYNTAX><REVISION>0.9</REVISION><ENTRYPOINT>Conv.toPhys</ENTRYPOINT><LIBRARY-REFS><LIBRARY-REF ID-REF="LIB.d"/></LIBRARY-REFS>'
               '</PROG-CODE></COMPU-INTERNAL-TO-PHYS></COMPU-METHOD>'),
        dop("D.lead", phys=txt, dct='<DIAG-CODED-TYPE BASE-DATA-TYPE="A_UTF8STRING" BASE-TYPE-ENCODING="UTF-8" xsi:type="LEADING-LENGTH-INFO-TYPE">'
                                    '<BIT-LENGTH>8</BIT-LENGTH></DIAG-CODED-TYPE>'),
        dop("D.minmax", phys='<PHYSICAL-TYPE BASE-DATA-TYPE="A_BYTEFIELD"/>',
            dct='<DIAG-CODED-TYPE BASE-DATA-TYPE="A_BYTEFIELD" TERMINATION="HEX-FF" xsi:type="MIN-MAX-LENGTH-TYPE"><MAX-LENGTH>8</MAX-LENGTH>'
                '<MIN-LENGTH>1</MIN-LENGTH></DIAG-CODED-TYPE>'),
        dop("D.minmaxz", phys='<PHYSICAL-TYPE BASE-DATA-TYPE="A_ASCIISTRING"/>',
            dct='<DIAG-CODED-TYPE BASE-DATA-TYPE="A_ASCIISTRING" BASE-TYPE-ENCODING="ISO-8859-1" TERMINATION="ZERO" xsi:type="MIN-MAX-LENGTH-TYPE">'
                '<MIN-LENGTH>0</MIN-LENGTH></DIAG-CODED-TYPE>'),
        dop("D.plen", phys='<PHYSICAL-TYPE BASE-DATA-TYPE="A_BYTEFIELD"/>',
            dct='<DIAG-CODED-TYPE BASE-DATA-TYPE="A_BYTEFIELD" xsi:type="PARAM-LENGTH-INFO-TYPE"><LENGTH-KEY-REF ID-REF="LK.len"/></DIAG-CODED-TYPE>'),
    ]
    dtcdops = ('<DTC-DOPS><DTC-DOP ID="DTC.dop" OID="oid.dtcdop" IS-VISIBLE="true">' + ident("dtc_dop") + admin() + sdgs("dtcdop")
               + '<DIAG-CODED-TYPE BASE-DATA-TYPE="A_UINT32" xsi:type="STANDARD-LENGTH-TYPE"><BIT-LENGTH>24</BIT-LENGTH></DIAG-CODED-TYPE>'
               '<PHYSICAL-TYPE BASE-DATA-TYPE="A_UINT32"/><COMPU-METHOD><CATEGORY>IDENTICAL</CATEGORY></COMPU-METHOD>'
               '<DTCS><DTC ID="DTC.1" OID="oid.dtc1" IS-TEMPORARY="true"><SHORT-NAME>P0001</SHORT-NAME><LONG-NAME>long P0001</LONG-NAME>'
               '<DESC><p>dtc desc</p></DESC><TROUBLE-CODE>1</TROUBLE-CODE><DISPLAY-TROUBLE-CODE>P0001</DISPLAY-TROUBLE-CODE><TEXT TI="dtc.ti">fuel volume</TEXT>'
               '<LEVEL>2</LEVEL>' + sdgs("dtc1") + '</DTC>'
               '<DTC ID="DTC.2"><SHORT-NAME>P0002</SHORT-NAME><TROUBLE-CODE>2</TROUBLE-CODE><TEXT>other</TEXT></DTC>'
               '<DTC-REF ID-REF="DTC.b1"/></DTCS>'
               '<LINKED-DTC-DOPS><LINKED-DTC-DOP><NOT-INHERITED-DTC-SNREFS><NOT-INHERITED-DTC-SNREF SHORT-NAME="P0B02"/></NOT-INHERITED-DTC-SNREFS>'
               '<DTC-DOP-REF ID-REF="DTC.base"/></LINKED-DTC-DOP></LINKED-DTC-DOPS></DTC-DOP>'
               '<DTC-DOP ID="DTC.base"><SHORT-NAME>dtc_base</SHORT-NAME>'
               '<DIAG-CODED-TYPE BASE-DATA-TYPE="A_UINT32" xsi:type="STANDARD-LENGTH-TYPE"><BIT-LENGTH>24</BIT-LENGTH></DIAG-CODED-TYPE>'
               '<PHYSICAL-TYPE BASE-DATA-TYPE="A_UINT32"/><COMPU-METHOD><CATEGORY>IDENTICAL</CATEGORY></COMPU-METHOD>'
               '<DTCS><DTC ID="DTC.b1"><SHORT-NAME>P0B01</SHORT-NAME><TROUBLE-CODE>177</TROUBLE-CODE><TEXT>b one</TEXT></DTC>'
               '<DTC ID="DTC.b2"><SHORT-NAME>P0B02</SHORT-NAME><TROUBLE-CODE>178</TROUBLE-CODE><TEXT>b two</TEXT></DTC></DTCS></DTC-DOP></DTC-DOPS>')
    envdescs = ('<ENV-DATA-DESCS><ENV-DATA-DESC ID="EDD.1" OID="oid.edd">' + ident("env_desc") + admin() + sdgs("edd")
                + '<PARAM-SNREF SHORT-NAME="dtc"/><ENV-DATA-REFS><ENV-DATA-REF ID-REF="ED.all"/><ENV-DATA-REF ID-REF="ED.some"/></ENV-DATA-REFS></ENV-DATA-DESC>'
                '<ENV-DATA-DESC ID="EDD.2"><SHORT-NAME>env_desc2</SHORT-NAME><PARAM-SNPATHREF SHORT-NAME-PATH="a.dtc"/>'
                '<ENV-DATA-REFS><ENV-DATA-REF ID-REF="ED.all"/></ENV-DATA-REFS></ENV-DATA-DESC></ENV-DATA-DESCS>')
    structs = ('<STRUCTURES><STRUCTURE ID="ST.a" OID="oid.sta" IS-VISIBLE="false">' + ident("st_a") + admin() + sdgs("sta") + '<BYTE-SIZE>4</BYTE-SIZE><PARAMS>'
               + value_param("a1", "D.ident", 0) + value_param("a2", "D.signed", 1, extra="<BIT-POSITION>2</BIT-POSITION>") + '</PARAMS></STRUCTURE>'
               '<STRUCTURE ID="ST.b"><SHORT-NAME>st_b</SHORT-NAME><PARAMS>' + value_param("b1", "D.lin", 0) + '</PARAMS></STRUCTURE>'
               '<STRUCTURE ID="ST.len"><SHORT-NAME>st_len</SHORT-NAME><PARAMS>'
               '<PARAM ID="LK.len" OID="oid.lk" SEMANTIC="DATA" xsi:type="LENGTH-KEY"><SHORT-NAME>len</SHORT-NAME><BYTE-POSITION>0</BYTE-POSITION><DOP-REF ID-REF="D.ident"/></PARAM>'
               + value_param("payload", "D.plen", 1) + '</PARAMS></STRUCTURE></STRUCTURES>')
    fields = ('<STATIC-FIELDS><STATIC-FIELD ID="SF.1" OID="oid.sf" IS-VISIBLE="true">' + ident("static_f") + admin() + sdgs("sf")
              + '<BASIC-STRUCTURE-REF ID-REF="ST.a"/><FIXED-NUMBER-OF-ITEMS>3</FIXED-NUMBER-OF-ITEMS><ITEM-BYTE-SIZE>4</ITEM-BYTE-SIZE></STATIC-FIELD>'
              '<STATIC-FIELD ID="SF.2"><SHORT-NAME>static_f2</SHORT-NAME><BASIC-STRUCTURE-SNREF SHORT-NAME="st_b"/>'
              '<FIXED-NUMBER-OF-ITEMS>2</FIXED-NUMBER-OF-ITEMS><ITEM-BYTE-SIZE>1</ITEM-BYTE-SIZE></STATIC-FIELD></STATIC-FIELDS>'
              '<DYNAMIC-LENGTH-FIELDS><DYNAMIC-LENGTH-FIELD ID="DLF.1" OID="oid.dlf" IS-VISIBLE="false">' + ident("dyn_len") + '<BASIC-STRUCTURE-REF ID-REF="ST.b"/>'
              '<OFFSET>1</OFFSET><DETERMINE-NUMBER-OF-ITEMS><BYTE-POSITION>0</BYTE-POSITION><BIT-POSITION>0</BIT-POSITION>'
              '<DATA-OBJECT-PROP-REF ID-REF="D.ident"/></DETERMINE-NUMBER-OF-ITEMS></DYNAMIC-LENGTH-FIELD>'
              '<DYNAMIC-LENGTH-FIELD ID="DLF.2"><SHORT-NAME>dyn_len_env</SHORT-NAME><ENV-DATA-DESC-REF ID-REF="EDD.1"/>'
              '<OFFSET>2</OFFSET><DETERMINE-NUMBER-OF-ITEMS><BYTE-POSITION>1</BYTE-POSITION>'
              '<DATA-OBJECT-PROP-REF ID-REF="D.ident"/></DETERMINE-NUMBER-OF-ITEMS></DYNAMIC-LENGTH-FIELD></DYNAMIC-LENGTH-FIELDS>'
              '<END-OF-PDU-FIELDS><END-OF-PDU-FIELD ID="EOP.1" OID="oid.eop" IS-VISIBLE="true">' + ident("eop_f") + '<BASIC-STRUCTURE-REF ID-REF="ST.b"/>'
              '<MAX-NUMBER-OF-ITEMS>5</MAX-NUMBER-OF-ITEMS><MIN-NUMBER-OF-ITEMS>1</MIN-NUMBER-OF-ITEMS></END-OF-PDU-FIELD>'
              '<END-OF-PDU-FIELD ID="EOP.2"><SHORT-NAME>eop_f2</SHORT-NAME><ENV-DATA-DESC-SNREF SHORT-NAME="env_desc"/></END-OF-PDU-FIELD></END-OF-PDU-FIELDS>')
    muxs = ('<MUXS><MUX ID="MUX.1" OID="oid.mux" IS-VISIBLE="true">' + ident("mux_one") + admin() + sdgs("mux") + '<BYTE-POSITION>1</BYTE-POSITION>'
            '<SWITCH-KEY><BYTE-POSITION>0</BYTE-POSITION><BIT-POSITION>1</BIT-POSITION><DATA-OBJECT-PROP-REF ID-REF="D.ident"/></SWITCH-KEY>'
            '<DEFAULT-CASE>' + ident("dflt") + '<STRUCTURE-REF ID-REF="ST.b"/></DEFAULT-CASE>'
            '<CASES><CASE>' + ident("case_a") + '<STRUCTURE-REF ID-REF="ST.a"/>' + limit("LOWER-LIMIT", 1, "CLOSED") + limit("UPPER-LIMIT", 3, "OPEN") + '</CASE>'
            '<CASE><SHORT-NAME>case_b</SHORT-NAME><STRUCTURE-SNREF SHORT-NAME="st_b"/>' + limit("LOWER-LIMIT", 4) + limit("UPPER-LIMIT", 9) + '</CASE>'
            '<CASE><SHORT-NAME>case_none</SHORT-NAME>' + limit("LOWER-LIMIT", 10) + limit("UPPER-LIMIT", 10) + '</CASE></CASES></MUX>'
            '<MUX ID="MUX.2"><SHORT-NAME>mux_two</SHORT-NAME><SWITCH-KEY><BYTE-POSITION>0</BYTE-POSITION><DATA-OBJECT-PROP-REF ID-REF="D.ident"/></SWITCH-KEY>'
            '<DEFAULT-CASE><SHORT-NAME>dflt2</SHORT-NAME><STRUCTURE-SNREF SHORT-NAME="st_b"/></DEFAULT-CASE></MUX></MUXS>')
    envdatas = ('<ENV-DATAS><ENV-DATA ID="ED.all" OID="oid.edall">' + ident("ed_all") + '<PARAMS>' + value_param("e1", "D.ident", 0) + '</PARAMS><ALL-VALUE/></ENV-DATA>'
                '<ENV-DATA ID="ED.some"><SHORT-NAME>ed_some</SHORT-NAME><PARAMS>' + value_param("e2", "D.ident", 0) + '</PARAMS>'
                '<DTC-VALUES><DTC-VALUE>1</DTC-VALUE><DTC-VALUE>178</DTC-VALUE></DTC-VALUES></ENV-DATA></ENV-DATAS>')
    units = ('<UNIT-SPEC>' + admin() + '<UNIT-GROUPS><UNIT-GROUP OID="oid.ug">' + ident("metric") + '<CATEGORY>COUNTRY</CATEGORY>'
             '<UNIT-REFS><UNIT-REF ID-REF="U.kmh"/><UNIT-REF ID-REF="U.ms"/></UNIT-REFS></UNIT-GROUP>'
             '<UNIT-GROUP><SHORT-NAME>equiv</SHORT-NAME><CATEGORY>EQUIV-UNITS</CATEGORY></UNIT-GROUP></UNIT-GROUPS>'
             '<UNITS><UNIT ID="U.kmh" OID="oid.kmh">' + ident("kmh") + '<DISPLAY-NAME>km/h</DISPLAY-NAME><FACTOR-SI-TO-UNIT>3.6</FACTOR-SI-TO-UNIT>'
             '<OFFSET-SI-TO-UNIT>0.5</OFFSET-SI-TO-UNIT><PHYSICAL-DIMENSION-REF ID-REF="PD.v"/></UNIT>'
             '<UNIT ID="U.ms"><SHORT-NAME>ms</SHORT-NAME><DISPLAY-NAME>m/s</DISPLAY-NAME></UNIT></UNITS>'
             '<PHYSICAL-DIMENSIONS><PHYSICAL-DIMENSION ID="PD.v" OID="oid.pdv">' + ident("velocity") + '<LENGTH-EXP>1</LENGTH-EXP><MASS-EXP>2</MASS-EXP>'
             '<TIME-EXP>-1</TIME-EXP><CURRENT-EXP>3</CURRENT-EXP><TEMPERATURE-EXP>4</TEMPERATURE-EXP><MOLAR-AMOUNT-EXP>5</MOLAR-AMOUNT-EXP>'
             '<LUMINOUS-INTENSITY-EXP>6</LUMINOUS-INTENSITY-EXP></PHYSICAL-DIMENSION></PHYSICAL-DIMENSIONS>' + sdgs("unitspec") + '</UNIT-SPEC>')
    tables = ('<TABLES><TABLE ID="T.1" OID="oid.t1" SEMANTIC="DATA-ID">' + ident("table_one") + '<KEY-LABEL>the key</KEY-LABEL><STRUCT-LABEL>the struct</STRUCT-LABEL>'
              + admin() + '<KEY-DOP-REF ID-REF="D.ident"/>'
              '<TABLE-ROW ID="TR.1" OID="oid.tr1" SEMANTIC="ROW" IS-EXECUTABLE="true" IS-MANDATORY="false" IS-FINAL="true">' + ident("row_one") + '<KEY>1</KEY>'
              '<STRUCTURE-REF ID-REF="ST.a"/>' + sdgs("tr1")
              + '<AUDIENCE IS-SUPPLIER="true"/><FUNCT-CLASS-REFS><FUNCT-CLASS-REF ID-REF="FC.d"/></FUNCT-CLASS-REFS>'
              '<STATE-TRANSITION-REFS><STATE-TRANSITION-REF ID-REF="STT.d"/></STATE-TRANSITION-REFS>'
              '<PRE-CONDITION-STATE-REFS><PRE-CONDITION-STATE-REF ID-REF="ST.d0"/></PRE-CONDITION-STATE-REFS>' + admin() + '</TABLE-ROW>'
              '<TABLE-ROW ID="TR.2"><SHORT-NAME>row_two</SHORT-NAME><KEY>2</KEY><STRUCTURE-SNREF SHORT-NAME="st_b"/></TABLE-ROW>'
              '<TABLE-ROW ID="TR.3"><SHORT-NAME>row_three</SHORT-NAME><KEY>3</KEY><DATA-OBJECT-PROP-REF ID-REF="D.lin"/></TABLE-ROW>'
              '<TABLE-ROW ID="TR.4"><SHORT-NAME>row_four</SHORT-NAME><KEY>4</KEY><DATA-OBJECT-PROP-SNREF SHORT-NAME="D.text"/></TABLE-ROW>'
              '<TABLE-DIAG-COMM-CONNECTORS><TABLE-DIAG-COMM-CONNECTOR><SEMANTIC>READ</SEMANTIC><DIAG-COMM-REF ID-REF="S.d"/></TABLE-DIAG-COMM-CONNECTOR>'
              '<TABLE-DIAG-COMM-CONNECTOR><SEMANTIC>WRITE</SEMANTIC><DIAG-COMM-SNREF SHORT-NAME="S.d"/></TABLE-DIAG-COMM-CONNECTOR></TABLE-DIAG-COMM-CONNECTORS>'
              + sdgs("t1") + '</TABLE>'
              '<TABLE ID="T.2"><SHORT-NAME>table_two</SHORT-NAME><KEY-DOP-REF ID-REF="D.ident"/><TABLE-ROW-REF ID-REF="TR.1"/>'
              '<TABLE-ROW ID="TR.5"><SHORT-NAME>row_five</SHORT-NAME><KEY>5</KEY><STRUCTURE-REF ID-REF="ST.b"/></TABLE-ROW></TABLE></TABLES>')
    ddds = ('<DIAG-DATA-DICTIONARY-SPEC>' + admin() + dtcdops + envdescs + '<DATA-OBJECT-PROPS>' + "".join(dops) + '</DATA-OBJECT-PROPS>'
            + structs + fields + muxs + envdatas + units + tables + sdgs("ddds") + '</DIAG-DATA-DICTIONARY-SPEC>')
    layer = ('<BASE-VARIANT ID="dbv">' + ident("dbv")
             + '<FUNCT-CLASSS><FUNCT-CLASS ID="FC.d"><SHORT-NAME>fc_d</SHORT-NAME></FUNCT-CLASS></FUNCT-CLASSS>' + ddds
             + '<DIAG-COMMS>' + service("S.d", "RQ.d", pos=["PR.d"]) + '</DIAG-COMMS>'
             '<REQUESTS>' + request("RQ.d", sid_param(34) + value_param("what", "D.ident", 1)) + '</REQUESTS>'
             '<POS-RESPONSES>' + response("POS-RESPONSE", "PR.d", sid_param(98) + value_param("lin", "D.lin", 1) + value_param("txt", "D.text", 2)
                                          + value_param("sl", "D.scalelin", 3) + value_param("m", "D.masked", 4)) + '</POS-RESPONSES>'
             '<STATE-CHARTS><STATE-CHART ID="SC.d"><SHORT-NAME>chart_d</SHORT-NAME><SEMANTIC>X</SEMANTIC><STATE-TRANSITIONS>'
             '<STATE-TRANSITION ID="STT.d"><SHORT-NAME>go</SHORT-NAME><SOURCE-SNREF SHORT-NAME="d0"/><TARGET-SNREF SHORT-NAME="d1"/></STATE-TRANSITION>'
             '</STATE-TRANSITIONS><START-STATE-SNREF SHORT-NAME="d0"/><STATES><STATE ID="ST.d0"><SHORT-NAME>d0</SHORT-NAME></STATE>'
             '<STATE ID="ST.d1"><SHORT-NAME>d1</SHORT-NAME></STATE></STATES></STATE-CHART></STATE-CHARTS>'
             '<LIBRARYS><LIBRARY ID="LIB.d"><SHORT-NAME>lib_d</SHORT-NAME><CODE-FILE>d.jar</CODE-FILE><SYNTAX>JAR</SYNTAX><REVISION>2</REVISION></LIBRARY></LIBRARYS>'
             '</BASE-VARIANT>')
    return doc("rdict", f'<BASE-VARIANTS>{layer}</BASE-VARIANTS>', company("dictco"))


# -------------------------------------------------------------------------------------------------
def rcomm():
    u16 = '<DIAG-CODED-TYPE BASE-DATA-TYPE="A_UINT32" xsi:type="STANDARD-LENGTH-TYPE"><BIT-LENGTH>16</BIT-LENGTH></DIAG-CODED-TYPE>'
    params_rq = (
        sid_param(49)
        + '<PARAM OID="oid.cc" SEMANTIC="ID" xsi:type="CODED-CONST">' + ident("sub") + sdgs("par") + '<BYTE-POSITION>1</BYTE-POSITION><BIT-POSITION>0</BIT-POSITION>'
          '<CODED-VALUE>513</CODED-VALUE>' + u16 + '</PARAM>'
        + '<PARAM OID="oid.v" SEMANTIC="DATA" xsi:type="VALUE">' + ident("val") + '<BYTE-POSITION>3</BYTE-POSITION><BIT-POSITION>1</BIT-POSITION>'
          '<PHYSICAL-DEFAULT-VALUE>5</PHYSICAL-DEFAULT-VALUE><DOP-REF ID-REF="C.u7"/></PARAM>'
        + '<PARAM SEMANTIC="DATA" xsi:type="VALUE"><SHORT-NAME>val_sn</SHORT-NAME><BYTE-POSITION>4</BYTE-POSITION><DOP-SNREF SHORT-NAME="C.u8"/></PARAM>'
        + '<PARAM OID="oid.pc" xsi:type="PHYS-CONST"><SHORT-NAME>pconst</SHORT-NAME><BYTE-POSITION>5</BYTE-POSITION><PHYS-CONSTANT-VALUE>17</PHYS-CONSTANT-VALUE>'
          '<DOP-REF ID-REF="C.u8"/></PARAM>'
        + '<PARAM OID="oid.res" xsi:type="RESERVED"><SHORT-NAME>res</SHORT-NAME><BYTE-POSITION>6</BYTE-POSITION><BIT-POSITION>4</BIT-POSITION><BIT-LENGTH>4</BIT-LENGTH></PARAM>'
        + '<PARAM OID="oid.sys" SYSPARAM="TIMESTAMP" xsi:type="SYSTEM"><SHORT-NAME>stamp</SHORT-NAME><BYTE-POSITION>7</BYTE-POSITION><DOP-REF ID-REF="C.u8"/></PARAM>'
        + '<PARAM ID="TK.1" OID="oid.tk" SEMANTIC="KEY" xsi:type="TABLE-KEY"><SHORT-NAME>tkey</SHORT-NAME><BYTE-POSITION>8</BYTE-POSITION><TABLE-REF ID-REF="CT.1"/></PARAM>'
        + '<PARAM OID="oid.ts" xsi:type="TABLE-STRUCT"><SHORT-NAME>tstruct</SHORT-NAME><BYTE-POSITION>9</BYTE-POSITION><TABLE-KEY-REF ID-REF="TK.1"/></PARAM>')
    params_rq2 = (
        sid_param(50)
        + '<PARAM ID="TK.2" xsi:type="TABLE-KEY"><SHORT-NAME>tkey2</SHORT-NAME><BYTE-POSITION>1</BYTE-POSITION><TABLE-SNREF SHORT-NAME="ctable"/></PARAM>'
        + '<PARAM xsi:type="TABLE-STRUCT"><SHORT-NAME>tstruct2</SHORT-NAME><BYTE-POSITION>2</BYTE-POSITION><TABLE-KEY-SNREF SHORT-NAME="tkey2"/></PARAM>'
        + '<PARAM ID="TK.3" xsi:type="TABLE-KEY"><SHORT-NAME>tkey3</SHORT-NAME><TABLE-ROW-REF ID-REF="CTR.1"/></PARAM>'
        + '<PARAM ID="LK.c" xsi:type="LENGTH-KEY"><SHORT-NAME>lkey</SHORT-NAME><BYTE-POSITION>4</BYTE-POSITION><DOP-REF ID-REF="C.u8"/></PARAM>'
        + '<PARAM xsi:type="VALUE"><SHORT-NAME>blob</SHORT-NAME><BYTE-POSITION>5</BYTE-POSITION><DOP-REF ID-REF="C.plen"/></PARAM>')
    params_pr = (
        sid_param(113)
        + '<PARAM OID="oid.mrp" SEMANTIC="ECHO" xsi:type="MATCHING-REQUEST-PARAM"><SHORT-NAME>echo</SHORT-NAME><BYTE-POSITION>1</BYTE-POSITION><BIT-POSITION>0</BIT-POSITION>'
          '<REQUEST-BYTE-POS>1</REQUEST-BYTE-POS><BYTE-LENGTH>2</BYTE-LENGTH></PARAM>'
        + value_param("out", "C.u8", 3))
    params_nr = (
        sid_param(127) + sid_param(49, name="rqsid", sem="SERVICEIDRQ").replace("<BYTE-POSITION>0", "<BYTE-POSITION>1")
        + '<PARAM OID="oid.nrc" SEMANTIC="NRC" xsi:type="NRC-CONST"><SHORT-NAME>nrc</SHORT-NAME><BYTE-POSITION>2</BYTE-POSITION><CODED-VALUES>'
          '<CODED-VALUE>18</CODED-VALUE><CODED-VALUE>19</CODED-VALUE><CODED-VALUE>34</CODED-VALUE></CODED-VALUES>' + UINT8 + '</PARAM>')
    ddds = ('<DIAG-DATA-DICTIONARY-SPEC><DATA-OBJECT-PROPS>' + dop("C.u8")
            + dop("C.u7", dct='<DIAG-CODED-TYPE BASE-DATA-TYPE="A_UINT32" xsi:type="STANDARD-LENGTH-TYPE"><BIT-LENGTH>7</BIT-LENGTH></DIAG-CODED-TYPE>')
            + dop("C.plen", phys='<PHYSICAL-TYPE BASE-DATA-TYPE="A_BYTEFIELD"/>',
                  dct='<DIAG-CODED-TYPE BASE-DATA-TYPE="A_BYTEFIELD" xsi:type="PARAM-LENGTH-INFO-TYPE"><LENGTH-KEY-REF ID-REF="LK.c"/></DIAG-CODED-TYPE>')
            + '</DATA-OBJECT-PROPS><STRUCTURES><STRUCTURE ID="CS.1"><SHORT-NAME>cstruct</SHORT-NAME><PARAMS>' + value_param("f", "C.u8", 0) + '</PARAMS></STRUCTURE></STRUCTURES>'
            '<TABLES><TABLE ID="CT.1"><SHORT-NAME>ctable</SHORT-NAME><KEY-DOP-REF ID-REF="C.u8"/>'
            '<TABLE-ROW ID="CTR.1"><SHORT-NAME>r1</SHORT-NAME><KEY>1</KEY><STRUCTURE-REF ID-REF="CS.1"/></TABLE-ROW>'
            '<TABLE-ROW ID="CTR.2"><SHORT-NAME>r2</SHORT-NAME><KEY>2</KEY><DATA-OBJECT-PROP-REF ID-REF="C.u8"/></TABLE-ROW></TABLE></TABLES>'
            '</DIAG-DATA-DICTIONARY-SPEC>')
    prs = ('<POS-RESPONSE-SUPPRESSABLE><BITMASK>128</BITMASK><CODED-CONST-SNREF SHORT-NAME="sub"/></POS-RESPONSE-SUPPRESSABLE>')
    job = ('<SINGLE-ECU-JOB ID="J.1" OID="oid.j1" SEMANTIC="JOB" DIAGNOSTIC-CLASS="VARIANTIDENTIFICATION" IS-MANDATORY="false" IS-EXECUTABLE="true" IS-FINAL="false">'
           + ident("job_one") + admin() + sdgs("job") + '<FUNCT-CLASS-REFS><FUNCT-CLASS-REF ID-REF="FC.c"/></FUNCT-CLASS-REFS>'
           '<AUDIENCE IS-MANUFACTURING="true"/>'
           '<PROG-CODES><PROG-CODE><CODE-FILE>job.jar</CODE-FILE><ENCRYPTION>aes</ENCRYPTION><SYNTAX>JAR</SYNTAX><REVISION>3.1</REVISION>'
           '<ENTRYPOINT>Job.main</ENTRYPOINT><LIBRARY-REFS><LIBRARY-REF ID-REF="LIB.c"/></LIBRARY-REFS></PROG-CODE>'
           '<PROG-CODE><CODE-FILE>job2.class</CODE-FILE><SYNTAX>CLASS</SYNTAX><REVISION>1</REVISION></PROG-CODE></PROG-CODES>'
           '<INPUT-PARAMS><INPUT-PARAM OID="oid.ip" SEMANTIC="IN">' + ident("in_one") + '<PHYSICAL-DEFAULT-VALUE>3</PHYSICAL-DEFAULT-VALUE>'
           '<DOP-BASE-REF ID-REF="C.u8"/></INPUT-PARAM><INPUT-PARAM><SHORT-NAME>in_two</SHORT-NAME><DOP-BASE-REF ID-REF="C.u7"/></INPUT-PARAM></INPUT-PARAMS>'
           '<OUTPUT-PARAMS><OUTPUT-PARAM ID="OP.1" OID="oid.op" SEMANTIC="OUT">' + ident("out_one") + '<DOP-BASE-REF ID-REF="C.u8"/></OUTPUT-PARAM></OUTPUT-PARAMS>'
           '<NEG-OUTPUT-PARAMS><NEG-OUTPUT-PARAM>' + ident("neg_one") + '<DOP-BASE-REF ID-REF="C.u8"/></NEG-OUTPUT-PARAM></NEG-OUTPUT-PARAMS></SINGLE-ECU-JOB>')
    subcomp = ('<SUB-COMPONENTS><SUB-COMPONENT ID="SUB.1" OID="oid.sub" SEMANTIC="FUNCTION">' + ident("sub_one")
               + '<SUB-COMPONENT-PATTERNS><SUB-COMPONENT-PATTERN><MATCHING-PARAMETERS><MATCHING-PARAMETER><EXPECTED-VALUE>1</EXPECTED-VALUE>'
               '<DIAG-COMM-SNREF SHORT-NAME="S.c"/><OUT-PARAM-IF-SNREF SHORT-NAME="out"/></MATCHING-PARAMETER></MATCHING-PARAMETERS></SUB-COMPONENT-PATTERN>'
               '</SUB-COMPONENT-PATTERNS>'
               '<SUB-COMPONENT-PARAM-CONNECTORS><SUB-COMPONENT-PARAM-CONNECTOR ID="SCPC.1" OID="oid.scpc">' + ident("scpc") + '<DIAG-COMM-SNREF SHORT-NAME="S.c"/>'
               '<OUT-PARAM-IF-REFS><OUT-PARAM-IF-SNREF SHORT-NAME="out"/></OUT-PARAM-IF-REFS>'
               '<IN-PARAM-IF-REFS><IN-PARAM-IF-SNREF SHORT-NAME="val"/><IN-PARAM-IF-SNREF SHORT-NAME="val_sn"/></IN-PARAM-IF-REFS></SUB-COMPONENT-PARAM-CONNECTOR>'
               '</SUB-COMPONENT-PARAM-CONNECTORS>'
               '<TABLE-ROW-CONNECTORS><TABLE-ROW-CONNECTOR>' + ident("trc") + '<TABLE-REF ID-REF="CT.1"/><TABLE-ROW-SNREF SHORT-NAME="r1"/></TABLE-ROW-CONNECTOR></TABLE-ROW-CONNECTORS>'
               '</SUB-COMPONENT></SUB-COMPONENTS>')
    layer = ('<BASE-VARIANT ID="cbv">' + ident("cbv")
             + '<FUNCT-CLASSS><FUNCT-CLASS ID="FC.c"><SHORT-NAME>fc_c</SHORT-NAME></FUNCT-CLASS></FUNCT-CLASSS>' + ddds
             + '<DIAG-COMMS>' + service("S.c", "RQ.c", pos=["PR.c"], neg=["NR.c"], attrs=' SEMANTIC="ROUTINE"', extra_post=prs)
             + service("S.c2", "RQ.c2") + job + '</DIAG-COMMS>'
             '<REQUESTS>' + request("RQ.c", params_rq) + request("RQ.c2", params_rq2) + '</REQUESTS>'
             '<POS-RESPONSES>' + response("POS-RESPONSE", "PR.c", params_pr) + '</POS-RESPONSES>'
             '<NEG-RESPONSES>' + response("NEG-RESPONSE", "NR.c", params_nr) + '</NEG-RESPONSES>'
             '<LIBRARYS><LIBRARY ID="LIB.c"><SHORT-NAME>lib_c</SHORT-NAME><CODE-FILE>c.jar</CODE-FILE><SYNTAX>JAR</SYNTAX><REVISION>2</REVISION></LIBRARY></LIBRARYS>'
             + subcomp + '</BASE-VARIANT>')
    return doc("rcomm", f'<BASE-VARIANTS>{layer}</BASE-VARIANTS>', company("commco"))


# -------------------------------------------------------------------------------------------------
def rhard(with_vars=False, name="rhard"):
    ddds = ('<DIAG-DATA-DICTIONARY-SPEC><DATA-OBJECT-PROPS>' + dop("H.u8") + '</DATA-OBJECT-PROPS>'
            '<STRUCTURES><STRUCTURE ID="HS.1"><SHORT-NAME>hstruct</SHORT-NAME><PARAMS>' + value_param("f", "H.u8", 0) + '</PARAMS></STRUCTURE></STRUCTURES>'
            '<DYNAMIC-ENDMARKER-FIELDS><DYNAMIC-ENDMARKER-FIELD ID="DEF.1" OID="oid.def" IS-VISIBLE="true">' + ident("endmarker_f")
            + '<BASIC-STRUCTURE-REF ID-REF="HS.1"/><DYN-END-DOP-REF ID-REF="H.u8"><TERMINATION-VALUE>255</TERMINATION-VALUE></DYN-END-DOP-REF>'
            '</DYNAMIC-ENDMARKER-FIELD></DYNAMIC-ENDMARKER-FIELDS>'
            '<TABLES><TABLE ID="HT.1"><SHORT-NAME>htable</SHORT-NAME><KEY-DOP-REF ID-REF="H.u8"/>'
            '<TABLE-ROW ID="HTR.1"><SHORT-NAME>hr1</SHORT-NAME><KEY>1</KEY><STRUCTURE-REF ID-REF="HS.1"/></TABLE-ROW></TABLE></TABLES>'
            '</DIAG-DATA-DICTIONARY-SPEC>')
    comms = ('<DIAG-COMMS>' + service("S.h", "RQ.h", pos=["PR.h"])
             + service("S.clr", "RQ.h", attrs=' DIAGNOSTIC-CLASS="CLEAR-DYN-DEF-MESSAGE"') + service("S.rd", "RQ.h", attrs=' DIAGNOSTIC-CLASS="READ-DYN-DEFINED-MESSAGE"')
             + service("S.dyn", "RQ.h", attrs=' DIAGNOSTIC-CLASS="DYN-DEF-MESSAGE"') + '</DIAG-COMMS>'
             '<REQUESTS>' + request("RQ.h", sid_param(44)) + '</REQUESTS>'
             '<POS-RESPONSES>' + response("POS-RESPONSE", "PR.h", sid_param(108) + value_param("items", "DEF.1", 1)) + '</POS-RESPONSES>')
    dynspec = ('<DYN-DEFINED-SPEC><DYN-ID-DEF-MODE-INFOS><DYN-ID-DEF-MODE-INFO><DEF-MODE>dynamic</DEF-MODE>'
               '<CLEAR-DYN-DEF-MESSAGE-REF ID-REF="S.clr"/><CLEAR-DYN-DEF-MESSAGE-SNREF SHORT-NAME="S.clr"/>'
               '<READ-DYN-DEF-MESSAGE-REF ID-REF="S.rd"/><READ-DYN-DEF-MESSAGE-SNREF SHORT-NAME="S.rd"/>'
               '<DYN-DEF-MESSAGE-REF ID-REF="S.dyn"/><DYN-DEF-MESSAGE-SNREF SHORT-NAME="S.dyn"/>'
               '<SUPPORTED-DYN-IDS><SUPPORTED-DYN-ID>f2</SUPPORTED-DYN-ID><SUPPORTED-DYN-ID>f3a0</SUPPORTED-DYN-ID></SUPPORTED-DYN-IDS>'
               '<SELECTION-TABLE-REFS><SELECTION-TABLE-REF ID-REF="HT.1"/><SELECTION-TABLE-SNREF SHORT-NAME="htable"/></SELECTION-TABLE-REFS>'
               '</DYN-ID-DEF-MODE-INFO></DYN-ID-DEF-MODE-INFOS></DYN-DEFINED-SPEC>')
    diagvars = ('<DIAG-VARIABLES><DIAG-VARIABLE ID="DV.1" OID="oid.dv" IS-READ-BEFORE-WRITE="true">' + ident("dvar") + admin()
                + '<SW-VARIABLES><SW-VARIABLE OID="oid.swv">' + ident("swv") + '<ORIGIN>ecu</ORIGIN></SW-VARIABLE></SW-VARIABLES>'
                '<COMM-RELATIONS><COMM-RELATION VALUE-TYPE="CURRENT"><DESC><p>relation</p></DESC><RELATION-TYPE>READ</RELATION-TYPE>'
                '<DIAG-COMM-REF ID-REF="S.h"/><OUT-PARAM-IF-SNREF SHORT-NAME="items"/></COMM-RELATION></COMM-RELATIONS>'
                '<SNREF-TO-TABLEROW><TABLE-SNREF SHORT-NAME="htable"/><TABLE-ROW-SNREF SHORT-NAME="hr1"/></SNREF-TO-TABLEROW>' + sdgs("dv") + '</DIAG-VARIABLE></DIAG-VARIABLES>')
    # (VARIABLE-GROUP cannot be parsed at all on the pinned commit: VariableGroup.from_et raises TypeError)
    bv = ('<BASE-VARIANT ID="hbv">' + ident("hbv") + company("hbvco") + ddds + comms + (diagvars if with_vars else "") + dynspec + '</BASE-VARIANT>')
    sd = ('<ECU-SHARED-DATA ID="hsd"><SHORT-NAME>hsd</SHORT-NAME><DIAG-DATA-DICTIONARY-SPEC><DATA-OBJECT-PROPS>' + dop("HSD.u8")
          + '</DATA-OBJECT-PROPS></DIAG-DATA-DICTIONARY-SPEC></ECU-SHARED-DATA>')
    ev = ('<ECU-VARIANT ID="hev"><SHORT-NAME>hev</SHORT-NAME><IMPORT-REFS><IMPORT-REF ID-REF="hsd"/></IMPORT-REFS>'
          '<PARENT-REFS><PARENT-REF ID-REF="hbv" xsi:type="BASE-VARIANT-REF"><NOT-INHERITED-VARIABLES><NOT-INHERITED-VARIABLE>'
          '<DIAG-VARIABLE-SNREF SHORT-NAME="nonexistent"/></NOT-INHERITED-VARIABLE></NOT-INHERITED-VARIABLES></PARENT-REF></PARENT-REFS></ECU-VARIANT>')
    return doc(name, f'<ECU-SHARED-DATAS>{sd}</ECU-SHARED-DATAS><BASE-VARIANTS>{bv}</BASE-VARIANTS><ECU-VARIANTS>{ev}</ECU-VARIANTS>')


def rvars():
    return rhard(True, "rvars")


# -------------------------------------------------------------------------------------------------
def rwide():
    """numbers as documents spell them and as wide as the types allow: hexadecimal / exponent spellings of integers (the writer
    spells every integer in decimal and every float with repr), 64 bit constants and coefficients (not doubles), floats that
    need all 17 significant digits or an extreme exponent.  A value that detours through another number representation on the
    way document -> database -> document -> database comes back altered only out here."""
    def u(bits, base="A_UINT32", extra=""):
        return (f'<DIAG-CODED-TYPE BASE-DATA-TYPE="{base}"{extra} xsi:type="STANDARD-LENGTH-TYPE"><BIT-LENGTH>{bits}</BIT-LENGTH></DIAG-CODED-TYPE>')

    def cconst(name, pos, value, bits, base="A_UINT32"):
        return (f'<PARAM xsi:type="CODED-CONST"><SHORT-NAME>{name}</SHORT-NAME><BYTE-POSITION>{pos}</BYTE-POSITION>'
                f'<CODED-VALUE>{value}</CODED-VALUE>{u(bits, base)}</PARAM>')

    f64 = '<PHYSICAL-TYPE BASE-DATA-TYPE="A_FLOAT64"/>'
    i64 = '<PHYSICAL-TYPE BASE-DATA-TYPE="A_INT32"/>'
    dops = [
        dop("W.u64", dct=u(64)),
        dop("W.s64", dct=u(64, "A_INT32"), phys=i64),
        dop("W.lin64", dct=u(64),
            cm='<COMPU-METHOD><CATEGORY>LINEAR</CATEGORY><COMPU-INTERNAL-TO-PHYS><COMPU-SCALES><COMPU-SCALE>'
               + limit("LOWER-LIMIT", "0x20000000000001", "CLOSED") + limit("UPPER-LIMIT", "0xFFFFFFFFFFFFFFF0", "CLOSED")
               + '<COMPU-RATIONAL-COEFFS><COMPU-NUMERATOR><V>-0x20000000000001</V><V>1</V></COMPU-NUMERATOR>'
               '<COMPU-DENOMINATOR><V>1e0</V></COMPU-DENOMINATOR></COMPU-RATIONAL-COEFFS></COMPU-SCALE></COMPU-SCALES></COMPU-INTERNAL-TO-PHYS></COMPU-METHOD>'),
        dop("W.rat64", dct=u(64),
            cm='<COMPU-METHOD><CATEGORY>RAT-FUNC</CATEGORY><COMPU-INTERNAL-TO-PHYS><COMPU-SCALES><COMPU-SCALE>'
               + limit("LOWER-LIMIT", 0) + limit("UPPER-LIMIT", "4294967297")
               + '<COMPU-RATIONAL-COEFFS><COMPU-NUMERATOR><V>9223372036854775809</V><V>0x100000001</V><V>3</V></COMPU-NUMERATOR>'
               '<COMPU-DENOMINATOR><V>18446744073709551615</V></COMPU-DENOMINATOR></COMPU-RATIONAL-COEFFS></COMPU-SCALE></COMPU-SCALES>'
               '</COMPU-INTERNAL-TO-PHYS></COMPU-METHOD>'),
        dop("W.f64", dct=u(64, "A_FLOAT64"), phys=f64,
            cm='<COMPU-METHOD><CATEGORY>LINEAR</CATEGORY><COMPU-INTERNAL-TO-PHYS><COMPU-SCALES><COMPU-SCALE>'
               + limit("LOWER-LIMIT", "-1.7976931348623157E308") + limit("UPPER-LIMIT", "1.7976931348623157e+308")
               + '<COMPU-RATIONAL-COEFFS><COMPU-NUMERATOR><V>0.30000000000000004</V><V>123456789.12345679</V></COMPU-NUMERATOR>'
               '<COMPU-DENOMINATOR><V>1E-3</V></COMPU-DENOMINATOR></COMPU-RATIONAL-COEFFS></COMPU-SCALE></COMPU-SCALES></COMPU-INTERNAL-TO-PHYS></COMPU-METHOD>'),
        dop("W.f32", dct=u(32, "A_FLOAT32"), phys='<PHYSICAL-TYPE BASE-DATA-TYPE="A_FLOAT32"><PRECISION>17</PRECISION></PHYSICAL-TYPE>',
            cm='<COMPU-METHOD><CATEGORY>LINEAR</CATEGORY><COMPU-INTERNAL-TO-PHYS><COMPU-SCALES><COMPU-SCALE>'
               '<COMPU-RATIONAL-COEFFS><COMPU-NUMERATOR><V>5e-324</V><V>16777217</V></COMPU-NUMERATOR>'
               '<COMPU-DENOMINATOR><V>1e22</V></COMPU-DENOMINATOR></COMPU-RATIONAL-COEFFS></COMPU-SCALE></COMPU-SCALES></COMPU-INTERNAL-TO-PHYS></COMPU-METHOD>'),
        dop("W.text", dct=u(64), phys='<PHYSICAL-TYPE BASE-DATA-TYPE="A_UNICODE2STRING"/>',
            cm='<COMPU-METHOD><CATEGORY>TEXTTABLE</CATEGORY><COMPU-INTERNAL-TO-PHYS><COMPU-SCALES>'
               '<COMPU-SCALE>' + limit("LOWER-LIMIT", "0x8000000000000001") + limit("UPPER-LIMIT", "0x8000000000000001") + '<COMPU-CONST><VT>odd</VT></COMPU-CONST></COMPU-SCALE>'
               '<COMPU-SCALE>' + limit("LOWER-LIMIT", "9223372036854775808") + limit("UPPER-LIMIT", "9223372036854775808") + '<COMPU-CONST><VT>even</VT></COMPU-CONST></COMPU-SCALE>'
               '<COMPU-SCALE>' + limit("LOWER-LIMIT", "1e3") + limit("UPPER-LIMIT", "2.0E3") + '<COMPU-INVERSE-VALUE><V>0x5DC</V></COMPU-INVERSE-VALUE>'
               '<COMPU-CONST><VT>thousands</VT></COMPU-CONST></COMPU-SCALE></COMPU-SCALES>'
               '<COMPU-DEFAULT-VALUE><VT>other</VT><COMPU-INVERSE-VALUE><V>0xFFFFFFFFFFFFFFFF</V></COMPU-INVERSE-VALUE></COMPU-DEFAULT-VALUE>'
               '</COMPU-INTERNAL-TO-PHYS></COMPU-METHOD>'),
        dop("W.tab", dct=u(64), phys=f64,
            cm='<COMPU-METHOD><CATEGORY>TAB-INTP</CATEGORY><COMPU-INTERNAL-TO-PHYS><COMPU-SCALES>'
               '<COMPU-SCALE>' + limit("LOWER-LIMIT", "0x0") + '<COMPU-CONST><V>-0.30000000000000004</V></COMPU-CONST></COMPU-SCALE>'
               '<COMPU-SCALE>' + limit("LOWER-LIMIT", "0x20000000000001") + '<COMPU-CONST><V>1E+22</V></COMPU-CONST></COMPU-SCALE>'
               '</COMPU-SCALES></COMPU-INTERNAL-TO-PHYS></COMPU-METHOD>'),
        dop("W.constr", dct=u(64),
            extra='<INTERNAL-CONSTR>' + limit("LOWER-LIMIT", "0x1") + limit("UPPER-LIMIT", "0xFFFFFFFFFFFFFFFE", "CLOSED")
                  + '<SCALE-CONSTRS><SCALE-CONSTR VALIDITY="NOT-VALID">' + limit("LOWER-LIMIT", "0x20000000000001") + limit("UPPER-LIMIT", "0x20000000000003")
                  + '</SCALE-CONSTR></SCALE-CONSTRS></INTERNAL-CONSTR>'),
    ]
    dtcdops = ('<DTC-DOPS><DTC-DOP ID="W.dtc"><SHORT-NAME>wdtc</SHORT-NAME>' + u(64) + '<PHYSICAL-TYPE BASE-DATA-TYPE="A_UINT32"/>'
               '<COMPU-METHOD><CATEGORY>IDENTICAL</CATEGORY></COMPU-METHOD><DTCS>'
               '<DTC ID="W.dtc.1"><SHORT-NAME>big</SHORT-NAME><TROUBLE-CODE>9007199254740993</TROUBLE-CODE><TEXT>beyond 2**53</TEXT><LEVEL>4294967297</LEVEL></DTC>'
               '<DTC ID="W.dtc.2"><SHORT-NAME>ones</SHORT-NAME><TROUBLE-CODE>18446744073709551615</TROUBLE-CODE><TEXT>64 bits</TEXT></DTC>'
               '</DTCS></DTC-DOP></DTC-DOPS>')
    units = ('<UNIT-SPEC><UNITS><UNIT ID="W.unit"><SHORT-NAME>wunit</SHORT-NAME><DISPLAY-NAME>w</DISPLAY-NAME>'
             '<FACTOR-SI-TO-UNIT>1.0000000000000002</FACTOR-SI-TO-UNIT><OFFSET-SI-TO-UNIT>-2.2250738585072014E-308</OFFSET-SI-TO-UNIT></UNIT></UNITS></UNIT-SPEC>')
    ddds = ('<DIAG-DATA-DICTIONARY-SPEC>' + dtcdops + '<DATA-OBJECT-PROPS>' + "".join(dops) + '</DATA-OBJECT-PROPS>' + units + '</DIAG-DATA-DICTIONARY-SPEC>')
    rq1 = (sid_param("0x31") + cconst("magic", 1, "0x8000000000000001", 64) + cconst("ones", 9, "0xFFFFFFFFFFFFFFFF", 64)
           + cconst("dec", 17, "9007199254740993", 64) + cconst("neg", 25, "-0x7FFFFFFFFFFFFFFF", 64, "A_INT32")
           + cconst("sci", 33, "1e3", 16) + cconst("flt", 35, "0.30000000000000004", 64, "A_FLOAT64")
           + '<PARAM xsi:type="PHYS-CONST"><SHORT-NAME>pconst</SHORT-NAME><BYTE-POSITION>43</BYTE-POSITION>'
             '<PHYS-CONSTANT-VALUE>0xFEDCBA9876543211</PHYS-CONSTANT-VALUE><DOP-REF ID-REF="W.u64"/></PARAM>'
           + value_param("dflt", "W.lin64", 51, extra="<PHYSICAL-DEFAULT-VALUE>0x7000000000000001</PHYSICAL-DEFAULT-VALUE>"))
    rq2 = (sid_param("0x32") + value_param("s", "W.s64", 1, extra="<PHYSICAL-DEFAULT-VALUE>-9223372036854775807</PHYSICAL-DEFAULT-VALUE>")
           + value_param("t", "W.text", 9, extra="<PHYSICAL-DEFAULT-VALUE>odd</PHYSICAL-DEFAULT-VALUE>")
           + value_param("c", "W.constr", 17, extra="<PHYSICAL-DEFAULT-VALUE>0xFFFFFFFFFFFFFFFE</PHYSICAL-DEFAULT-VALUE>"))
    pr1 = (sid_param("0x71") + value_param("lin", "W.lin64", 1) + value_param("txt", "W.text", 9) + value_param("f", "W.f64", 17)
           + value_param("tab", "W.tab", 25) + value_param("rat", "W.rat64", 33) + value_param("dtc", "W.dtc", 41))
    nr1 = (sid_param("0x7F") + '<PARAM SEMANTIC="NRC" xsi:type="NRC-CONST"><SHORT-NAME>nrc</SHORT-NAME><BYTE-POSITION>1</BYTE-POSITION><CODED-VALUES>'
           '<CODED-VALUE>0x8000000000000001</CODED-VALUE><CODED-VALUE>18446744073709551615</CODED-VALUE><CODED-VALUE>0x12</CODED-VALUE></CODED-VALUES>'
           + u(64) + '</PARAM>')
    layer = ('<BASE-VARIANT ID="wbv">' + ident("wbv") + ddds
             + '<DIAG-COMMS>' + service("S.w", "RQ.w", pos=["PR.w"], neg=["NR.w"]) + service("S.w2", "RQ.w2") + '</DIAG-COMMS>'
             '<REQUESTS>' + request("RQ.w", rq1) + request("RQ.w2", rq2) + '</REQUESTS>'
             '<POS-RESPONSES>' + response("POS-RESPONSE", "PR.w", pr1) + '</POS-RESPONSES>'
             '<NEG-RESPONSES>' + response("NEG-RESPONSE", "NR.w", nr1) + '</NEG-RESPONSES></BASE-VARIANT>')
    return doc("rwide", f'<BASE-VARIANTS>{layer}</BASE-VARIANTS>')


# messages for the layers of rwide (decoded on every layer of every database next to the fixed ones; a layer they do not belong to
# answers with the same DecodeError before and after the round trip): PR.w = sid, lin, txt, f, tab, rat, dtc; NR.w = sid, nrc
SAMPLE_PDUS = [
    "71" + "8020000000000002" + "8000000000000001" + "3fd3333333333334" + "0010000000000001" + "0000000000000007" + "0020000000000001",
    "71" + "ffffffffffffffef" + "8000000000000000" + "7fefffffffffffff" + "0020000000000001" + "0000000100000001" + "ffffffffffffffff",
    "71" + "0020000000000001" + "00000000000005dc" + "0000000000000001" + "0000000000000000" + "0000000000000000" + "0020000000000001",
    "7f8000000000000001", "7fffffffffffffffff", "7f0000000000000012", "7f8000000000000000", "7f0020000000000001",
]


DOCS = {"rmeta": rmeta, "rdict": rdict, "rcomm": rcomm, "rhard": rhard, "rvars": rvars, "rwide": rwide}

# auxiliary files the documents refer to (LIBRARY/CODE-FILE, PROG-CODE/CODE-FILE)
AUX = {"rmeta": {"lib.jar": b"PK-lib"}, "rdict": {"d.jar": b"PK-d", "conv.java": b"class Conv {}"},
       "rcomm": {"c.jar": b"PK-c", "job.jar": b"PK-job", "job2.class": b"\xca\xfe\xba\xbe"}, "rhard": {}, "rvars": {}, "rwide": {}}


def load(name):
    """the document loaded with the real loader (Database._process_xml_tree + refresh)"""
    import io
    from xml.etree import ElementTree
    from odxtools.database import Database
    db = Database()
    for fn, data in AUX[name].items():
        db.add_auxiliary_file(fn, io.BytesIO(data))
    db._process_xml_tree(ElementTree.fromstring(DOCS[name]()))
    db.refresh()
    return db


# -------------------------------------------------------------------------------------------------
# write-sequence family: small two-layer databases that differ only in where a layer lives and how things are named.
# Written one after the other by ONE process; any module-level / cached state of the writer (keyed by short names,
# ids, ...) then leaks from one database into the next.
def seq_container(cname, layers):
    body = ""
    sds = "".join(x for k, x in layers if k == "sd")
    bvs = "".join(x for k, x in layers if k == "bv")
    evs = "".join(x for k, x in layers if k == "ev")
    if sds:
        body += f"<ECU-SHARED-DATAS>{sds}</ECU-SHARED-DATAS>"
    if bvs:
        body += f"<BASE-VARIANTS>{bvs}</BASE-VARIANTS>"
    if evs:
        body += f"<ECU-VARIANTS>{evs}</ECU-VARIANTS>"
    return doc(cname, body)


def seq_lib(name, sid):
    return ("sd", f'<ECU-SHARED-DATA ID="{name}">{ident(name)}<DIAG-DATA-DICTIONARY-SPEC><DATA-OBJECT-PROPS>{dop(name + ".u8")}'
                  f'</DATA-OBJECT-PROPS></DIAG-DATA-DICTIONARY-SPEC><DIAG-COMMS>{service(name + ".S", name + ".RQ")}</DIAG-COMMS>'
                  f'<REQUESTS>{request(name + ".RQ", sid_param(sid) + value_param("p", name + ".u8", 1))}</REQUESTS></ECU-SHARED-DATA>')


def seq_bv(name, parent, parent_container, sid, docref=True):
    dr = f' DOCREF="{parent_container}" DOCTYPE="CONTAINER"' if docref else ""
    return ("bv", f'<BASE-VARIANT ID="{name}">{ident(name)}<DIAG-DATA-DICTIONARY-SPEC><DATA-OBJECT-PROPS>{dop(name + ".u8")}'
                  f'</DATA-OBJECT-PROPS></DIAG-DATA-DICTIONARY-SPEC><DIAG-COMMS>{service(name + ".S", name + ".RQ")}</DIAG-COMMS>'
                  f'<REQUESTS>{request(name + ".RQ", sid_param(sid) + value_param("q", name + ".u8", 1))}</REQUESTS>'
                  f'<PARENT-REFS><PARENT-REF ID-REF="{parent}"{dr} xsi:type="ECU-SHARED-DATA-REF"/></PARENT-REFS></BASE-VARIANT>')


def seq_ev(name, parent, parent_container):
    return ("ev", f'<ECU-VARIANT ID="{name}">{ident(name)}<PARENT-REFS><PARENT-REF ID-REF="{parent}" DOCREF="{parent_container}" '
                  f'DOCTYPE="CONTAINER" xsi:type="BASE-VARIANT-REF"/></PARENT-REFS></ECU-VARIANT>')


def seq_variants():
    """name -> list of ODX documents (one database each)"""
    return {
        # the reference shape: library layer in container alpha, base + ECU variant in container beta
        "seqA": [seq_container("alpha", [seq_lib("lib", 16)]), seq_container("beta", [seq_bv("base", "lib", "alpha", 34), seq_ev("ecu", "base", "beta")])],
        # the parent's container renamed
        "seqB": [seq_container("gamma", [seq_lib("lib", 16)]), seq_container("beta", [seq_bv("base", "lib", "gamma", 34), seq_ev("ecu", "base", "beta")])],
        # contents swapped between the two containers
        "seqC": [seq_container("beta", [seq_lib("lib", 16)]), seq_container("alpha", [seq_bv("base", "lib", "beta", 34), seq_ev("ecu", "base", "alpha")])],
        # layers renamed, containers as in A
        "seqD": [seq_container("alpha", [seq_lib("lib2", 17)]), seq_container("beta", [seq_bv("base2", "lib2", "alpha", 35), seq_ev("ecu", "base2", "beta")])],
        # everything in one container, the base variant's container renamed as well
        "seqE": [seq_container("delta", [seq_lib("lib", 18), seq_bv("base", "lib", "delta", 36), seq_ev("ecu", "base", "delta")])],
        # same names as A, other contents (service ids, an extra layer)
        "seqF": [seq_container("alpha", [seq_lib("lib", 48), seq_lib("lib3", 49)]), seq_container("beta", [seq_bv("base", "lib3", "alpha", 50), seq_ev("ecu", "base", "beta")])],
    }


def load_docs(xmls, aux=None):
    import io
    from xml.etree import ElementTree
    from odxtools.database import Database
    db = Database()
    for fn, data in (aux or {}).items():
        db.add_auxiliary_file(fn, io.BytesIO(data))
    for x in xmls:
        db._process_xml_tree(ElementTree.fromstring(x))
    db.refresh()
    return db


# -------------------------------------------------------------------------------------------------
# cross-document hierarchy family ("xdoc"): ONE hierarchy of six layers (library, protocol, two functional groups, base variant,
# ECU variant) in which every layer defines an object of every kind that is inherited (services, global negative responses,
# DOPs, tables, functional classes, additional audiences, state charts, unit groups, communication parameters), objects that
# override an inherited object of the same name / the same communication parameter, NOT-INHERITED-* entries, and SNREFs to
# inherited objects.  The layers are distributed over diagnostic layer containers (= documents) in every possible way
# (`xdoc_partitions`: the 52 set partitions of the five layers), so that each parent/child pair is once inside one document
# and once across two, and the documents are then loaded in every order.
XDOC_LAYERS = ["xlib", "xprot", "xfg", "xbv", "xev"]        # the layers that are distributed (one digit of a partition code each)
XDOC_TWIN = {"xfg": "xfg2"}                                  # a second functional group that always lives in the container of the first:
                                                             #   two parents of the same inheritance priority (stable order, shared ancestors)
XDOC_ALL = ["xlib", "xprot", "xfg", "xfg2", "xbv", "xev"]
XDOC_KIND = {"xlib": "sd", "xprot": "pr", "xfg": "fg", "xfg2": "fg", "xbv": "bv", "xev": "ev"}
XDOC_TAG = {"sd": "ECU-SHARED-DATA", "pr": "PROTOCOL", "fg": "FUNCTIONAL-GROUP", "bv": "BASE-VARIANT", "ev": "ECU-VARIANT"}
XDOC_PARENTS = {"xlib": [], "xprot": ["xlib"], "xfg": ["xprot", "xlib"], "xfg2": ["xlib", "xprot"], "xbv": ["xfg", "xfg2", "xprot", "xlib"],
                "xev": ["xbv", "xlib"]}
XDOC_OVERRIDES = {"xlib", "xprot", "xbv"}          # layers that define the `*_over` objects (the others inherit one of them)
XDOC_SID = {"xlib": 0x11, "xprot": 0x12, "xfg": 0x13, "xbv": 0x14, "xev": 0x15, "xfg2": 0x16}
XDOC_NOT_INHERITED = {      # (child, parent) -> {kind: [short names]}
    ("xbv", "xfg"): {"DIAG-COMM": ["S_xfg"], "GLOBAL-NEG-RESPONSE": ["gnr_xfg"]},
    ("xbv", "xfg2"): {"DOP": ["d_xfg2"], "TABLE": ["t_xfg2"]},
    ("xev", "xbv"): {"DIAG-COMM": ["S_xprot"], "DOP": ["d_xprot"], "TABLE": ["t_xfg"], "GLOBAL-NEG-RESPONSE": ["gnr_xprot"]},
    ("xfg", "xlib"): {"DOP": ["d_xlib"]},
}
XDOC_COMPARAMS = {          # layer -> [(comparam, value | [complex values], protocol snref?)]
    "xprot": [("CP_Baudrate", "500000", True), ("CP_UniqueRespIdTable", ["normal", "1792", "1800"], True),
              ("CP_TesterPresentTime", "2000000", False), ("CP_CanFuncReqId", "2015", False)],
    "xfg": [("CP_Baudrate", "250000", True), ("CP_P2Max", "50000", False)],
    "xfg2": [("CP_P2Max", "60000", False), ("CP_Baudrate", "300000", True)],
    "xbv": [("CP_UniqueRespIdTable", ["extended", "1793", "1801"], True), ("CP_TesterPresentTime", "3000000", True), ("CP_Bv", "7", False)],
    "xev": [("CP_CanFuncReqId", "2016", False), ("CP_Baudrate", "125000", False), ("CP_CANFDTxMaxDataLength", "CANFD TX_DL = 64", True)],
}


def xdoc_partitions():
    """every assignment of the five layers to containers as a restricted growth string ('00000' = one container,
    '01234' = one container per layer); 52 of them"""
    out = []

    def rec(prefix, used):
        if len(prefix) == len(XDOC_LAYERS):
            out.append("".join(map(str, prefix)))
            return
        for b in range(used + 1):
            rec(prefix + [b], max(used, b + 1))
    rec([0], 1)
    return out


def _xdoc_bits(n):
    return '<DIAG-CODED-TYPE BASE-DATA-TYPE="A_UINT32" xsi:type="STANDARD-LENGTH-TYPE"><BIT-LENGTH>%d</BIT-LENGTH></DIAG-CODED-TYPE>' % n


def _xdoc_snparam(name, dopname, pos):
    return (f'<PARAM xsi:type="VALUE"><SHORT-NAME>{name}</SHORT-NAME><BYTE-POSITION>{pos}</BYTE-POSITION>'
            f'<DOP-SNREF SHORT-NAME="{dopname}"/></PARAM>')


def xdoc_layer(n, container_of):
    """the XML of layer n; container_of: layer -> short name of the container it lives in"""
    kind = XDOC_KIND[n]
    sid = XDOC_SID[n]
    over = n in XDOC_OVERRIDES
    k = XDOC_ALL.index(n)
    names = [n] + (["over"] if over else [])         # suffixes of the objects of each kind this layer defines

    def oid(x, s):
        return f"{n}.{x}.{s}"
    fcs = "".join(f'<FUNCT-CLASS ID="{oid("FC", s)}"><SHORT-NAME>fc_{s}</SHORT-NAME><LONG-NAME>fc {s} of {n}</LONG-NAME></FUNCT-CLASS>' for s in names)
    dops = "".join(dop(oid("D", s), dct=_xdoc_bits(8 * (k + 1) if s == "over" else 8)).replace(f"<SHORT-NAME>{oid('D', s)}<", f"<SHORT-NAME>d_{s}<")
                   for s in names)
    tables = "".join(f'<TABLE ID="{oid("T", s)}"><SHORT-NAME>t_{s}</SHORT-NAME><LONG-NAME>table {s} of {n}</LONG-NAME><KEY-DOP-REF ID-REF="{oid("D", n)}"/>'
                     f'<TABLE-ROW ID="{oid("TR", s)}"><SHORT-NAME>row</SHORT-NAME><KEY>{k + 1}</KEY><DATA-OBJECT-PROP-SNREF SHORT-NAME="d_over"/></TABLE-ROW>'
                     f'</TABLE>' for s in names)
    units = ('<UNIT-SPEC><UNIT-GROUPS>'
             + "".join(f'<UNIT-GROUP><SHORT-NAME>ug_{s}</SHORT-NAME><LONG-NAME>unit group {s} of {n}</LONG-NAME><CATEGORY>COUNTRY</CATEGORY>'
                       f'<UNIT-REFS><UNIT-REF ID-REF="{oid("U", n)}"/></UNIT-REFS></UNIT-GROUP>' for s in names)
             + f'</UNIT-GROUPS><UNITS><UNIT ID="{oid("U", n)}"><SHORT-NAME>u_{n}</SHORT-NAME><DISPLAY-NAME>u{k}</DISPLAY-NAME></UNIT></UNITS></UNIT-SPEC>')
    ddds = f'<DIAG-DATA-DICTIONARY-SPEC><DATA-OBJECT-PROPS>{dops}</DATA-OBJECT-PROPS><TABLES>{tables}</TABLES>{units}</DIAG-DATA-DICTIONARY-SPEC>'
    svcs = "".join(service(oid("S", s), oid("RQ", s), pos=[oid("PR", s)]).replace(f"<SHORT-NAME>{oid('S', s)}<", f"<SHORT-NAME>S_{s}<")
                   for s in names)
    # requests: service id, (for the overriding services a second constant byte that tells the definitions apart), a parameter
    # whose DOP is found by short name among the objects the layer ends up with (inherited or overridden ones included)
    rqs = "".join(request(oid("RQ", s), sid_param(sid if s == n else 0x50)
                          + (sid_param(k + 1, name="who", sem="ID").replace("<BYTE-POSITION>0", "<BYTE-POSITION>1") if s == "over" else "")
                          + _xdoc_snparam("p", "d_over", 2) + value_param("q", oid("D", n), 2 + k + 1)) for s in names)
    prs = "".join(response("POS-RESPONSE", oid("PR", s), sid_param((sid if s == n else 0x50) + 0x40) + _xdoc_snparam("r", "d_over", 1)) for s in names)
    gnrs = "".join(response("GLOBAL-NEG-RESPONSE", oid("GNR", s), sid_param(0x7f) + sid_param(sid if s == n else 0x50, name="rqsid", sem="SERVICEIDRQ")
                            .replace("<BYTE-POSITION>0", "<BYTE-POSITION>1") + value_param("code", oid("D", n), 2))
                   .replace(f"<SHORT-NAME>{oid('GNR', s)}<", f"<SHORT-NAME>gnr_{s}<") for s in names)
    scs = "".join(f'<STATE-CHART ID="{oid("SC", s)}"><SHORT-NAME>sc_{s}</SHORT-NAME><LONG-NAME>chart {s} of {n}</LONG-NAME><SEMANTIC>SESSION</SEMANTIC>'
                  f'<STATE-TRANSITIONS><STATE-TRANSITION ID="{oid("STT", s)}"><SHORT-NAME>go</SHORT-NAME><SOURCE-SNREF SHORT-NAME="a"/>'
                  f'<TARGET-SNREF SHORT-NAME="b"/></STATE-TRANSITION></STATE-TRANSITIONS><START-STATE-SNREF SHORT-NAME="a"/>'
                  f'<STATES><STATE ID="{oid("ST", s)}.a"><SHORT-NAME>a</SHORT-NAME></STATE><STATE ID="{oid("ST", s)}.b"><SHORT-NAME>b</SHORT-NAME></STATE></STATES>'
                  f'</STATE-CHART>' for s in names)
    auds = "".join(f'<ADDITIONAL-AUDIENCE ID="{oid("AA", s)}"><SHORT-NAME>aud_{s}</SHORT-NAME><LONG-NAME>audience {s} of {n}</LONG-NAME></ADDITIONAL-AUDIENCE>'
                   for s in names)
    cps = ""
    for cp, val, snref in XDOC_COMPARAMS.get(n, []):
        v = (f"<SIMPLE-VALUE>{val}</SIMPLE-VALUE>" if isinstance(val, str)
             else "<COMPLEX-VALUE>" + "".join(f"<SIMPLE-VALUE>{x}</SIMPLE-VALUE>" for x in val) + "</COMPLEX-VALUE>")
        cps += (f'<COMPARAM-REF ID-REF="xcs.{cp}" DOCREF="xcs" DOCTYPE="COMPARAM-SUBSET">{v}'
                + ('<PROTOCOL-SNREF SHORT-NAME="xprot"/>' if snref else "") + '</COMPARAM-REF>')
    prefs = ""
    for p in XDOC_PARENTS[n]:
        ni = "".join(f'<NOT-INHERITED-{kd}S>' + "".join(
            f'<NOT-INHERITED-{kd}><{ {"DIAG-COMM": "DIAG-COMM", "DOP": "DOP-BASE", "TABLE": "TABLE", "GLOBAL-NEG-RESPONSE": "GLOBAL-NEG-RESPONSE"}[kd]}-SNREF '
            f'SHORT-NAME="{x}"/></NOT-INHERITED-{kd}>' for x in xs) + f'</NOT-INHERITED-{kd}S>'
            for kd, xs in XDOC_NOT_INHERITED.get((n, p), {}).items())
        prefs += (f'<PARENT-REF ID-REF="{p}" DOCREF="{container_of[p]}" DOCTYPE="CONTAINER" xsi:type="{XDOC_TAG[XDOC_KIND[p]]}-REF">{ni}</PARENT-REF>')
    body = (ident(n) + f'<FUNCT-CLASSS>{fcs}</FUNCT-CLASSS>' + ddds + f'<DIAG-COMMS>{svcs}</DIAG-COMMS><REQUESTS>{rqs}</REQUESTS>'
            f'<POS-RESPONSES>{prs}</POS-RESPONSES><GLOBAL-NEG-RESPONSES>{gnrs}</GLOBAL-NEG-RESPONSES>'
            f'<STATE-CHARTS>{scs}</STATE-CHARTS><ADDITIONAL-AUDIENCES>{auds}</ADDITIONAL-AUDIENCES>')
    if kind != "sd":
        body += f'<COMPARAM-REFS>{cps}</COMPARAM-REFS>' if cps else ""
    if kind == "pr":
        body += '<COMPARAM-SPEC-REF ID-REF="xspec" DOCREF="xspec" DOCTYPE="COMPARAM-SPEC"/><PROT-STACK-SNREF SHORT-NAME="xstack"/>'
    if prefs:
        body += f'<PARENT-REFS>{prefs}</PARENT-REFS>'
    return kind, f'<{XDOC_TAG[kind]} ID="{n}">{body}</{XDOC_TAG[kind]}>'


def xdoc_comparam_docs():
    """{member name: document}: the communication parameter subset and the communication parameter specification"""
    def cp(name, default):
        return (f'<COMPARAM ID="xcs.{name}" PARAM-CLASS="COM" CPTYPE="STANDARD" CPUSAGE="ECU-COMM" DISPLAY-LEVEL="1"><SHORT-NAME>{name}</SHORT-NAME>'
                f'<PHYSICAL-DEFAULT-VALUE>{default}</PHYSICAL-DEFAULT-VALUE><DATA-OBJECT-PROP-REF ID-REF="xcs.u32"/></COMPARAM>')
    simple = "".join(cp(n, d) for n, d in [("CP_Baudrate", "1000000"), ("CP_TesterPresentTime", "1000000"), ("CP_CanFuncReqId", "2015"),
                                           ("CP_P2Max", "1"), ("CP_Bv", "0"), ("CP_CANFDTxMaxDataLength", "TX_DL = 8")])
    cplx = ('<COMPLEX-COMPARAM ID="xcs.CP_UniqueRespIdTable" PARAM-CLASS="UNIQUE_ID" CPTYPE="STANDARD" CPUSAGE="ECU-COMM" ALLOW-MULTIPLE-VALUES="true">'
            '<SHORT-NAME>CP_UniqueRespIdTable</SHORT-NAME>' + cp("CP_CanPhysReqFormat", "normal") + cp("CP_CanPhysReqId", "2016") + cp("CP_CanRespUSDTId", "2024")
            + '</COMPLEX-COMPARAM>')
    subset = (f'<?xml version="1.0" encoding="UTF-8"?>\n<ODX MODEL-VERSION="2.2.0" {XSI}>\n<COMPARAM-SUBSET ID="xcs" CATEGORY="TRANS">'
              f'<SHORT-NAME>xcs</SHORT-NAME><LONG-NAME>subset</LONG-NAME><COMPARAMS>{simple}</COMPARAMS><COMPLEX-COMPARAMS>{cplx}</COMPLEX-COMPARAMS>'
              '<DATA-OBJECT-PROPS>' + dop("xcs.u32", dct=_xdoc_bits(32)) + '</DATA-OBJECT-PROPS></COMPARAM-SUBSET>\n</ODX>\n')
    spec = (f'<?xml version="1.0" encoding="UTF-8"?>\n<ODX MODEL-VERSION="2.2.0" {XSI}>\n<COMPARAM-SPEC ID="xspec"><SHORT-NAME>xspec</SHORT-NAME>'
            '<LONG-NAME>spec</LONG-NAME><PROT-STACKS><PROT-STACK ID="xspec.xstack"><SHORT-NAME>xstack</SHORT-NAME><PDU-PROTOCOL-TYPE>ISO_15765_3</PDU-PROTOCOL-TYPE>'
            '<PHYSICAL-LINK-TYPE>ISO_11898_2_DWCAN</PHYSICAL-LINK-TYPE><COMPARAM-SUBSET-REFS><COMPARAM-SUBSET-REF ID-REF="xcs" DOCREF="xcs" '
            'DOCTYPE="COMPARAM-SUBSET"/></COMPARAM-SUBSET-REFS></PROT-STACK></PROT-STACKS></COMPARAM-SPEC>\n</ODX>\n')
    return {"xcs.odx-cs": subset, "xspec.odx-c": spec}


def xdoc_members(code):
    """{member name: document} of the hierarchy distributed according to `code` (see xdoc_partitions); container j is
    named so that the alphabetical order of the members is not the parent-first order for every partition"""
    blocks = sorted(set(code))
    cname = {b: ("k%s%s" % ("zyxwv"[i] if len(code.replace(b, "")) % 2 else "abcde"[i], b)) for i, b in enumerate(blocks)}
    container_of = {n: cname[code[i]] for i, n in enumerate(XDOC_LAYERS)}
    container_of.update({t: container_of[n] for n, t in XDOC_TWIN.items()})
    out = {}
    for b in blocks:
        layers = [xdoc_layer(m, container_of) for i, n in enumerate(XDOC_LAYERS) if code[i] == b for m in [n] + ([XDOC_TWIN[n]] if n in XDOC_TWIN else [])]
        body = ""
        for kd, tag in (("sd", "ECU-SHARED-DATAS"), ("pr", "PROTOCOLS"), ("fg", "FUNCTIONAL-GROUPS"), ("bv", "BASE-VARIANTS"), ("ev", "ECU-VARIANTS")):
            xs = "".join(x for k2, x in layers if k2 == kd)
            if xs:
                body += f"<{tag}>{xs}</{tag}>"
        out[cname[b] + ".odx-d"] = doc(cname[b], body)
    out.update(xdoc_comparam_docs())
    return out


def xdoc_parent_first(code, reverse=False):
    """the member names of partition `code` with the container of the library first ... the container of the ECU variant
    last (first occurrence), comparam documents in front; reverse=True: exactly the opposite order"""
    m = xdoc_members(code)
    names = [n for n in m if n.endswith(".odx-d")]
    first = {}
    for i, b in enumerate(code):
        first.setdefault(b, i)
    blocks = sorted(set(code))
    names = sorted(names, key=lambda nm: first[nm[2:-len(".odx-d")]])
    order = ["xcs.odx-cs", "xspec.odx-c"] + names
    return order[::-1] if reverse else order
