"""assembles DESIGN.md = docsrc/part1.md (tables filled from the machine-readable state) + docsrc/part2_round0.md"""
import io, subprocess, sys
from contextlib import redirect_stdout
from pathlib import Path
sys.path.insert(0, str(Path(__file__).resolve().parent))
import mktables
V = Path(__file__).resolve().parent.parent
p1 = (V / "docsrc" / "part1.md").read_text()
for name, fn in (("findings", mktables.findings), ("seeded", mktables.seeded), ("evidence", mktables.evidence)):
    buf = io.StringIO()
    with redirect_stdout(buf):
        fn()
    p1 = p1.replace(f"<<TABLE:{name}>>", buf.getvalue().rstrip())
for extra in ("seeded_notes", "corrections"):
    f = V / "docsrc" / f"{extra}.md"
    p1 = p1.replace(f"<<EXTRA:{extra}>>", f.read_text().rstrip() if f.exists() else "")
p2 = (V / "docsrc" / "part2_round0.md").read_text()
p2 = p2.replace("# DESIGN — deciding the 18 odxtools properties by machine-checked proof in Lean 4\n", "", 1)
(V / "DESIGN.md").write_text(p1 + p2)
print("DESIGN.md", len((p1 + p2).splitlines()), "lines")
