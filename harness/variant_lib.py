"""Helpers for C14 (variant identification): building real EcuVariant/BaseVariant objects from a
JSON-able configuration, driving `VariantMatcher.request_loop`, an independent reference of the
property statement, and the s-expression encoding for the Lean driver `drv_variant`.

A *configuration* (everything JSON):
  cfg = {"strict": bool, "cache": bool, "cands": [variant...], "dup": [indices]?}
  variant = {"kind": "ecu"|"base"|"other", "name": str, "patterns": [[param...]...] (base: 0 or 1 pattern),
             "services": [service...], "gneg": [table...]  (global negative responses of the layer)}
  param   = {"exp": str, "svc": str, "snref": str|None, "path": str|None, "phys": None|"none"|True|False}
            phys None  -> plain MatchingParameter; "none"/True/False -> MatchingBaseVariantParameter(raw)
  service = {"name": str, "req": hex | "!odx" | "!foreign", "pos": [table...], "neg": [table...],
             "ba": bool (stubbed encode_request returns a bytearray, like the real one, instead of bytes)}
  table   = {resp_hex: outcome}   what one response object's decode() does; a missing key = DecodeError
  outcome = ["val", pyval] | ["decerr"] | ["raise", "odx"|"foreign"]
  (the response objects `_ident_response_matches` consults for a service are pos + neg + the layer's gneg)
  pyval   = JSON encoding of a Python value, see `py_of`
An ECU is a dict "p:<hex>"/"f:<hex>" -> response hex ("" = no answer).
"""
import json

import common

common.import_repo()      # odxtools must come from ODX_REPO, not from the installed copy

from odxtools.basevariantpattern import BaseVariantPattern
from odxtools.database import Database
from odxtools.diaglayers.basevariant import BaseVariant
from odxtools.diaglayers.basevariantraw import BaseVariantRaw
from odxtools.diaglayers.diaglayertype import DiagLayerType
from odxtools.diaglayers.ecuvariant import EcuVariant
from odxtools.diaglayers.ecuvariantraw import EcuVariantRaw
from odxtools.diagnostictroublecode import DiagnosticTroubleCode
from odxtools.diagservice import DiagService
from odxtools.ecuvariantpattern import EcuVariantPattern
from odxtools.exceptions import DecodeError, EncodeError, OdxError
from odxtools.matchingbasevariantparameter import MatchingBaseVariantParameter
from odxtools.matchingparameter import MatchingParameter
from odxtools.nameditemlist import NamedItemList
from odxtools.odxlink import DocType, OdxDocFragment, OdxLinkDatabase, OdxLinkId, OdxLinkRef
from odxtools.request import Request
from odxtools.response import Response, ResponseType
import odxtools.exceptions as odxexc

DOC = [OdxDocFragment(doc_name="c14", doc_type=DocType.CONTAINER)]


# ------------------------------------------------------------------ value universe
def py_of(j):
    """JSON -> Python value as `Response.decode` would deliver it"""
    t = j[0]
    if t == "s":
        return j[1]
    if t == "i":
        return int(j[1])
    if t == "b":
        return bool(j[1])
    if t == "n":
        return None
    if t == "f":
        return float(j[1])
    if t == "y":
        return bytes.fromhex(j[1])
    if t == "Y":
        return bytearray.fromhex(j[1])
    if t == "dtc":
        return DiagnosticTroubleCode(odx_id=OdxLinkId(local_id=f"dtc{j[1]}", doc_fragments=DOC), short_name=f"dtc{j[1]}",
                                     oid=None, long_name=None, description=None, trouble_code=int(j[1]), text="t",
                                     display_trouble_code=None, level=None, is_temporary_raw=None, sdgs=[])
    if t == "d":
        return {k: py_of(v) for k, v in j[1]}
    if t == "l":
        return [py_of(v) for v in j[1]]
    if t == "t":
        return tuple(py_of(v) for v in j[1])
    raise ValueError(t)


def json_of(v):
    """Python value (as delivered by the real decoder) -> JSON encoding; None if outside the universe"""
    if isinstance(v, bool):
        return ["b", v]
    if isinstance(v, int):
        return ["i", str(v)]
    if isinstance(v, str):
        return ["s", v]
    if v is None:
        return ["n"]
    if isinstance(v, float):
        return ["f", repr(v)]
    if isinstance(v, bytearray):
        return ["Y", v.hex()]
    if isinstance(v, bytes):
        return ["y", v.hex()]
    if isinstance(v, DiagnosticTroubleCode):
        return ["dtc", v.trouble_code]
    if isinstance(v, dict):
        return ["d", [[k, json_of(x)] for k, x in v.items()]]
    if isinstance(v, list):
        return ["l", [json_of(x) for x in v]]
    if isinstance(v, tuple):
        return ["t", [json_of(x) for x in v]]
    raise ValueError(type(v).__name__)


def has_float(j):
    if j[0] == "f":
        return True
    if j[0] == "d":
        return any(has_float(v) for _, v in j[1])
    if j[0] in "lt":
        return any(has_float(v) for v in j[1])
    return False


# ------------------------------------------------------------------ building the real objects
class Boom(Exception):
    """a non-OdxError raised by a stubbed decode/encode"""


def _mk_response(uid, name, rtype, table):
    r = Response(odx_id=OdxLinkId(local_id=uid, doc_fragments=DOC), oid=None, short_name=name, long_name=None,
                 description=None, admin_data=None, sdgs=[], parameters=NamedItemList(), response_type=rtype)

    def decode(message, _t=table):
        o = _t.get(bytes(message).hex())
        if o is None or o[0] == "decerr":
            raise DecodeError("stub: cannot decode")
        if o[0] == "raise":
            raise (OdxError("stub") if o[1] == "odx" else Boom("stub"))
        return py_of(o[1])

    r.decode = decode
    return r


def build_variant(v, links):
    """v: variant config -> (layer object, ident info)"""
    name = v["name"]
    svcs, gneg = [], []
    for k, table in enumerate(v.get("gneg", [])):
        r = _mk_response(f"{name}.g{k}", f"gneg{k}", ResponseType.GLOBAL_NEGATIVE, table)
        links.update({r.odx_id: r})
        gneg.append(r)
    for s in v["services"]:
        sid = f"{name}.{s['name']}"
        req = Request(odx_id=OdxLinkId(local_id=sid + ".rq", doc_fragments=DOC), oid=None, short_name=s["name"] + "_rq",
                      long_name=None, description=None, admin_data=None, sdgs=[], parameters=NamedItemList())
        links.update({req.odx_id: req})
        pos, neg = [], []
        for k, table in enumerate(s["pos"]):
            r = _mk_response(f"{sid}.p{k}", f"{s['name']}_p{k}", ResponseType.POSITIVE, table)
            links.update({r.odx_id: r})
            pos.append(r)
        for k, table in enumerate(s["neg"]):
            r = _mk_response(f"{sid}.n{k}", f"{s['name']}_n{k}", ResponseType.NEGATIVE, table)
            links.update({r.odx_id: r})
            neg.append(r)
        ds = DiagService(odx_id=OdxLinkId(local_id=sid, doc_fragments=DOC), oid=None, short_name=s["name"], long_name=None,
                         description=None, semantic=None, admin_data=None, protocol_snrefs=[], related_diag_comm_refs=[],
                         diagnostic_class=None, is_mandatory_raw=None, is_executable_raw=None, is_final_raw=None,
                         comparam_refs=[], is_cyclic_raw=None, is_multiple_raw=None, addressing_raw=None,
                         transmission_mode_raw=None, audience=None, functional_class_refs=[], pre_condition_state_refs=[],
                         state_transition_refs=[], request_ref=OdxLinkRef.from_id(req.odx_id),
                         pos_response_refs=[OdxLinkRef.from_id(r.odx_id) for r in pos],
                         neg_response_refs=[OdxLinkRef.from_id(r.odx_id) for r in neg], pos_response_suppressible=None, sdgs=[])

        def encode_request(_r=s["req"], _ba=s.get("ba", False), **kw):
            if _r == "!odx":
                raise EncodeError("stub")
            if _r == "!foreign":
                raise Boom("stub")
            # the real DiagService.encode_request() returns the bytearray built by Request.encode()
            return bytearray.fromhex(_r) if _ba else bytes.fromhex(_r)

        ds.encode_request = encode_request
        svcs.append(ds)

    def mk_param(p):
        kw = dict(expected_value=p["exp"], diag_comm_snref=p["svc"], out_param_if_snref=p["snref"],
                  out_param_if_snpathref=p["path"])
        if p["phys"] is None:
            return MatchingParameter(**kw)
        return MatchingBaseVariantParameter(use_physical_addressing_raw=None if p["phys"] == "none" else p["phys"], **kw)

    common = dict(odx_id=OdxLinkId(local_id=name, doc_fragments=DOC), oid=None, short_name=name, long_name=None,
                  description=None, admin_data=None, company_datas=NamedItemList(), functional_classes=NamedItemList(),
                  diag_data_dictionary_spec=None, diag_comms_raw=svcs, requests=NamedItemList(),
                  positive_responses=NamedItemList(), negative_responses=NamedItemList(),
                  global_negative_responses=NamedItemList(gneg), import_refs=[], state_charts=NamedItemList(),
                  additional_audiences=NamedItemList(), sdgs=[], parent_refs=[], comparam_refs=[], diag_variables_raw=[],
                  variable_groups=NamedItemList(), libraries=NamedItemList(), dyn_defined_spec=None,
                  sub_components=NamedItemList())
    if v["kind"] == "ecu":
        raw = EcuVariantRaw(variant_type=DiagLayerType.ECU_VARIANT,
                            ecu_variant_patterns=[EcuVariantPattern(matching_parameters=[mk_param(p) for p in pat])
                                                  for pat in v["patterns"]], **common)
        layer = EcuVariant(diag_layer_raw=raw)
    elif v["kind"] == "base":
        pats = v["patterns"]
        assert len(pats) <= 1
        raw = BaseVariantRaw(variant_type=DiagLayerType.BASE_VARIANT,
                             base_variant_pattern=BaseVariantPattern(matching_base_variant_parameters=[mk_param(p) for p in pats[0]])
                             if pats else None, **common)
        layer = BaseVariant(diag_layer_raw=raw)
    else:
        return object()      # something that is neither an EcuVariant nor a BaseVariant
    links.update(layer._build_odxlinks())
    layer._resolve_odxlinks(links)
    layer._finalize_init(Database(), links)
    return layer


def build_candidates(cfg):
    links = OdxLinkDatabase()
    objs = [build_variant(v, links) for v in cfg["cands"]]
    for j, i in cfg.get("dup", []):       # candidate j is the very same object as candidate i
        objs[j] = objs[i]
    return objs


def svc_outcomes(v, s, resp_hex):
    """outcome of decode() for each response object consulted for service s of variant v"""
    return [t.get(resp_hex, ["decerr"]) for t in list(s["pos"]) + list(s["neg"]) + list(v.get("gneg", []))]


def resp_alphabet(cfg, ecu=None, script=None):
    hs = set()
    for v in cfg["cands"]:
        for t in v.get("gneg", []):
            hs.update(t)
        for s in v.get("services", []):
            for t in list(s["pos"]) + list(s["neg"]):
                hs.update(t)
    if ecu:
        hs.update(ecu.values())
    for sess in script or []:
        if sess != "ecu":
            hs.update(x for x in sess if x is not None)
    return sorted(hs)


# ------------------------------------------------------------------ driving the real matcher
def err_class(e):
    if isinstance(e, OdxError):
        return "odx"
    if isinstance(e, RuntimeError):
        return "runtime"
    return "foreign"


def ecu_key(phys, req):
    return ("p:" if phys else "f:") + bytes(req).hex()


class Obs:
    """observation of one matcher history on the implementation"""

    def __init__(self):
        self.sessions = []      # per request_loop() run: (trace [(phys, hex)], outcome)
        self.final = None

    def canon(self):
        return {"sessions": self.sessions, "final": self.final}


def observe_final(matcher, cands):
    try:
        pending = bool(matcher.is_pending())
    except Exception as e:  # noqa
        pending = "exc:" + err_class(e)
    try:
        hm = "t" if matcher.has_match() else "f"
    except Exception as e:  # noqa
        hm = "err-" + err_class(e)
    idx = None
    try:
        mv = matcher.matching_variant
        if mv is not None:
            idx = next((i for i, c in enumerate(cands) if c is mv), -1)
    except Exception as e:  # noqa
        idx = "exc:" + type(e).__name__
    cache = None
    try:
        cache = []
        for k, val in matcher.req_resp_cache.items():
            if isinstance(k, tuple):
                cache.append([bool(k[0]), bytes(k[1]).hex(), bytes(val).hex()])
            else:
                cache.append([None, bytes(k).hex(), bytes(val).hex()])
    except Exception as e:  # noqa
        cache = "exc:" + type(e).__name__
    try:
        rr = matcher._recent_ident_response
        recent = "none" if rr is None else hb(bytes(rr).hex())
    except Exception as e:  # noqa
        recent = "exc:" + type(e).__name__
    return {"pending": pending, "has_match": hm, "match": idx, "cache": cache, "recent": recent}


# How the caller hands the ECU's answer to `evaluate()`. The property speaks about *the ECU's responses* (byte strings = values):
# which container the transport layer keeps them in, and what the caller does with that container once `evaluate()` has returned,
# is the caller's business. Two independent features, all combinations:
#   container : an immutable `bytes` object | a new `bytearray` per response | ONE `bytearray` for the whole life of the matcher
#               that every response is received into (`rx[:] = ...`, as with `socket.recv_into`)
#   afterwards: left alone | overwritten ("scribbled") with another response of the alphabet as soon as `evaluate()` has returned,
#               i.e. before the loop is resumed (a transport layer that recycles / clears its receive buffer)
BUF_MODES = ["bytes", "ba-fresh", "ba-reuse", "ba-fresh-scribble", "ba-reuse-scribble"]


class RxBuffer:
    """the caller's side of `evaluate()` for one matcher (all its request_loop runs)"""

    def __init__(self, mode, pool):
        if mode not in BUF_MODES:
            raise ValueError(mode)
        self.mode = mode
        self.pool = [bytes.fromhex(h) for h in pool]
        self.rx = bytearray()
        self.k = 0

    def noise(self, resp):
        """a byte string that differs from `resp`: another response of the alphabet if there is one"""
        others = [p for p in self.pool if p != resp]
        self.k += 1
        if others:
            return others[self.k % len(others)]
        return bytes(reversed(resp)) + b"\xff"

    def deliver(self, matcher, resp):
        resp = bytes(resp)
        if self.mode == "bytes":
            matcher.evaluate(resp)
            return
        if "reuse" in self.mode:
            self.rx[:] = resp
            buf = self.rx
        else:
            buf = bytearray(resp)
        matcher.evaluate(buf)
        if "scribble" in self.mode:
            buf[:] = self.noise(resp)


def run_script(cfg, cands, script, ecu=None, buf="bytes"):
    """script: list of sessions; a session is a list of inputs, one per yield: hex string = evaluate(bytes), None = no
    evaluate call; running out of inputs abandons the generator. With `ecu` (dict) a session "ecu" answers every request
    from the table. `buf`: how the answers are handed over (BUF_MODES). Returns Obs."""
    from odxtools.variantmatcher import VariantMatcher
    obs = Obs()
    old = odxexc.strict_mode
    odxexc.strict_mode = bool(cfg["strict"])
    pool = set((ecu or {}).values())
    for sess in script:
        if sess != "ecu":
            pool.update(x for x in sess if x is not None)
    rx = RxBuffer(buf, sorted(pool))
    try:
        try:
            matcher = VariantMatcher(variant_candidates=cands, use_cache=bool(cfg["cache"]))
        except Exception as e:  # noqa  (the constructor of a changed implementation: a failure is data, not a crash of the harness)
            obs.sessions = [{"trace": [], "outcome": "err-" + err_class(e)} for _ in script]
            obs.final = {"pending": "exc:ctor", "has_match": "err-" + err_class(e), "match": None, "cache": "exc:ctor", "recent": "exc:ctor"}
            return obs
        for sess in script:
            trace, outcome = [], None
            try:
                gen = matcher.request_loop()
                k = 0
                while True:
                    try:
                        y = next(gen)
                    except StopIteration:
                        outcome = "done"
                        break
                    phys, req = y
                    trace.append([bool(phys), bytes(req).hex()])
                    if sess == "ecu":
                        rx.deliver(matcher, bytes.fromhex(ecu[ecu_key(phys, req)]))
                    else:
                        if k >= len(sess):
                            gen.close()
                            outcome = "abandoned"
                            break
                        if sess[k] is not None:
                            rx.deliver(matcher, bytes.fromhex(sess[k]))
                        k += 1
                    if len(trace) > 10000:
                        outcome = "runaway"
                        break
            except Exception as e:  # noqa
                outcome = "err-" + err_class(e)
            obs.sessions.append({"trace": trace, "outcome": outcome})
        obs.final = observe_final(matcher, cands)
    finally:
        odxexc.strict_mode = old
    return obs


# ------------------------------------------------------------------ independent reference of the property statement
class IllTyped(Exception):
    pass


def ref_leaf_eq(exp, v):
    if isinstance(v, dict):
        raise IllTyped()
    if isinstance(v, float):
        try:
            return abs(float(exp) - v) < 1e-8
        except ValueError:      # a text that is not a number is not equal to a float
            return False
    if isinstance(v, (bytes, bytearray)):
        return v.hex().upper() == exp.upper()
    if isinstance(v, DiagnosticTroubleCode):
        return hex(v.trouble_code).upper() == exp.upper()
    return exp == str(v)


def ref_leaves(v, path):
    """all values reached from v along path (dict step, table-struct pair -> struct, field -> every item);
    ill-typed steps are reported as IllTyped instances in the stream"""
    if not path:
        yield v
        return
    if not isinstance(v, dict):
        yield IllTyped()
        return
    sub = v.get(path[0])
    if sub is None:
        return
    if isinstance(sub, tuple) and len(sub) == 2:
        sub = sub[1]
    if isinstance(sub, list):
        for x in sub:
            yield from ref_leaves(x, path[1:])
    else:
        yield from ref_leaves(sub, path[1:])


def ref_param_matches(p, v, svc, resp_hex):
    """does the expected value equal a value decoded from this response? (non-strict reading: ill-typed = no).
    returns (bool, saw_illtyped, saw_raise, saw_float)"""
    path = [p["snref"]] if p["snref"] is not None else (p["path"].split(".") if p["path"] is not None else None)
    ill = rs = fl = False
    ok = False
    for o in svc_outcomes(v, svc, resp_hex):
        if o[0] == "raise":
            rs = True
            continue
        if o[0] != "val":
            continue
        if path is None:
            ill = True
            continue
        for leaf in ref_leaves(py_of(o[1]), path):
            if isinstance(leaf, IllTyped):
                ill = True
                continue
            if isinstance(leaf, float):
                fl = True
            try:
                if ref_leaf_eq(p["exp"], leaf):
                    ok = True
            except IllTyped:
                ill = True
            except ValueError:
                ill = True
    return ok, ill, rs, fl


def ref_first_match(cfg, ecu):
    """the property statement: index of the first candidate having a pattern all of whose parameters match what the
    ECU answers; None if there is none. Also returns hazard flags (something that may legitimately raise)."""
    hazard = set()
    result = None
    idents = set()
    for i, v in enumerate(cfg["cands"]):
        if v["kind"] == "other":
            hazard.add("other-kind")      # the loop ends here (non-strict) or raises (strict)
            break
        svcs = {}
        for s in v["services"]:
            svcs.setdefault(s["name"], s)
        vm = False
        for pat in v["patterns"]:
            allm = True
            for p in pat:
                s = svcs.get(p["svc"])
                if s is None:
                    hazard.add("no-service")
                    allm = False
                    continue
                if s["req"].startswith("!"):
                    hazard.add("encode-raises")
                    allm = False
                    continue
                phys = True if p["phys"] is None else p["phys"] in ("none", True)
                idents.add((phys, s["req"]))
                resp = ecu[("p:" if phys else "f:") + s["req"]]
                ok, ill, rs, fl = ref_param_matches(p, v, s, resp)
                if ill:
                    hazard.add("ill-typed")
                if rs:
                    hazard.add("decode-raises")
                if fl:
                    hazard.add("float")
                allm = allm and ok
            vm = vm or allm
        if vm and result is None:
            result = i
    return result, hazard, idents


def all_ident_keys(cfg):
    """every (phys, request) a matcher may legitimately send, both addressing modes (to build ECU tables)"""
    keys = []
    for v in cfg["cands"]:
        for s in v.get("services", []):
            if not s["req"].startswith("!"):
                for a in ("p:", "f:"):
                    if a + s["req"] not in keys:
                        keys.append(a + s["req"])
    return keys


# ------------------------------------------------------------------ s-expressions for the Lean driver
def hx(s: str) -> str:
    """text -> hex atom of its UTF-8 bytes"""
    b = s.encode("utf-8")
    return b.hex() if b else "-"


def hb(h: str) -> str:
    return h if h else "-"


def sx_val(j):
    t = j[0]
    if t == "s":
        return f"(s {hx(j[1])})"
    if t == "i":
        return f"(i {j[1]})"
    if t == "b":
        return "(b t)" if j[1] else "(b f)"
    if t == "n":
        return "(n)"
    if t in "yY":
        return f"(y {hb(j[1])})"
    if t == "dtc":
        return f"(dtc {j[1]})"
    if t == "d":
        return "(d " + " ".join(f"({hx(k)} {sx_val(v)})" for k, v in j[1]) + ")"
    if t in "lt":
        render = str(py_of(j))
        return f"({t} {hx(render)} " + " ".join(sx_val(v) for v in j[1]) + ")"
    raise ValueError("not in the model's universe: " + t)


def sx_outcome(o):
    if o[0] == "val":
        return f"(val {sx_val(o[1])})"
    if o[0] == "raise":
        return f"(raise {o[1]})"
    return "(decerr)"


def sx_cfg(cfg, alphabet=None, memo=None):
    """`memo` (a dict owned by the caller, one per (candidate list, alphabet)): the text of the candidate list is built once"""
    head = f"(strict {'t' if cfg['strict'] else 'f'}) (cache {'t' if cfg['cache'] else 'f'}) "
    if memo is not None and "cands" in memo:
        return head + memo["cands"]
    if alphabet is None:
        alphabet = resp_alphabet(cfg)
    vs = []
    for v in cfg["cands"]:
        svcs = []
        for s in v.get("services", []):
            req = {"!odx": "(err odx)", "!foreign": "(err foreign)"}.get(s["req"], f"(ok {hb(s['req'])})")
            n = len(s["pos"]) + len(s["neg"]) + len(v.get("gneg", []))
            rows = []
            for h in alphabet:
                outs = svc_outcomes(v, s, h)
                if any(o[0] != "decerr" for o in outs):
                    rows.append(f"({hb(h)} {' '.join(sx_outcome(o) for o in outs)})")
            svcs.append(f"(svc {hx(s['name'])} {req} (n {n}) (dec {' '.join(rows)}))")
        pats = []
        for pat in v.get("patterns", []):
            ps = []
            for p in pat:
                snref = "none" if p["snref"] is None else f"(some {hx(p['snref'])})"
                path = "none" if p["path"] is None else f"(some {hx(p['path'])})"
                phys = {None: "plain", "none": "bnone", True: "btrue", False: "bfalse"}[p["phys"]]
                ps.append(f"(mp {hx(p['exp'])} {hx(p['svc'])} {snref} {path} {phys})")
            pats.append("(pat " + " ".join(ps) + ")")
        vs.append(f"(var {v['kind']} (pats {' '.join(pats)}) (svcs {' '.join(svcs)}))")
    body = f"(cands {' '.join(vs)})"
    if memo is not None:
        memo["cands"] = body
    return head + body


def sx_ecu(ecu):
    return "(ecu " + " ".join(f"({k[0]} {hb(k[2:])} {hb(v)})" for k, v in ecu.items()) + ")"


def sx_script(script):
    out = []
    for sess in script:
        if sess == "ecu":
            out.append("(auto)")
        else:
            out.append("(sess " + " ".join("skip" if i is None else f"(ev {hb(i)})" for i in sess) + ")")
    return "(script " + " ".join(out) + ")"


def model_line_of_obs(obs):
    """canonical text of an implementation observation, comparable with the driver's reply to `run`"""
    parts = []
    for s in obs.sessions:
        tr = " ".join(f"({'p' if ph else 'f'} {hb(r)})" for ph, r in s["trace"])
        parts.append(f"(sess (trace {tr}) {s['outcome']})")
    f = obs.final
    if isinstance(f["cache"], list):
        cache = " ".join(f"({'p' if c[0] else ('f' if c[0] is not None else 'x')} {hb(c[1])} {hb(c[2])})" for c in f["cache"])
    else:
        cache = str(f["cache"])
    m = "none" if f["match"] is None else str(f["match"])
    return (f"(ok {' '.join(parts)} (final (pending {'t' if f['pending'] is True else 'f' if f['pending'] is False else f['pending']})"
            f" (has_match {f['has_match']}) (match {m}) (recent {f['recent']}) (cache {cache})))")


# ------------------------------------------------------------------ ODX XML family (real parser, real encode/decode)
def _dct(bt, bl):
    return f'<DIAG-CODED-TYPE BASE-DATA-TYPE="{bt}" xsi:type="STANDARD-LENGTH-TYPE"><BIT-LENGTH>{bl}</BIT-LENGTH></DIAG-CODED-TYPE>'


def _const(name, val, bl=8):
    return f'<PARAM xsi:type="CODED-CONST"><SHORT-NAME>{name}</SHORT-NAME><CODED-VALUE>{val}</CODED-VALUE>{_dct("A_UINT32", bl)}</PARAM>'


def _value(name, dop):
    return f'<PARAM xsi:type="VALUE"><SHORT-NAME>{name}</SHORT-NAME><DOP-REF ID-REF="{dop}"/></PARAM>'


def _xml_escape(t):
    return t.replace("&", "&amp;").replace("<", "&lt;").replace(">", "&gt;")


def xml_text_ok(t):
    """can the text be the content of an element of an XML 1.0 document and come back unchanged? (no control characters; \r is normalised)"""
    return not any((ord(c) < 32 and c not in "\t\n") or ord(c) in (0x7f, 0xfffe, 0xffff) or 0xd800 <= ord(c) <= 0xdfff for c in t)


IDENT = "<COMPU-METHOD><CATEGORY>IDENTICAL</CATEGORY></COMPU-METHOD>"


def xml_layer(L, kind, services, patterns):
    """L: layer name; kind 'ecu'|'base'; services: [(name, did)]; patterns: list of list of param dicts (cfg format)"""
    dops = (f'<DATA-OBJECT-PROP ID="{L}.u8"><SHORT-NAME>u8</SHORT-NAME>{IDENT}{_dct("A_UINT32", 8)}<PHYSICAL-TYPE BASE-DATA-TYPE="A_UINT32"/></DATA-OBJECT-PROP>'
            f'<DATA-OBJECT-PROP ID="{L}.bf2"><SHORT-NAME>bf2</SHORT-NAME>{IDENT}{_dct("A_BYTEFIELD", 16)}<PHYSICAL-TYPE BASE-DATA-TYPE="A_BYTEFIELD"/></DATA-OBJECT-PROP>'
            # fixed-length ASCII identification texts (blank padded by the ECU)
            f'<DATA-OBJECT-PROP ID="{L}.a4"><SHORT-NAME>a4</SHORT-NAME>{IDENT}{_dct("A_ASCIISTRING", 32)}<PHYSICAL-TYPE BASE-DATA-TYPE="A_UNICODE2STRING"/></DATA-OBJECT-PROP>'
            f'<DATA-OBJECT-PROP ID="{L}.a2"><SHORT-NAME>a2</SHORT-NAME>{IDENT}{_dct("A_ASCIISTRING", 16)}<PHYSICAL-TYPE BASE-DATA-TYPE="A_UNICODE2STRING"/></DATA-OBJECT-PROP>'
            # floating point identification values: IEEE doubles and singles as sent, and an integer scaled to a float (phys = (1 + x) / 2)
            f'<DATA-OBJECT-PROP ID="{L}.f64"><SHORT-NAME>f64</SHORT-NAME>{IDENT}{_dct("A_FLOAT64", 64)}<PHYSICAL-TYPE BASE-DATA-TYPE="A_FLOAT64"/></DATA-OBJECT-PROP>'
            f'<DATA-OBJECT-PROP ID="{L}.f32"><SHORT-NAME>f32</SHORT-NAME>{IDENT}{_dct("A_FLOAT32", 32)}<PHYSICAL-TYPE BASE-DATA-TYPE="A_FLOAT32"/></DATA-OBJECT-PROP>'
            f'<DATA-OBJECT-PROP ID="{L}.lin"><SHORT-NAME>lin</SHORT-NAME><COMPU-METHOD><CATEGORY>LINEAR</CATEGORY><COMPU-INTERNAL-TO-PHYS><COMPU-SCALES>'
            f'<COMPU-SCALE><COMPU-RATIONAL-COEFFS><COMPU-NUMERATOR><V>1</V><V>1</V></COMPU-NUMERATOR><COMPU-DENOMINATOR><V>2</V></COMPU-DENOMINATOR>'
            f'</COMPU-RATIONAL-COEFFS></COMPU-SCALE></COMPU-SCALES></COMPU-INTERNAL-TO-PHYS></COMPU-METHOD>{_dct("A_UINT32", 32)}'
            f'<PHYSICAL-TYPE BASE-DATA-TYPE="A_FLOAT64"/></DATA-OBJECT-PROP>'
            # byte fields of variable length (part numbers, serial numbers): length prefixed, and "the rest of the message"
            f'<DATA-OBJECT-PROP ID="{L}.bfl"><SHORT-NAME>bfl</SHORT-NAME>{IDENT}<DIAG-CODED-TYPE BASE-DATA-TYPE="A_BYTEFIELD" '
            f'xsi:type="LEADING-LENGTH-INFO-TYPE"><BIT-LENGTH>8</BIT-LENGTH></DIAG-CODED-TYPE><PHYSICAL-TYPE BASE-DATA-TYPE="A_BYTEFIELD"/></DATA-OBJECT-PROP>'
            f'<DATA-OBJECT-PROP ID="{L}.bfe"><SHORT-NAME>bfe</SHORT-NAME>{IDENT}<DIAG-CODED-TYPE BASE-DATA-TYPE="A_BYTEFIELD" TERMINATION="END-OF-PDU" '
            f'xsi:type="MIN-MAX-LENGTH-TYPE"><MAX-LENGTH>8</MAX-LENGTH><MIN-LENGTH>0</MIN-LENGTH></DIAG-CODED-TYPE>'
            f'<PHYSICAL-TYPE BASE-DATA-TYPE="A_BYTEFIELD"/></DATA-OBJECT-PROP>')
    dtcdop = (f'<DTC-DOP ID="{L}.dtc"><SHORT-NAME>dtcdop</SHORT-NAME>{_dct("A_UINT32", 24)}<PHYSICAL-TYPE BASE-DATA-TYPE="A_UINT32"/>{IDENT}'
              f'<DTCS><DTC ID="{L}.dtc.k"><SHORT-NAME>known</SHORT-NAME><TROUBLE-CODE>291</TROUBLE-CODE><TEXT>x</TEXT></DTC></DTCS></DTC-DOP>')
    structs = (f'<STRUCTURE ID="{L}.Info"><SHORT-NAME>Info</SHORT-NAME><PARAMS>{_value("type", L + ".u8")}{_value("code", L + ".bf2")}</PARAMS></STRUCTURE>'
               f'<STRUCTURE ID="{L}.Item"><SHORT-NAME>Item</SHORT-NAME><PARAMS>{_value("type", L + ".u8")}</PARAMS></STRUCTURE>'
               f'<STRUCTURE ID="{L}.Sw"><SHORT-NAME>Sw</SHORT-NAME><PARAMS>{_value("ver", L + ".a2")}</PARAMS></STRUCTURE>'
               f'<STRUCTURE ID="{L}.Tag"><SHORT-NAME>Tag</SHORT-NAME><PARAMS>{_value("t", L + ".a2")}</PARAMS></STRUCTURE>'
               f'<STRUCTURE ID="{L}.Cal"><SHORT-NAME>Cal</SHORT-NAME><PARAMS>{_value("stamp", L + ".f64")}</PARAMS></STRUCTURE>'
               f'<STRUCTURE ID="{L}.Hw"><SHORT-NAME>Hw</SHORT-NAME><PARAMS>{_value("sn", L + ".bfl")}</PARAMS></STRUCTURE>'
               f'<STRUCTURE ID="{L}.Part"><SHORT-NAME>Part</SHORT-NAME><PARAMS>{_value("sn", L + ".bfl")}</PARAMS></STRUCTURE>')
    eopf = (f'<END-OF-PDU-FIELD ID="{L}.Items"><SHORT-NAME>Items</SHORT-NAME><BASIC-STRUCTURE-REF ID-REF="{L}.Item"/></END-OF-PDU-FIELD>'
            f'<END-OF-PDU-FIELD ID="{L}.Tags"><SHORT-NAME>Tags</SHORT-NAME><BASIC-STRUCTURE-REF ID-REF="{L}.Tag"/></END-OF-PDU-FIELD>'
            f'<END-OF-PDU-FIELD ID="{L}.Cals"><SHORT-NAME>Cals</SHORT-NAME><BASIC-STRUCTURE-REF ID-REF="{L}.Cal"/></END-OF-PDU-FIELD>'
            f'<END-OF-PDU-FIELD ID="{L}.Parts"><SHORT-NAME>Parts</SHORT-NAME><BASIC-STRUCTURE-REF ID-REF="{L}.Part"/></END-OF-PDU-FIELD>')
    ddds = (f'<DIAG-DATA-DICTIONARY-SPEC><DTC-DOPS>{dtcdop}</DTC-DOPS><DATA-OBJECT-PROPS>{dops}</DATA-OBJECT-PROPS>'
            f'<STRUCTURES>{structs}</STRUCTURES><END-OF-PDU-FIELDS>{eopf}</END-OF-PDU-FIELDS></DIAG-DATA-DICTIONARY-SPEC>')
    comms = reqs = poss = negs = ""
    for (sn, did) in services:
        comms += (f'<DIAG-SERVICE ID="{L}.{sn}"><SHORT-NAME>{sn}</SHORT-NAME><REQUEST-REF ID-REF="{L}.{sn}.rq"/>'
                  f'<POS-RESPONSE-REFS><POS-RESPONSE-REF ID-REF="{L}.{sn}.pr"/></POS-RESPONSE-REFS>'
                  f'<NEG-RESPONSE-REFS><NEG-RESPONSE-REF ID-REF="{L}.{sn}.nr"/></NEG-RESPONSE-REFS></DIAG-SERVICE>')
        reqs += f'<REQUEST ID="{L}.{sn}.rq"><SHORT-NAME>{sn}_rq</SHORT-NAME><PARAMS>{_const("sid", 0x22)}{_const("did", did)}</PARAMS></REQUEST>'
        if did == 6:        # byte field identification: lp (length prefixed), hw.sn (in a structure), pn (the rest of the message)
            body = f'{_value("lp", L + ".bfl")}{_value("hw", L + ".Hw")}{_value("pn", L + ".bfe")}'
        elif did == 7:      # ... lp, hw.sn, parts[].sn (the items of a field)
            body = f'{_value("lp", L + ".bfl")}{_value("hw", L + ".Hw")}{_value("parts", L + ".Parts")}'
        elif did >= 4:      # floating point identification: stamp (double), ratio (single), scaled (uint32 -> (1 + x) / 2), cal.stamp, cals[].stamp
            body = (f'{_value("stamp", L + ".f64")}{_value("ratio", L + ".f32")}{_value("scaled", L + ".lin")}{_value("cal", L + ".Cal")}'
                    f'{_value("cals", L + ".Cals")}')
        elif did == 3:      # text identification: name (4 characters), sw.ver (2 characters), tags[].t (2 characters each)
            body = f'{_value("name", L + ".a4")}{_value("sw", L + ".Sw")}{_value("tags", L + ".Tags")}'
        else:
            body = f'{_value("id", L + ".u8")}{_value("info", L + ".Info")}{_value("dtc", L + ".dtc")}{_value("items", L + ".Items")}'
        poss += (f'<POS-RESPONSE ID="{L}.{sn}.pr"><SHORT-NAME>{sn}_pr</SHORT-NAME><PARAMS>{_const("sid", 0x62)}{_const("did", did)}'
                 f'{body}</PARAMS></POS-RESPONSE>')
        negs += (f'<NEG-RESPONSE ID="{L}.{sn}.nr"><SHORT-NAME>{sn}_nr</SHORT-NAME><PARAMS>{_const("sid", 0x7F)}{_const("rsid", 0x22)}'
                 f'{_value("nrc", L + ".u8")}</PARAMS></NEG-RESPONSE>')
    gneg = (f'<GLOBAL-NEG-RESPONSE ID="{L}.gnr"><SHORT-NAME>gnr</SHORT-NAME><PARAMS>{_const("sid", 0x7F)}'
            f'{_value("rsid", L + ".u8")}{_value("nrc", L + ".u8")}</PARAMS></GLOBAL-NEG-RESPONSE>')

    def mp_xml(p, tag):
        out = "none"
        if p["snref"] is not None:
            out = f'<OUT-PARAM-IF-SNREF SHORT-NAME="{p["snref"]}"/>'
        elif p["path"] is not None:
            out = f'<OUT-PARAM-IF-SNPATHREF SHORT-NAME-PATH="{p["path"]}"/>'
        phys = ""
        if p["phys"] in (True, False):
            phys = f'<USE-PHYSICAL-ADDRESSING>{"true" if p["phys"] else "false"}</USE-PHYSICAL-ADDRESSING>'
        # the text is written verbatim (XML-escaped): white space in an EXPECTED-VALUE is part of the value
        return (f'<{tag}><EXPECTED-VALUE>{_xml_escape(p["exp"])}</EXPECTED-VALUE><DIAG-COMM-SNREF SHORT-NAME="{p["svc"]}"/>{out}{phys}</{tag}>')

    if kind == "ecu":
        pats = "".join('<ECU-VARIANT-PATTERN><MATCHING-PARAMETERS>' + "".join(mp_xml(p, "MATCHING-PARAMETER") for p in pat)
                       + '</MATCHING-PARAMETERS></ECU-VARIANT-PATTERN>' for pat in patterns)
        pats = f"<ECU-VARIANT-PATTERNS>{pats}</ECU-VARIANT-PATTERNS>" if patterns else ""
        tag = "ECU-VARIANT"
    else:
        pats = "".join('<BASE-VARIANT-PATTERN><MATCHING-BASE-VARIANT-PARAMETERS>'
                       + "".join(mp_xml(p, "MATCHING-BASE-VARIANT-PARAMETER") for p in pat)
                       + '</MATCHING-BASE-VARIANT-PARAMETERS></BASE-VARIANT-PATTERN>' for pat in patterns[:1])
        tag = "BASE-VARIANT"
    return (f'<{tag} ID="{L}"><SHORT-NAME>{L}</SHORT-NAME>{ddds}<DIAG-COMMS>{comms}</DIAG-COMMS><REQUESTS>{reqs}</REQUESTS>'
            f'<POS-RESPONSES>{poss}</POS-RESPONSES><NEG-RESPONSES>{negs}</NEG-RESPONSES>'
            f'<GLOBAL-NEG-RESPONSES>{gneg}</GLOBAL-NEG-RESPONSES>{pats}</{tag}>')


def xml_load(layers):
    """layers: [(name, kind, services, patterns)] -> (database, [layer objects in the given order])"""
    from xml.etree import ElementTree as ET
    bvs = "".join(xml_layer(*l) for l in layers if l[1] == "base")
    evs = "".join(xml_layer(*l) for l in layers if l[1] == "ecu")
    body = (f"<BASE-VARIANTS>{bvs}</BASE-VARIANTS>" if bvs else "") + (f"<ECU-VARIANTS>{evs}</ECU-VARIANTS>" if evs else "")
    xml = ('<?xml version="1.0"?><ODX MODEL-VERSION="2.2.0" xmlns:xsi="http://www.w3.org/2001/XMLSchema-instance">'
           f'<DIAG-LAYER-CONTAINER ID="dlc"><SHORT-NAME>dlc</SHORT-NAME>{body}</DIAG-LAYER-CONTAINER></ODX>')
    db = Database()
    db._process_xml_tree(ET.fromstring(xml))
    db.refresh()
    return db, [db.diag_layers[l[0]] for l in layers]


def document_patterns(layers):
    """the matching parameters as they are *written in the ODX document* (cfg format), per layer in the given order.
    The reference and the model are fed with these, the real matcher with whatever the loader made of them, so that
    the load path (MatchingParameter.from_et & co.) is inside the checked system."""
    out = []
    for (_name, kind, _svcs, patterns) in layers:
        pats = patterns if kind == "ecu" else patterns[:1]
        out.append([[{"exp": p["exp"], "svc": p["svc"], "snref": p["snref"], "path": p["path"],
                      "phys": (None if kind == "ecu" else ("none" if p["phys"] in (None, "none") else p["phys"]))}
                     for p in pat] for pat in pats])
    return out


def with_document_patterns(cfg, layers):
    """cfg (from cfg_from_objects) with the patterns replaced by those of the document; also returns the number of
    matching parameters whose loaded fields differ from the document"""
    docs = document_patterns(layers)
    cands, differ = [], 0
    for v, pats in zip(cfg["cands"], docs):
        if v["kind"] == "other":
            cands.append(v)
            continue
        if json.dumps(v["patterns"], sort_keys=True) != json.dumps(pats, sort_keys=True):
            differ += 1
        cands.append(dict(v, patterns=pats))
    return dict(cfg, cands=cands), differ


def cfg_from_objects(objs, strict, cache, alphabet):
    """derive the JSON configuration (for the model and the reference) from real layer objects: requests by the real
    `encode_request`, decode tables by the real `Response.decode` on every response of the alphabet"""
    old = odxexc.strict_mode
    odxexc.strict_mode = bool(strict)
    try:
        cands = []
        for o in objs:
            if isinstance(o, EcuVariant):
                kind, pats = "ecu", [list(p.get_matching_parameters()) for p in o.ecu_variant_patterns]
            elif isinstance(o, BaseVariant):
                kind = "base"
                pats = [list(o.base_variant_pattern.get_matching_parameters())] if o.base_variant_pattern is not None else []
            else:
                cands.append({"kind": "other", "name": "?", "patterns": [], "services": [], "gneg": []})
                continue

            def table(resp):
                t = {}
                for h in alphabet:
                    try:
                        t[h] = ["val", json_of(resp.decode(bytes.fromhex(h)))]
                    except DecodeError:
                        pass
                    except Exception as e:  # noqa
                        t[h] = ["raise", "odx" if isinstance(e, OdxError) else "foreign"]
                return t

            svcs = []
            for s in o.services:
                if not isinstance(s, DiagService):
                    continue
                try:
                    req = s.encode_request().hex()
                except Exception as e:  # noqa
                    req = "!odx" if isinstance(e, OdxError) else "!foreign"
                svcs.append({"name": s.short_name, "req": req, "pos": [table(r) for r in s.positive_responses],
                             "neg": [table(r) for r in s.negative_responses]})
            jp = []
            for pat in pats:
                jp.append([{"exp": p.expected_value, "svc": p.diag_comm_snref, "snref": p.out_param_if_snref,
                            "path": p.out_param_if_snpathref,
                            "phys": (None if not isinstance(p, MatchingBaseVariantParameter)
                                     else ("none" if p.use_physical_addressing_raw is None else p.use_physical_addressing_raw))}
                           for p in pat])
            cands.append({"kind": kind, "name": o.short_name, "patterns": jp, "services": svcs,
                          "gneg": [table(r) for r in o.global_negative_responses]})
        return {"strict": bool(strict), "cache": bool(cache), "cands": cands}
    finally:
        odxexc.strict_mode = old
