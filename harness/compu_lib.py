"""Compu methods for the verification harness (property C07; reused by C03).

Three representations of one compu method and the conversions between them:

* **desc** – a JSON-able dict (the harness' own description; also the replay witness format)

      desc  = {"cat": "LINEAR", "ity": "A_UINT32", "pty": "A_FLOAT64",
               "i2p": {"scales": [scale, ...], "default": val|None} | None,      # COMPU-INTERNAL-TO-PHYS
               "p2i": {"scales": [scale, ...], "default": val|None} | None}      # COMPU-PHYS-TO-INTERNAL
      scale = {"lo": limit|None, "hi": limit|None, "inv": val|None, "const": val|None,
               "num": [val, ...]|None, "den": [val, ...]}                        # COMPU-RATIONAL-COEFFS
      limit = {"v": val|None, "t": "OPEN"|"CLOSED"|"INFINITE"|None}
      val   = ["i", 5] | ["f", "5/2"] | ["s", "text"]     # float values are exact rationals (dyadic => exact double)

* the **odxtools object** – `build(desc)` constructs it with the real constructors (no XML);
  `desc_of_cm(cm)` reads any odxtools compu method object (e.g. one loaded from a PDX/ODX file) back into a desc.
* the **driver request** – `request(desc, queries)` is one line for `drv_compu`
  (lean/Driver/Compu.lean): `(compu <desc> (q (i2p <val>) (p2i <val>) (vi <val>) (vp <val>) ...))`;
  the reply is `(r <res> ...)` with `<res>` = `(ok <val>)`, `(ok t)`, `(ok f)`, `(err decode|encode|odx|foreign)`,
  or `(build (err <class>))` when the model's constructor rejects the description.
  `parse_reply(line)` turns it into the same canonical Python form that `call(cm, op, value)` produces for the
  implementation: `("ok", val)`, `("ok", True/False)`, `("err", "decode"|"encode"|"odx"|"foreign:<Type>")`.

Also here: the exact reference semantics (`Spec` below, fractions.Fraction only – mirrors
lean/OdxVerif/Spec/CompuExact.lean, *not* the model) and the generators for all eight categories.
All numbers travel as exact rationals "n/d"; nothing is ever compared as float text.
"""
from fractions import Fraction as Fr
import math

INT_TYPES = ("A_INT32", "A_UINT32")
FLOAT_TYPES = ("A_FLOAT32", "A_FLOAT64")
NUM_TYPES = INT_TYPES + FLOAT_TYPES
STR_TYPES = ("A_UNICODE2STRING", "A_UTF8STRING", "A_ASCIISTRING")
CATEGORIES = ("IDENTICAL", "LINEAR", "SCALE-LINEAR", "TAB-INTP", "RAT-FUNC", "SCALE-RAT-FUNC", "TEXTTABLE", "COMPUCODE")
EPS = Fr(1, 10**10)     # the 1e-10 thresholds of linearsegment.py / scalelinearcompumethod.py


# ------------------------------------------------------------------ values
def vi(n):
    return ["i", int(n)]


def vf(q):
    q = Fr(q)
    return ["f", f"{q.numerator}/{q.denominator}"]


def vs(s):
    return ["s", s]


def vnum(q, ty):
    """numeric value of the Python type that odxtools stores for base type `ty`"""
    return vi(q) if ty in INT_TYPES else vf(q)


def is_num(v):
    return v is not None and v[0] in ("i", "f")


_FRAC = {}


def frac(v):
    """exact rational of a numeric val (parsed once per distinct text)"""
    k = v[1]
    r = _FRAC.get(k)
    if r is None:
        if len(_FRAC) > 400000:
            _FRAC.clear()
        r = _FRAC[k] = Fr(k)
    return r


_PYF = {}


def pyval(v):
    """val -> the Python object handed to odxtools"""
    if v is None:
        return None
    if v[0] == "i":
        return int(v[1])
    if v[0] == "f":
        x = _PYF.get(v[1])
        if x is None:
            q = Fr(v[1])
            if len(_PYF) > 400000:
                _PYF.clear()
            x = _PYF[v[1]] = q.numerator / q.denominator
        return x
    return v[1]


def val_of_py(x):
    """Python object returned by odxtools -> val (None for objects outside the value universe)"""
    if isinstance(x, bool):
        return ["i", int(x)]
    if isinstance(x, int):
        return ["i", x]
    if isinstance(x, float):
        if not math.isfinite(x):
            return ["f", "nan"]
        q = Fr(x)
        return ["f", f"{q.numerator}/{q.denominator}"]
    if isinstance(x, str):
        return ["s", x]
    return None


def as_double(v):
    """a float val is a double: the sum of a non-dyadic double and an offset is replaced by the double nearest to it (what
    `pyval` hands to the implementation anyway), so that Spec and implementation see the same number"""
    if v is not None and v[0] == "f" and v[1] != "nan":
        q = frac(v)
        if q.denominator & (q.denominator - 1) or q.numerator.bit_length() > 53:
            if not exact_double(q):
                return vf(Fr(q.numerator / q.denominator))
    return v


def exact_double(q):
    """is the rational q exactly representable as an IEEE double (what Python computes with)?"""
    q = Fr(q)
    try:
        return Fr(q.numerator / q.denominator) == q
    except OverflowError:
        return False


def _raw(v):
    x = pyval(v)
    return repr(x) if isinstance(x, float) else str(x)


# ------------------------------------------------------------------ desc -> odxtools object
def _odx():
    from odxtools.compumethods.compucodecompumethod import CompuCodeCompuMethod
    from odxtools.compumethods.compuconst import CompuConst
    from odxtools.compumethods.compudefaultvalue import CompuDefaultValue
    from odxtools.compumethods.compuinternaltophys import CompuInternalToPhys
    from odxtools.compumethods.compumethod import CompuCategory
    from odxtools.compumethods.compuphystointernal import CompuPhysToInternal
    from odxtools.compumethods.compurationalcoeffs import CompuRationalCoeffs
    from odxtools.compumethods.compuscale import CompuScale
    from odxtools.compumethods.identicalcompumethod import IdenticalCompuMethod
    from odxtools.compumethods.limit import IntervalType, Limit
    from odxtools.compumethods.linearcompumethod import LinearCompuMethod
    from odxtools.compumethods.ratfunccompumethod import RatFuncCompuMethod
    from odxtools.compumethods.scalelinearcompumethod import ScaleLinearCompuMethod
    from odxtools.compumethods.scaleratfunccompumethod import ScaleRatFuncCompuMethod
    from odxtools.compumethods.tabintpcompumethod import TabIntpCompuMethod
    from odxtools.compumethods.texttablecompumethod import TexttableCompuMethod
    from odxtools.odxtypes import DataType
    return locals()


_O = None


def O():
    global _O
    if _O is None:
        _O = _odx()
    return _O


def _const(v, ty):
    o = O()
    if v is None:
        return None
    if v[0] == "s":
        return o["CompuConst"](v=None, vt=v[1], data_type=o["DataType"](ty))
    return o["CompuConst"](v=_raw(v), vt=None, data_type=o["DataType"](ty))


def _limit(l, ty):
    o = O()
    if l is None:
        return None
    return o["Limit"](value_raw=None if l["v"] is None else _raw(l["v"]), value_type=o["DataType"](ty),
                      interval_type=None if l["t"] is None else o["IntervalType"](l["t"]))


def _scale(s, dom, rng):
    o = O()
    coeffs = None
    if s.get("num") is not None:
        coeffs = o["CompuRationalCoeffs"](value_type=o["DataType"](rng), numerators=[pyval(x) for x in s["num"]],
                                          denominators=[pyval(x) for x in s.get("den") or []])
    return o["CompuScale"](short_label=None, description=None, lower_limit=_limit(s.get("lo"), dom),
                           upper_limit=_limit(s.get("hi"), dom), compu_inverse_value=_const(s.get("inv"), dom),
                           compu_const=_const(s.get("const"), rng), compu_rational_coeffs=coeffs,
                           domain_type=o["DataType"](dom), range_type=o["DataType"](rng))


def _default(v, ty, as_v):
    """COMPU-DEFAULT-VALUE: TEXTTABLE reads `vt` of the internal-to-phys default and `v` of the phys-to-internal one"""
    o = O()
    if v is None:
        return None
    if v[0] == "s" and not as_v:
        return o["CompuDefaultValue"](v=None, vt=v[1], data_type=o["DataType"](ty), compu_inverse_value=None)
    return o["CompuDefaultValue"](v=_raw(v), vt=None, data_type=o["DataType"](ty), compu_inverse_value=None)


def build(desc):
    """construct the odxtools compu method described by `desc` (raises whatever the constructors raise)"""
    o = O()
    ity, pty = desc["ity"], desc["pty"]
    i2p = p2i = None
    if desc.get("i2p") is not None:
        i2p = o["CompuInternalToPhys"](compu_scales=[_scale(s, ity, pty) for s in desc["i2p"]["scales"]], prog_code=None,
                                       compu_default_value=_default(desc["i2p"].get("default"), pty, False))
    if desc.get("p2i") is not None:
        p2i = o["CompuPhysToInternal"](compu_scales=[_scale(s, pty, ity) for s in desc["p2i"]["scales"]], prog_code=None,
                                       compu_default_value=_default(desc["p2i"].get("default"), ity, True))
    cls = {"IDENTICAL": "IdenticalCompuMethod", "LINEAR": "LinearCompuMethod", "SCALE-LINEAR": "ScaleLinearCompuMethod",
           "TAB-INTP": "TabIntpCompuMethod", "RAT-FUNC": "RatFuncCompuMethod", "SCALE-RAT-FUNC": "ScaleRatFuncCompuMethod",
           "TEXTTABLE": "TexttableCompuMethod", "COMPUCODE": "CompuCodeCompuMethod"}[desc["cat"]]
    return o[cls](category=o["CompuCategory"](desc["cat"]), compu_internal_to_phys=i2p, compu_phys_to_internal=p2i,
                  physical_type=o["DataType"](pty), internal_type=o["DataType"](ity))


# ------------------------------------------------------------------ desc -> ODX XML -> odxtools object (round 6)
# The second way into the anchored code: the description is written as the COMPU-METHOD element of a
# DATA-OBJECT-PROP and read by the real loader (`DataObjectProperty.from_et` -> `create_any_compu_method_from_et`
# -> `*.compu_method_from_et` -> `CompuScale.compuscale_from_et`, `Limit.limit_from_et`, `CompuConst/
# CompuInverseValue/CompuDefaultValue.compuvalue_from_et`, `CompuRationalCoeffs.coeffs_from_et`).
# The emitter below is the harness' own (~40 lines); it mirrors `build` field by field.
CODED_BITS = {"A_UINT32": 32, "A_INT32": 32, "A_FLOAT32": 32, "A_FLOAT64": 64}
XSI = 'xmlns:xsi="http://www.w3.org/2001/XMLSchema-instance"'


def _esc(t):
    return t.replace("&", "&amp;").replace("<", "&lt;").replace(">", "&gt;")


def _xml_v(tag, v):
    """a V/VT value union: texts as VT, numbers as V (what `_const` hands to the constructors)"""
    if v is None:
        return ""
    inner = f"<VT>{_esc(v[1])}</VT>" if v[0] == "s" else f"<V>{_raw(v)}</V>"
    return f"<{tag}>{inner}</{tag}>"


def _xml_limit(tag, l):
    if l is None:
        return ""
    a = f' INTERVAL-TYPE="{l["t"]}"' if l["t"] is not None else ""
    if l["v"] is None:
        return f"<{tag}{a}/>"
    return f"<{tag}{a}>{_esc(_raw(l['v']))}</{tag}>"


def _xml_scale(s):
    out = ["<COMPU-SCALE>", _xml_limit("LOWER-LIMIT", s.get("lo")), _xml_limit("UPPER-LIMIT", s.get("hi")),
           _xml_v("COMPU-INVERSE-VALUE", s.get("inv")), _xml_v("COMPU-CONST", s.get("const"))]
    if s.get("num") is not None:
        out.append("<COMPU-RATIONAL-COEFFS><COMPU-NUMERATOR>" + "".join(f"<V>{_raw(x)}</V>" for x in s["num"]) + "</COMPU-NUMERATOR>")
        if s.get("den"):
            out.append("<COMPU-DENOMINATOR>" + "".join(f"<V>{_raw(x)}</V>" for x in s["den"]) + "</COMPU-DENOMINATOR>")
        out.append("</COMPU-RATIONAL-COEFFS>")
    out.append("</COMPU-SCALE>")
    return "".join(out)


def _xml_side(tag, side, default_as_v):
    if side is None:
        return ""
    out = [f"<{tag}>"]
    if side["scales"]:
        out.append("<COMPU-SCALES>" + "".join(_xml_scale(s) for s in side["scales"]) + "</COMPU-SCALES>")
    dv = side.get("default")
    if dv is not None:
        if dv[0] == "s" and not default_as_v:
            out.append(f"<COMPU-DEFAULT-VALUE><VT>{_esc(dv[1])}</VT></COMPU-DEFAULT-VALUE>")
        else:
            out.append(f"<COMPU-DEFAULT-VALUE><V>{_esc(_raw(dv))}</V></COMPU-DEFAULT-VALUE>")
    out.append(f"</{tag}>")
    return "".join(out)


def xml_of_desc(desc):
    """the COMPU-METHOD element of the description"""
    return (f"<COMPU-METHOD><CATEGORY>{desc['cat']}</CATEGORY>" + _xml_side("COMPU-INTERNAL-TO-PHYS", desc.get("i2p"), False) +
            _xml_side("COMPU-PHYS-TO-INTERNAL", desc.get("p2i"), True) + "</COMPU-METHOD>")


def xml_expressible(desc):
    """XML cannot tell an empty limit text from an absent one (`<LOWER-LIMIT></LOWER-LIMIT>` has no text): descriptions
    with an empty string as limit value have no XML form"""
    for side in (desc.get("i2p"), desc.get("p2i")):
        for s in (side or {}).get("scales") or []:
            for l in (s.get("lo"), s.get("hi")):
                if l is not None and l["v"] is not None and l["v"][0] == "s" and l["v"][1] == "":
                    return False
    return True


def dop_xml(desc):
    """a DATA-OBJECT-PROP around the compu method: standard-length coded type of the internal type (32/64 bit)"""
    ity = desc["ity"]
    return (f'<DATA-OBJECT-PROP ID="dop.c07" {XSI}><SHORT-NAME>c07</SHORT-NAME>' + xml_of_desc(desc) +
            f'<DIAG-CODED-TYPE BASE-DATA-TYPE="{ity}" xsi:type="STANDARD-LENGTH-TYPE"><BIT-LENGTH>{CODED_BITS[ity]}</BIT-LENGTH>'
            f'</DIAG-CODED-TYPE><PHYSICAL-TYPE BASE-DATA-TYPE="{desc["pty"]}"/></DATA-OBJECT-PROP>')


def load_xml(desc):
    """-> (compu method, DOP or None, None) or (None, None, error class).  Numeric internal types are loaded as a whole
    DATA-OBJECT-PROP (the compu method is `dop.compu_method`), string internal types through
    `create_any_compu_method_from_et` alone."""
    try:
        from xml.etree import ElementTree
        from odxtools.odxlink import OdxDocFragment
        frags = [OdxDocFragment("c07", "CONTAINER")]
        if desc["ity"] in CODED_BITS:
            from odxtools.dataobjectproperty import DataObjectProperty
            dop = DataObjectProperty.from_et(ElementTree.fromstring(dop_xml(desc)), frags)
            return dop.compu_method, dop, None
        from odxtools.compumethods.createanycompumethod import create_any_compu_method_from_et
        o = O()
        cm = create_any_compu_method_from_et(ElementTree.fromstring(xml_of_desc(desc)), frags,
                                             internal_type=o["DataType"](desc["ity"]), physical_type=o["DataType"](desc["pty"]))
        return cm, None, None
    except Exception as e:  # noqa: the code under test may raise anything
        return None, None, err_class(e)


def coded_bytes(ity, z):
    """the bytes of internal value z in the coded type of `dop_xml` (big endian, two's complement / IEEE), None when z
    does not fit, is not exactly representable or is not of the Python type the coded type yields (int / float)"""
    import struct
    try:
        if ity == "A_UINT32":
            return int(z[1]).to_bytes(4, "big") if z[0] == "i" and 0 <= int(z[1]) < 2**32 else None
        if ity == "A_INT32":
            return int(z[1]).to_bytes(4, "big", signed=True) if z[0] == "i" and -2**31 <= int(z[1]) < 2**31 else None
        if z[0] != "f" or z[1] == "nan":
            return None
        fmt = ">f" if ity == "A_FLOAT32" else ">d"
        b = struct.pack(fmt, float(pyval(z)))
        return b if Fr(struct.unpack(fmt, b)[0]) == frac(z) else None
    except (OverflowError, ValueError, struct.error):
        return None


def coded_value(ity, hexstr):
    """the internal value that the bytes of the coded type of `dop_xml` stand for (None: wrong length)"""
    import struct
    try:
        b = bytes.fromhex(hexstr)
        if len(b) * 8 != CODED_BITS[ity]:
            return None
        if ity in INT_TYPES:
            return vi(int.from_bytes(b, "big", signed=(ity == "A_INT32")))
        return val_of_py(struct.unpack(">f" if ity == "A_FLOAT32" else ">d", b)[0])
    except (ValueError, struct.error):
        return None


def dop_encode(dop, p):
    """DataObjectProperty.encode_into_pdu of a single value -> ('ok', hex) | ('err', class); never raises"""
    try:
        from odxtools.encodestate import EncodeState
        es = EncodeState(is_end_of_pdu=True)
        dop.encode_into_pdu(pyval(p), es)
        return ("ok", bytes(es.coded_message).hex())
    except Exception as e:  # noqa
        return ("err", err_class(e))


def dop_decode(dop, raw):
    """DataObjectProperty.decode_from_pdu of a single value -> ('ok', val) | ('err', class); never raises"""
    try:
        from odxtools.decodestate import DecodeState
        r = dop.decode_from_pdu(DecodeState(coded_message=bytes(raw)))
        w = val_of_py(r)
        return ("ok", w) if w is not None else ("err", "foreign:returned-" + type(r).__name__)
    except Exception as e:  # noqa
        return ("err", err_class(e))


# ------------------------------------------------------------------ odxtools object -> desc
def _val_of_const(c):
    return None if c is None else val_of_py(c.value)


def _limit_of(l):
    if l is None:
        return None
    return {"v": val_of_py(l.value) if l.value is not None else None,
            "t": None if l.interval_type is None else l.interval_type.value}


def _scale_of(s):
    d = {"lo": _limit_of(s.lower_limit), "hi": _limit_of(s.upper_limit), "inv": _val_of_const(s.compu_inverse_value),
         "const": _val_of_const(s.compu_const), "num": None, "den": []}
    if s.compu_rational_coeffs is not None:
        d["num"] = [val_of_py(x) for x in s.compu_rational_coeffs.numerators]
        d["den"] = [val_of_py(x) for x in s.compu_rational_coeffs.denominators]
    return d


def desc_of_cm(cm):
    """read an odxtools compu method object (constructed directly or loaded from XML) into a desc.
    TEXTTABLE defaults follow what the class itself uses: `vt` of the internal-to-phys default,
    `v` of the phys-to-internal default."""
    cat = cm.category.value
    d = {"cat": cat, "ity": cm.internal_type.value, "pty": cm.physical_type.value, "i2p": None, "p2i": None}
    if cm.compu_internal_to_phys is not None:
        c = cm.compu_internal_to_phys
        dv = None
        if c.compu_default_value is not None:
            dv = vs(c.compu_default_value.vt) if c.compu_default_value.vt is not None else _val_of_const(c.compu_default_value)
        d["i2p"] = {"scales": [_scale_of(s) for s in c.compu_scales], "default": dv}
    if cm.compu_phys_to_internal is not None:
        c = cm.compu_phys_to_internal
        dv = None
        if c.compu_default_value is not None and c.compu_default_value.v is not None:
            dv = val_of_py(cm.internal_type.from_string(c.compu_default_value.v))
        d["p2i"] = {"scales": [_scale_of(s) for s in c.compu_scales], "default": dv}
    return d


# ------------------------------------------------------------------ desc -> driver request
def _hex(s):
    b = s.encode("utf-8")
    return b.hex() if b else "-"


def sx_val(v):
    if v is None:
        return "none"
    if v[0] == "i":
        return f"(i {v[1]})"
    if v[0] == "f":
        return f"(f {v[1]})"
    return f"(s {_hex(v[1])})"


def _sx_limit(l):
    return f"({l['t'] or 'none'} {sx_val(l['v'])})"


def _sx_rat(v):
    q = frac(v)
    return f"{q.numerator}/{q.denominator}"


def _sx_scale(s):
    parts = []
    for k in ("lo", "hi"):
        if s.get(k) is not None:
            parts.append(f"({k} {_sx_limit(s[k])})")
    for k in ("inv", "const"):
        if s.get(k) is not None:
            parts.append(f"({k} {sx_val(s[k])})")
    if s.get("num") is not None:
        parts.append(f"(num {' '.join(_sx_rat(x) for x in s['num'])})")
        parts.append(f"(den {' '.join(_sx_rat(x) for x in s.get('den') or [])})")
    return "(scale " + " ".join(parts) + ")" if parts else "(scale)"


def _sx_side(key, side):
    if side is None:
        return ""
    d = f" (default {sx_val(side['default'])})" if side.get("default") is not None else ""
    return f" ({key} (scales {' '.join(_sx_scale(s) for s in side['scales'])}){d})"


def sx_desc(desc):
    return (f"(cat {desc['cat']}) (ity {desc['ity']}) (pty {desc['pty']})" + _sx_side("i2p", desc.get("i2p")) +
            _sx_side("p2i", desc.get("p2i")))


OPS = ("i2p", "p2i", "vi", "vp")


def request(desc, queries):
    """queries: list of (op, val) with op in OPS"""
    return f"(compu {sx_desc(desc)} (q {' '.join(f'({op} {sx_val(v)})' for op, v in queries)}))"


def _tok(line):
    out, cur = [], ""
    for ch in line:
        if ch in "() ":
            if cur:
                out.append(cur); cur = ""
            if ch != " ":
                out.append(ch)
        else:
            cur += ch
    if cur:
        out.append(cur)
    return out


def _parse(toks):
    stack = [[]]
    for t in toks:
        if t == "(":
            stack.append([])
        elif t == ")":
            x = stack.pop(); stack[-1].append(x)
        else:
            stack[-1].append(t)
    return stack[0][0]


def _res(x):
    if x[0] == "err":
        return ("err", x[1])
    v = x[1]
    if v == "t":
        return ("ok", True)
    if v == "f":
        return ("ok", False)
    if v[0] == "i":
        return ("ok", ["i", int(v[1])])
    if v[0] == "f":
        q = Fr(v[1])
        return ("ok", ["f", f"{q.numerator}/{q.denominator}"])
    s = "" if v[1] == "-" else bytes.fromhex(v[1]).decode("utf-8")
    return ("ok", ["s", s])


def parse_reply(line, n):
    """-> list of n canonical results; a constructor rejection is repeated for every query as ('build', class)"""
    t = _parse(_tok(line))
    if t[0] == "build":
        return [("build", t[1][1])] * n
    if t[0] != "r" or len(t) != n + 1:
        raise ValueError(f"unexpected driver reply: {line[:200]}")
    return [_res(x) for x in t[1:]]


# ------------------------------------------------------------------ the implementation, canonically
def err_class(e):
    from odxtools.exceptions import DecodeError, EncodeError, OdxError
    if isinstance(e, EncodeError):
        return "encode"
    if isinstance(e, DecodeError):
        return "decode"
    if isinstance(e, OdxError):
        return "odx"
    return "foreign:" + type(e).__name__


def canon_err(c):
    """error classes are compared without the concrete foreign type"""
    return "foreign" if c.startswith("foreign") else c


METHOD = {"i2p": "convert_internal_to_physical", "p2i": "convert_physical_to_internal",
          "vi": "is_valid_internal_value", "vp": "is_valid_physical_value"}


def call(cm, op, v):
    """run one operation of the real code; never raises"""
    try:
        r = getattr(cm, METHOD[op])(pyval(v))
    except Exception as e:  # noqa: the code under test may raise anything
        return ("err", err_class(e))
    if op in ("vi", "vp"):
        return ("ok", bool(r)) if isinstance(r, bool) else ("ok", val_of_py(r))
    w = val_of_py(r)
    return ("ok", w) if w is not None else ("err", "foreign:returned-" + type(r).__name__)


def try_build(desc):
    """-> (cm, None) or (None, error class)"""
    try:
        return build(desc), None
    except Exception as e:  # noqa
        return None, err_class(e)


def same(a, b):
    """canonical comparison of a model result and an implementation result"""
    if a[0] != b[0]:
        return False
    if a[0] in ("err", "build"):
        return canon_err(a[1]) == canon_err(b[1])
    if isinstance(a[1], bool) or isinstance(b[1], bool):
        return a[1] is b[1]
    if a[1][0] != b[1][0]:
        return False
    if a[1][0] == "f":
        return a[1][1] != "nan" and b[1][1] != "nan" and Fr(a[1][1]) == Fr(b[1][1])
    return a[1][1] == b[1][1]


# ------------------------------------------------------------------ exact reference semantics (Spec)
def round_nearest_ok(z, q):
    """z is an integer nearest to q (ties: either neighbour)"""
    return abs(Fr(z) - q) * 2 <= 1


def round_half_even(q):
    q = Fr(q)
    f = math.floor(q)
    r = q - f
    if r * 2 < 1:
        return f
    if r * 2 > 1:
        return f + 1
    return f if f % 2 == 0 else f + 1


def admissible(ty, v):
    """the Python type odxtools stores for base type `ty` (floats also admit ints)"""
    if v is None:
        return False
    if ty in INT_TYPES:
        return v[0] == "i"
    if ty in FLOAT_TYPES:
        return v[0] in ("i", "f")
    if ty in STR_TYPES:
        return v[0] == "s"
    return False


def lower_ok(l, x):
    """interval semantics of a lower limit: CLOSED (or no type) a<=x, OPEN a<x, INFINITE / no value: true"""
    if l is None or l["v"] is None or l["t"] == "INFINITE":
        return True
    a = l["v"]
    if is_num(a) != is_num(x):
        return None            # incomparable
    lt, eq = (frac(a) < frac(x), frac(a) == frac(x)) if is_num(a) else (a[1] < x[1], a[1] == x[1])
    return lt if l["t"] == "OPEN" else (lt or eq)


def upper_ok(l, x):
    if l is None or l["v"] is None or l["t"] == "INFINITE":
        return True
    a = l["v"]
    if is_num(a) != is_num(x):
        return None
    gt, eq = (frac(a) > frac(x), frac(a) == frac(x)) if is_num(a) else (a[1] > x[1], a[1] == x[1])
    return gt if l["t"] == "OPEN" else (gt or eq)


def inside(s, x):
    """x lies inside the limits of a numeric scale (an absent limit is unbounded)"""
    a, b = lower_ok(s.get("lo"), x), upper_ok(s.get("hi"), x)
    if a is None or b is None:
        return None
    return a and b


def veq(a, b):
    """Python == on values"""
    if a is None or b is None:
        return a is b
    if is_num(a) and is_num(b):
        return frac(a) == frac(b)
    return a[0] == b[0] and a[1] == b[1]


def text_applies(s, x):
    """COMPU-SCALE applicability as ODX 7.3.6.6.1 defines it: only one limit given => that single value"""
    lo, hi = s.get("lo"), s.get("hi")
    if lo is None and hi is None:
        return True
    if hi is None:
        return veq(x, lo["v"])
    if lo is None:
        return veq(x, hi["v"])
    return inside(s, x)


def poly(cs, x):
    r = Fr(0)
    for k, c in enumerate(cs):
        r += frac(c) * x ** k
    return r


def lin_coeffs(s):
    """(offset, factor, denominator) of a linear scale"""
    num, den = s["num"], s.get("den") or []
    o = frac(num[0])
    f = frac(num[1]) if len(num) > 1 else Fr(0)
    d = frac(den[0]) if den else Fr(1)
    return o, f, d


def _memo(fn):
    """per-Spec memo of a one-value query (the two routes of c07.py ask the same questions); exceptions are not cached"""
    name = fn.__name__

    def w(self, x, *a):
        if a or not isinstance(x, list) or len(x) != 2:
            return fn(self, x, *a)
        k = (name, x[0], x[1])
        try:
            return self._memo[k]
        except KeyError:
            r = self._memo[k] = fn(self, x)
            return r
        except TypeError:       # unhashable value
            return fn(self, x)
    w.__name__ = name
    w.__doc__ = fn.__doc__
    return w


class Spec:
    """exact ODX semantics of a desc; every method returns None where the formula is undefined"""

    def __init__(self, desc):
        self.d = desc
        self.cat, self.ity, self.pty = desc["cat"], desc["ity"], desc["pty"]
        self.fwd = (desc.get("i2p") or {}).get("scales") or []
        self.bwd = None if desc.get("p2i") is None else desc["p2i"]["scales"]
        self.pdef = (desc.get("i2p") or {}).get("default")
        self.idef = (desc.get("p2i") or {}).get("default")
        self._memo = {}

    # -- which scale is responsible for an internal value (first applicable)
    def scale_for(self, x, scales=None, ty=None):
        for k, s in enumerate(self.fwd if scales is None else scales):
            if inside(s, x):
                return k, s
        return None

    @_memo
    def valid_internal(self, x):
        c = self.cat
        if c == "IDENTICAL":
            return admissible(self.ity, x)
        if c == "COMPUCODE":
            return False
        if c == "TAB-INTP":
            pts = [frac(s["lo"]["v"]) for s in self.fwd]
            return is_num(x) and admissible(self.ity, x) and min(pts) <= frac(x) <= max(pts)
        if c == "TEXTTABLE":
            if not admissible(self.ity, x):
                return False
            for s in self.fwd:
                for l in (s.get("lo"), s.get("hi")):
                    if l is not None and l["v"] is not None and is_num(l["v"]) != is_num(x):
                        return None          # a number against a text limit: incomparable, no claim
            if self.pdef is not None:
                return True
            return any(text_applies(s, x) for s in self.fwd)
        return admissible(self.ity, x) and self.scale_for(x) is not None

    @_memo
    def forward_exact(self, x):
        """exact physical value (a Fraction, before integer rounding), a text value, or None"""
        c = self.cat
        if c == "IDENTICAL":
            return x
        if c in ("LINEAR", "SCALE-LINEAR"):
            k = self.scale_for(x)
            if k is None:
                return None
            o, f, d = lin_coeffs(k[1])
            return None if d == 0 else (o + f * frac(x)) / d
        if c in ("RAT-FUNC", "SCALE-RAT-FUNC"):
            k = self.scale_for(x)
            if k is None:
                return None
            den = poly(k[1].get("den") or [], frac(x))
            return None if den == 0 else poly(k[1]["num"], frac(x)) / den
        if c == "TAB-INTP":
            return interp(frac(x), [frac(s["lo"]["v"]) for s in self.fwd], [frac(s["const"]) for s in self.fwd])
        if c == "TEXTTABLE":
            m = [s for s in self.fwd if text_applies(s, x)]
            if len(m) == 1:
                return m[0]["const"]
            if len(m) == 0:
                return self.pdef
            return None
        return None

    # -- physical side
    def phys_limits(self, s):
        """physical limits of a linear scale: images of the internal limits (rounded for integer physical
        types), swapped when the factor is negative"""
        o, f, d = lin_coeffs(s)

        def img(l):
            if l is None or l["v"] is None:
                return None
            q = (o + f * frac(l["v"])) / d
            return {"v": vi(round_half_even(q)) if self.pty in INT_TYPES else vf(q), "t": l["t"], "exact": q}
        lo, hi = img(s.get("lo")), img(s.get("hi"))
        return (lo, hi) if f >= 0 else (hi, lo)

    @_memo
    def phys_scale_for(self, p):
        for k, s in enumerate(self.fwd):
            lo, hi = self.phys_limits(s)
            if inside({"lo": lo, "hi": hi}, p):
                return k, s
        return None

    @_memo
    def valid_physical(self, p):
        c = self.cat
        if c == "IDENTICAL":
            return admissible(self.pty, p)
        if c == "COMPUCODE":
            return False
        if c == "LINEAR":
            return admissible(self.pty, p) and self.phys_scale_for(p) is not None
        if c == "SCALE-LINEAR":
            return admissible(self.pty, p) and self.phys_scale_for(p) is not None and self.invertible()
        if c == "TAB-INTP":
            pts = [frac(s["const"]) for s in self.fwd]
            return is_num(p) and admissible(self.pty, p) and min(pts) <= frac(p) <= max(pts)
        if c in ("RAT-FUNC", "SCALE-RAT-FUNC"):
            return self.bwd is not None and admissible(self.pty, p) and self.scale_for(p, self.bwd) is not None
        if c == "TEXTTABLE":
            if not admissible(self.pty, p):
                return False
            if self.idef is not None:
                return True
            return any(veq(s.get("const"), p) for s in self.fwd if s.get("const") is not None)
        return False

    @_memo
    def backward_exact(self, p):
        c = self.cat
        if c == "IDENTICAL":
            return p
        if c in ("LINEAR", "SCALE-LINEAR"):
            k = self.phys_scale_for(p)
            if k is None:
                return None
            o, f, d = lin_coeffs(k[1])
            if abs(f) < EPS:
                return ("inv", k[1].get("inv") or vi(0))
            return (frac(p) * d - o) / f
        if c in ("RAT-FUNC", "SCALE-RAT-FUNC"):
            if self.bwd is None:
                return None
            k = self.scale_for(p, self.bwd)
            if k is None:
                return None
            den = poly(k[1].get("den") or [], frac(p))
            return None if den == 0 else poly(k[1]["num"], frac(p)) / den
        if c == "TAB-INTP":
            return interp(frac(p), [frac(s["const"]) for s in self.fwd], [frac(s["lo"]["v"]) for s in self.fwd])
        if c == "TEXTTABLE":
            m = [s for s in self.fwd if s.get("const") is not None and veq(s["const"], p)]
            if len(m) == 1:
                s = m[0]
                if s.get("inv") is not None:
                    return s["inv"]
                if s.get("lo") is not None and s["lo"]["v"] is not None:
                    return s["lo"]["v"]
                if s.get("hi") is not None and s["hi"]["v"] is not None:
                    return s["hi"]["v"]
                return None
            if len(m) == 0:
                return self.idef
            return None
        return None

    # -- SCALE-LINEAR: ODX 7.3.6.6.4 – invertible iff adjacent scales meet at a common finite boundary with the
    #    same value and all slopes have the same sign (or are 0)
    def invertible(self):
        segs = self.fwd
        sign = 0
        for s in segs:
            o, f, d = lin_coeffs(s)
            if f != 0:
                sg = 1 if f > 0 else -1
                if sign and sg != sign:
                    return False
                sign = sg
        for a, b in zip(segs, segs[1:]):
            ha, lb = a.get("hi"), b.get("lo")
            if ha is None or lb is None or ha["v"] is None or lb["v"] is None or "INFINITE" in (ha["t"], lb["t"]):
                return False
            if frac(ha["v"]) != frac(lb["v"]):
                return False
            x = frac(ha["v"])
            oa, fa, da = lin_coeffs(a)
            ob, fb, db = lin_coeffs(b)
            ya, yb = (oa + fa * x) / da, (ob + fb * x) / db
            if self.pty in INT_TYPES:
                ya, yb = round_half_even(ya), round_half_even(yb)
            if abs(ya - yb) > EPS:
                return False
        return True


def interp(x, xs, ys):
    """piecewise linear interpolation through (xs[k], ys[k]): first pair (in table order) that brackets x, in either order"""
    for k in range(len(xs) - 1):
        x0, x1 = xs[k], xs[k + 1]
        if min(x0, x1) <= x <= max(x0, x1):
            if x1 == x0:
                return None        # plateau: every sample of the pair is a preimage
            return ys[k] + (x - x0) * (ys[k + 1] - ys[k]) / (x1 - x0)
    return None


# ------------------------------------------------------------------ injectivity (C03 / C07 wording:
# "a real-valued physical type, or an integer physical type with slopes of magnitude at least one")
def _slope_ok(f, d, ity, pty):
    if f == 0 or d == 0:
        return False
    if pty in FLOAT_TYPES:
        return True
    return ity in INT_TYPES and abs(f / d) >= 1


def injective(desc):
    """is the described conversion injective in the sense of the property text? (None = not decided here)"""
    sp = Spec(desc)
    c, ity, pty = desc["cat"], desc["ity"], desc["pty"]
    if c == "IDENTICAL":
        return True
    if c == "LINEAR":
        return _slope_ok(*lin_coeffs(sp.fwd[0])[1:], ity, pty)
    if c == "SCALE-LINEAR":
        return sp.invertible() and all(_slope_ok(*lin_coeffs(s)[1:], ity, pty) for s in sp.fwd)
    if c == "TAB-INTP":
        xs = [frac(s["lo"]["v"]) for s in sp.fwd]
        ys = [frac(s["const"]) for s in sp.fwd]
        if any(a >= b for a, b in zip(xs, xs[1:])):
            return False
        up = all(a < b for a, b in zip(ys, ys[1:]))
        down = all(a > b for a, b in zip(ys, ys[1:]))
        if not (up or down):
            return False
        return all(_slope_ok(y1 - y0, x1 - x0, ity, pty) for x0, x1, y0, y1 in zip(xs, xs[1:], ys, ys[1:]))
    if c == "TEXTTABLE":
        if sp.pdef is not None or sp.idef is not None:
            return False
        pts, consts = [], []
        for s in sp.fwd:
            lo, hi = s.get("lo"), s.get("hi")
            if s.get("const") is None:
                return False
            if lo is not None and hi is not None:
                if lo["v"] is None or hi["v"] is None or not veq(lo["v"], hi["v"]) or "OPEN" in (lo["t"], hi["t"]) or "INFINITE" in (lo["t"], hi["t"]):
                    return False
                pt = lo["v"]
            else:
                pt = (lo or hi)["v"]
                if pt is None:
                    return False
            if s.get("inv") is not None and not veq(s["inv"], pt):
                return False
            pts.append(pt)
            consts.append(s["const"])
        return all(not veq(a, b) for i, a in enumerate(pts) for b in pts[i + 1:]) and \
            all(not veq(a, b) for i, a in enumerate(consts) for b in consts[i + 1:])
    if c in ("RAT-FUNC", "SCALE-RAT-FUNC"):
        return bool(desc.get("inv_exact"))
    return False


def unit_slope_tie(desc, x):
    """the known rounding-tie situation: integer physical type, |slope| = 1, exact image half-way between integers"""
    sp = Spec(desc)
    if desc["pty"] not in INT_TYPES or not is_num(x):
        return False
    q = sp.forward_exact(x)
    if not isinstance(q, Fr) or (q - math.floor(q)) * 2 != 1:
        return False
    if desc["cat"] in ("LINEAR", "SCALE-LINEAR"):
        k = sp.scale_for(x)
        o, f, d = lin_coeffs(k[1])
        return abs(f / d) == 1
    if desc["cat"] == "TAB-INTP":
        xs = [frac(s["lo"]["v"]) for s in sp.fwd]
        ys = [frac(s["const"]) for s in sp.fwd]
        for x0, x1, y0, y1 in zip(xs, xs[1:], ys, ys[1:]):
            if x0 <= frac(x) <= x1:
                return abs((y1 - y0) / (x1 - x0)) == 1
    return False


# ------------------------------------------------------------------ generators
ITYPES = ("OPEN", "CLOSED", None, "CLOSED", None, "INFINITE")


def _dom(ty):
    """the 8-bit window of a numeric type"""
    return (0, 255) if ty == "A_UINT32" else (-128, 127)


def _coef(rng, ty, nonzero=False):
    """small integers (and halves for float types)"""
    pool = [-3, -2, -1, 0, 1, 1, 2, 3, 5] if ty in INT_TYPES else [-3, -2, -1, Fr(-1, 2), 0, Fr(1, 2), 1, 1, Fr(3, 2), 2, 3, Fr(1, 4)]
    while True:
        c = rng.choice(pool)
        if c != 0 or not nonzero:
            return vnum(c, ty)


def _den(rng, ty):
    """[] (absent), powers of two mostly, sometimes negative / not a power of two"""
    r = rng.random()
    if r < 0.12:
        return []
    if r < 0.75:
        return [vnum(rng.choice([1, 1, 2, 4]), ty)]
    if r < 0.85:
        return [vnum(rng.choice([-1, -2]), ty)]
    return [vnum(rng.choice([3, 10, 5]), ty)]


def _lim(rng, v, ty, itypes=ITYPES):
    return {"v": None if v is None else vnum(v, ty), "t": rng.choice(itypes)}


def _breaks(rng, ty, n):
    """n+1 ascending breakpoints inside the 8-bit window (halves allowed for float types)"""
    lo, hi = _dom(ty)
    pts = sorted(rng.sample(range(lo, hi + 1), n + 1)) if rng.random() < 0.6 else \
        sorted(rng.sample(range(max(lo, -20), min(hi, 40)), n + 1))
    if ty in FLOAT_TYPES and rng.random() < 0.3:
        pts = [p + Fr(1, 2) if rng.random() < 0.5 else p for p in pts]
    return pts


def _lin_scale(rng, ity, pty, lo, hi):
    return {"lo": lo, "hi": hi, "inv": None, "const": None, "num": [_coef(rng, pty)] + ([_coef(rng, pty)] if rng.random() < 0.93 else []),
            "den": _den(rng, pty)}


def gen_linear(rng, ity, pty):
    r = rng.random()
    a, b = _breaks(rng, ity, 1)
    lo = _lim(rng, a, ity) if r < 0.7 else None
    hi = _lim(rng, b, ity) if 0.15 < r < 0.85 else None
    if rng.random() < 0.04 and lo is not None:
        lo["v"] = None
    s = _lin_scale(rng, ity, pty, lo, hi)
    if rng.random() < 0.3:
        s["inv"] = vnum(rng.choice([a, b, 0, 7]), ity)
    return {"cat": "LINEAR", "ity": ity, "pty": pty, "i2p": {"scales": [s], "default": None}, "p2i": None}


def gen_scale_linear(rng, ity, pty, n=None, family=None):
    n = n or rng.randint(1, 4)
    family = family or rng.choice(["monotone", "monotone", "monotone", "jump", "mixed-sign", "gap", "random"])
    bs = _breaks(rng, ity, n)
    scales = []
    d = rng.choice([1, 1, 2, 4, 2]) if family in ("monotone", "jump", "mixed-sign") else None
    sign = rng.choice([1, -1])
    o = rng.choice([-3, 0, 0, 1, 2, 10])
    prev_f = None
    for k in range(n):
        a, b = bs[k], bs[k + 1]
        if family in ("monotone", "jump", "mixed-sign"):
            f = sign * rng.choice([0, 1, 1, 2, 3] if pty in INT_TYPES else [0, Fr(1, 2), 1, 1, 2, 3])
            if family == "mixed-sign" and k == n - 1 and n > 1:
                f = -sign * rng.choice([1, 2])
            if prev_f is not None:
                o = o + (prev_f - f) * a          # continuity at the common breakpoint a
                if pty in INT_TYPES and o != int(o):
                    o = int(o)
                if family == "jump" and k == n - 1:
                    o += rng.choice([1, 2, -1, 5]) * d
            prev_f = f
            s = {"lo": None, "hi": None, "inv": None, "const": None, "num": [vnum(o, pty), vnum(f, pty)], "den": [vnum(d, pty)]}
            if f == 0 and rng.random() < 0.7:
                s["inv"] = vnum(a, ity)
            lt = rng.choice(["CLOSED", None, "CLOSED", "OPEN"])
            ht = rng.choice(["CLOSED", None, "OPEN", "OPEN"]) if k < n - 1 else rng.choice(["CLOSED", None, "OPEN"])
            if rng.random() < 0.03:
                ht = "INFINITE"
            s["lo"] = {"v": vnum(a, ity), "t": lt}
            s["hi"] = {"v": vnum(b, ity), "t": ht}
        else:
            lo = _lim(rng, a, ity)
            hi = _lim(rng, b if family != "gap" or k == n - 1 else b - 1, ity)
            if family == "random" and rng.random() < 0.1:
                lo = None
            if family == "random" and rng.random() < 0.1:
                hi = None
            s = _lin_scale(rng, ity, pty, lo, hi)
        scales.append(s)
    return {"cat": "SCALE-LINEAR", "ity": ity, "pty": pty, "i2p": {"scales": scales, "default": None}, "p2i": None,
            "family": family}


def gen_tab_intp(rng, ity, pty, n=None):
    n = n or rng.randint(2, 5)
    xs = _breaks(rng, ity, n - 1)
    fam = rng.choice(["up", "up", "down", "zigzag", "plateau", "unit"])
    lo, hi = _dom(pty)
    if fam == "unit":
        ys = [x + rng.choice([0, 3]) for x in xs] if rng.random() < 0.5 else [2 * x for x in xs]
        ys = [y if pty in FLOAT_TYPES else int(y) for y in ys]
    else:
        ys = rng.sample(range(max(lo, -30), min(hi, 90)), n)
        if fam == "up":
            ys.sort()
        elif fam == "down":
            ys.sort(reverse=True)
        elif fam == "plateau":
            ys.sort()
            k = rng.randrange(n - 1)
            ys[k + 1] = ys[k]
        if pty in FLOAT_TYPES and rng.random() < 0.3:
            ys = [y + Fr(1, 2) for y in ys]
    scales = [{"lo": {"v": vnum(x, ity), "t": rng.choice(["CLOSED", None])}, "hi": None, "inv": None, "const": vnum(y, pty), "num": None, "den": []}
              for x, y in zip(xs, ys)]
    return {"cat": "TAB-INTP", "ity": ity, "pty": pty, "i2p": {"scales": scales, "default": None}, "p2i": None, "family": fam}


def _rat_scale(rng, dom, rng_ty, lo, hi):
    nn = rng.choice([1, 2, 2, 3])
    num = [_coef(rng, rng_ty) for _ in range(nn)]
    r = rng.random()
    den = [] if r < 0.2 else [_coef(rng, rng_ty, nonzero=True)] if r < 0.8 else [_coef(rng, rng_ty, nonzero=True), _coef(rng, rng_ty)]
    return {"lo": lo, "hi": hi, "inv": None, "const": None, "num": num, "den": den}


def gen_rat_func(rng, ity, pty):
    a, b = _breaks(rng, ity, 1)
    r = rng.random()
    lo = _lim(rng, a, ity) if r < 0.7 else None
    hi = _lim(rng, b, ity) if 0.15 < r < 0.85 else None
    d = {"cat": "RAT-FUNC", "ity": ity, "pty": pty, "i2p": {"scales": [_rat_scale(rng, ity, pty, lo, hi)], "default": None}, "p2i": None}
    r = rng.random()
    if r < 0.4:
        # exact linear inverse pair: y = (o + f x)/c, x = (-o + c y)/f, limits = images; needs exact physical values
        f = rng.choice([1, 2, -1, -2, 4]) if pty in INT_TYPES or ity in INT_TYPES else rng.choice([1, 2, -1, Fr(1, 2), 4])
        c = rng.choice([1, 2, 1, 4]) if pty in FLOAT_TYPES else 1
        o = rng.choice([0, 1, -3, 5])
        lo = {"v": vnum(a, ity), "t": rng.choice(["CLOSED", None, "OPEN"])}
        hi = {"v": vnum(b, ity), "t": rng.choice(["CLOSED", None, "OPEN"])}
        d["i2p"]["scales"] = [{"lo": lo, "hi": hi, "inv": None, "const": None, "num": [vnum(o, pty), vnum(f, pty)], "den": [vnum(c, pty)]}]
        ya, yb = (o + f * Fr(a)) / c, (o + f * Fr(b)) / c
        pl = {"v": vnum(ya, pty) if pty in FLOAT_TYPES else vi(round_half_even(ya)), "t": lo["t"]}
        ph = {"v": vnum(yb, pty) if pty in FLOAT_TYPES else vi(round_half_even(yb)), "t": hi["t"]}
        if f < 0:
            pl, ph = ph, pl
        # (round 9) the inverse direction restricted on one side only / not at all: a missing limit of a rational function is "unbounded"
        # (a TEXTTABLE scale with one limit is the single value) -- the inverse pair stays exact on the image
        r2 = rng.random()
        if r2 < 0.15:
            pl = None
        elif r2 < 0.3:
            ph = None
        elif r2 < 0.36:
            pl = ph = None
        # coefficients of the inverse are values of the internal type
        exact = (pty in FLOAT_TYPES or c == 1) and (ity in FLOAT_TYPES or True)
        if ity in INT_TYPES:
            d["p2i"] = {"scales": [{"lo": pl, "hi": ph, "inv": None, "const": None, "num": [vi(-o), vi(c)], "den": [vi(f)]}], "default": None}
        else:
            d["p2i"] = {"scales": [{"lo": pl, "hi": ph, "inv": None, "const": None, "num": [vf(-o), vf(c)], "den": [vf(f)]}], "default": None}
        d["inv_exact"] = bool(exact and pty in FLOAT_TYPES)
    elif r < 0.6:
        pa, pb = _breaks(rng, pty, 1)
        d["p2i"] = {"scales": [_rat_scale(rng, pty, ity, _lim(rng, pa, pty) if rng.random() < 0.7 else None,
                                          _lim(rng, pb, pty) if rng.random() < 0.7 else None)], "default": None}
    return d


def gen_scale_rat_func(rng, ity, pty, n=None):
    n = n or rng.randint(1, 4)
    bs = _breaks(rng, ity, n)
    scales = []
    for k in range(n):
        hi_v = bs[k + 1] if rng.random() < 0.8 else bs[k + 1] - 1
        scales.append(_rat_scale(rng, ity, pty, _lim(rng, bs[k], ity), _lim(rng, hi_v, ity)))
    d = {"cat": "SCALE-RAT-FUNC", "ity": ity, "pty": pty, "i2p": {"scales": scales, "default": None}, "p2i": None}
    if rng.random() < 0.5:
        m = rng.randint(1, 3)
        pb = _breaks(rng, pty, m)
        d["p2i"] = {"scales": [_rat_scale(rng, pty, ity, _lim(rng, pb[k], pty), _lim(rng, pb[k + 1], pty)) for k in range(m)], "default": None}
    return d


TEXTS = ["off", "on", "error", "n/a", "Öl kalt", "", "0", "on "]


def gen_texttable(rng, ity=None, n=None):
    ity = ity or rng.choice(["A_UINT32", "A_UINT32", "A_UINT32", "A_INT32", "A_FLOAT64", "A_ASCIISTRING"])
    pty = rng.choice(STR_TYPES)
    n = n or rng.randint(1, 4)
    texts = rng.sample(TEXTS, n) if rng.random() < 0.85 else [rng.choice(TEXTS[:3]) for _ in range(n)]
    scales = []
    if ity in STR_TYPES:
        keys = rng.sample(["a", "b", "bb", "c", "", "Z"], n)
        mk = vs
    else:
        lo, hi = _dom(ity)
        keys = sorted(rng.sample(range(max(lo, -5), 30), 2 * n))
        mk = lambda q: vnum(q, ity)   # noqa: E731
    for k in range(n):
        form = rng.choice(["point", "point", "lo-only", "range", "hi-only", "range"])
        a, b = (keys[k], keys[k]) if ity in STR_TYPES else (keys[2 * k], keys[2 * k + 1])
        if rng.random() < 0.1 and k > 0 and ity not in STR_TYPES:
            a = keys[2 * k - 1]       # overlap with the previous scale
        s = {"lo": None, "hi": None, "inv": None, "const": vs(texts[k]), "num": None, "den": []}
        if form == "point":
            s["lo"] = {"v": mk(a), "t": rng.choice(["CLOSED", None])}
            s["hi"] = {"v": mk(a), "t": rng.choice(["CLOSED", None])}
        elif form == "lo-only":
            s["lo"] = {"v": mk(a), "t": rng.choice(["CLOSED", None, "OPEN"])}
        elif form == "hi-only":
            s["hi"] = {"v": mk(b), "t": rng.choice(["CLOSED", None])}
        else:
            s["lo"] = {"v": mk(a), "t": rng.choice(ITYPES)}
            s["hi"] = {"v": mk(b), "t": rng.choice(ITYPES)}
            if rng.random() < 0.4:
                s["inv"] = mk(a if ity in STR_TYPES else rng.choice([a, b, a + 1]))
        if rng.random() < 0.05:
            s["const"] = None
        scales.append(s)
    d = {"cat": "TEXTTABLE", "ity": ity, "pty": pty, "i2p": {"scales": scales, "default": None}, "p2i": None}
    if rng.random() < 0.25:
        d["i2p"]["default"] = vs(rng.choice(["undefined", "on"]))
    if rng.random() < 0.25:
        d["p2i"] = {"scales": [], "default": mk("zz" if ity in STR_TYPES else rng.choice([0, 99]))}
    return d


SIGNED_ITYPES = ("A_INT32", "A_FLOAT64", "A_FLOAT32")


def _tt_scale(lo, hi, inv, text):
    return {"lo": lo, "hi": hi, "inv": inv, "const": None if text is None else vs(text), "num": None, "den": []}


def texttable_small_scope(ity, lo_min=-3, hi_max=3):
    """exhaustive small scope of range scales around zero: every range [lo, hi] with lo_min <= lo < hi <= hi_max
    x every COMPU-INVERSE-VALUE inside the range (and none), next to a point scale at hi+1.
    Values that Python treats as false (0, 0.0) occur in every role: lower limit, upper limit, interior
    point, inverse value — with the other roles different from them."""
    mk = lambda q: vnum(q, ity)   # noqa: E731
    for lo in range(lo_min, hi_max):
        for hi in range(lo + 1, hi_max + 1):
            for inv in [None] + list(range(lo, hi + 1)):
                s0 = _tt_scale({"v": mk(lo), "t": "CLOSED"}, {"v": mk(hi), "t": "CLOSED"}, None if inv is None else mk(inv), "mid")
                s1 = _tt_scale({"v": mk(hi + 1), "t": "CLOSED"}, {"v": mk(hi + 1), "t": "CLOSED"}, None, "high")
                yield {"cat": "TEXTTABLE", "ity": ity, "pty": "A_UNICODE2STRING", "i2p": {"scales": [s0, s1], "default": None},
                       "p2i": None, "family": "texttable-small-scope"}


def gen_texttable_zero(rng, ity=None, n=None):
    """TEXTTABLE over a narrow window centred at zero (signed and float internal types mostly): ranges that
    start below zero, end at zero or straddle it; single-limit scales at zero; inverse values anywhere inside the range
    (biased to the falsy ones 0 / 0.0), also on point and single-limit scales; default text "" and default
    internal value 0.  Distinct texts, disjoint scales: everything is inside the envelope of the direct oracle."""
    ity = ity or rng.choice(SIGNED_ITYPES + ("A_INT32", "A_UINT32"))
    pty = rng.choice(STR_TYPES)
    n = n or rng.randint(1, 4)
    texts = rng.sample(TEXTS, n)
    lo_w = 0 if ity == "A_UINT32" else -rng.choice([2, 4, 6, 9])
    hi_w = lo_w + 3 * n + rng.choice([1, 3, 6])
    keys = sorted(rng.sample(range(lo_w, hi_w + 1), 2 * n))
    mk = lambda q: vnum(q, ity)   # noqa: E731
    scales = []
    for k in range(n):
        a, b = keys[2 * k], keys[2 * k + 1]
        form = rng.choice(["range", "range", "range", "point", "lo-only", "hi-only"])
        if form == "range":
            lo = {"v": mk(a), "t": rng.choice(["CLOSED", None, "CLOSED", "OPEN"])}
            hi = {"v": mk(b), "t": rng.choice(["CLOSED", None, "CLOSED", "OPEN"])}
            inv = None
            r = rng.random()
            if r < 0.45 and a <= 0 <= b:
                inv = mk(0)
            elif r < 0.85:
                inv = mk(rng.randint(a, b))
            s = _tt_scale(lo, hi, inv, texts[k])
        elif form == "point":
            v = 0 if a < 0 < b else rng.choice([a, b])         # still disjoint from the other scales
            s = _tt_scale({"v": mk(v), "t": rng.choice(["CLOSED", None])}, {"v": mk(v), "t": rng.choice(["CLOSED", None])},
                          mk(v) if rng.random() < 0.3 else None, texts[k])
        elif form == "lo-only":
            s = _tt_scale({"v": mk(a), "t": rng.choice(["CLOSED", None])}, None, mk(a) if rng.random() < 0.3 else None, texts[k])
        else:
            s = _tt_scale(None, {"v": mk(b), "t": rng.choice(["CLOSED", None])}, mk(b) if rng.random() < 0.3 else None, texts[k])
        scales.append(s)
    d = {"cat": "TEXTTABLE", "ity": ity, "pty": pty, "i2p": {"scales": scales, "default": None}, "p2i": None,
         "family": "texttable-zero"}
    r = rng.random()
    if r < 0.15:
        d["i2p"]["default"] = vs(rng.choice(["", "undefined"]))
    elif r < 0.3:
        d["p2i"] = {"scales": [], "default": mk(rng.choice([0, 0, lo_w, 99]))}
    return d


# ------------------------------------------------------------------ decimal coefficients (round 6)
# Coefficients as they are written in real ODX files: decimal fractions (0.1, 0.3, -0.7, 2.1 ...) that no double
# represents.  The description carries the double nearest to each decimal (what the XML reader / `float("0.1")`
# produces), so Spec and model still compute exactly — but with the *double's* rational, for which a method that is
# continuous in decimal arithmetic is continuous only up to ~1e-16, and the implementation's own double evaluation
# of the two formulas at a common boundary yields two different numbers.  Everything in the code that compares such
# numbers (continuity test of the invertibility analysis, derived physical limits, `physical_applies`) is only
# exercised by this family; halves and quarters (all other families) are exact in doubles.
DEC_SLOPES = [Fr(1, 10), Fr(1, 5), Fr(3, 10), Fr(7, 10), Fr(11, 10)]
DEC_SLOPES_MORE = DEC_SLOPES + [Fr(1, 100), Fr(5, 100), Fr(9, 10), Fr(17, 10), Fr(21, 10), Fr(1, 3), Fr(2, 7), Fr(3)]
DEC_KINK_VALUES = [Fr(0), Fr(3, 10), Fr(-17, 10), Fr(1001, 10)]
DEC_KINK_VALUES_MORE = DEC_KINK_VALUES + [Fr(1), Fr(-1, 10), Fr(7, 100), Fr(-25), Fr(4999, 10)]
KINK_LIMITS = [("CLOSED", "CLOSED"), ("OPEN", "CLOSED"), ("CLOSED", "OPEN"), (None, None)]


def vd(q):
    """the double nearest to the decimal (rational) number q, as a float val"""
    q = Fr(q)
    return vf(Fr(q.numerator / q.denominator))


def decimal_scale_linear(ity, pty, breaks, slopes, kink, y_kink, den=Fr(1), kink_limits=("CLOSED", "CLOSED"), jump=Fr(0),
                         family="decimal"):
    """SCALE-LINEAR through the ascending `breaks` with decimal `slopes` (one per segment), continuous in decimal
    arithmetic, taking the value `y_kink` at the inner breakpoint number `kink` (1-based); all numerators are multiplied
    by the decimal denominator `den`; `jump` is added to the last segment (a genuine discontinuity).  Coefficients of an
    integer physical type stay integers (callers pass integral data then)."""
    n = len(slopes)
    mk = (lambda q: vnum(q, pty)) if pty in INT_TYPES else vd
    # offsets in exact decimal arithmetic: continuity at every inner breakpoint, value y_kink at breakpoint `kink`
    offs = [Fr(0)] * n
    for k in range(1, n):
        offs[k] = offs[k - 1] + (slopes[k - 1] - slopes[k]) * breaks[k]
    shift = y_kink - (offs[kink - 1] + slopes[kink - 1] * breaks[kink]) if n > 1 else y_kink - slopes[0] * breaks[0]
    offs = [o + shift for o in offs]
    if n > 1:
        offs[-1] += jump
    scales = []
    for k in range(n):
        up, lo = kink_limits
        s = {"lo": {"v": vnum(breaks[k], ity), "t": lo if k > 0 else "CLOSED"},
             "hi": {"v": vnum(breaks[k + 1], ity), "t": up if k < n - 1 else "CLOSED"},
             "inv": vnum(breaks[k], ity) if slopes[k] == 0 else None, "const": None,
             "num": [mk(offs[k] * den), mk(slopes[k] * den)], "den": [mk(den)]}
        scales.append(s)
    return {"cat": "SCALE-LINEAR" if n > 1 else "LINEAR", "ity": ity, "pty": pty, "i2p": {"scales": scales, "default": None},
            "p2i": None, "family": family}


def decimal_small_scope(full):
    """enumerated small scope: two decimal segments [0,k] and [k,255] of an A_UINT32 -> A_FLOAT64 method x every ordered pair of
    different slopes of DEC_SLOPES x the value at the kink (0 and three others, small and large) x both directions
    (increasing / decreasing) x the four limit-type pairs at the kink (cycled in quick, all in thorough)"""
    ks = range(1, 10) if full else (1, 3, 7)
    n = 0
    for k in ks:
        for fa in DEC_SLOPES:
            for fb in DEC_SLOPES:
                if fa == fb:
                    continue
                for y in DEC_KINK_VALUES:
                    for sign in (1, -1):
                        for kl in (KINK_LIMITS if full else (KINK_LIMITS[n % 4],)):
                            n += 1
                            yield decimal_scale_linear("A_UINT32", "A_FLOAT64", [0, k, 255], [sign * fa, sign * fb], 1, y,
                                                       kink_limits=kl, family="decimal-small-scope")


def kink_noise(desc):
    """number of inner boundaries of a (SCALE-)LINEAR description at which the two adjacent formulas, evaluated in double
    arithmetic as the implementation does, give two different doubles (although the exact values agree within 1e-10)"""
    n = 0
    sc = desc["i2p"]["scales"]
    for a, b in zip(sc, sc[1:]):
        try:
            x = pyval(a["hi"]["v"])
            ya = (pyval(a["num"][0]) + pyval(a["num"][1]) * x) / pyval(a["den"][0])
            yb = (pyval(b["num"][0]) + pyval(b["num"][1]) * x) / pyval(b["den"][0])
            if ya != yb and abs(ya - yb) < 1e-10:
                n += 1
        except Exception:  # noqa
            pass
    return n


def gen_decimal(rng):
    """random decimal methods: SCALE-LINEAR (2-4 segments, monotone continuous; every 6th with a jump; every 8th with a flat
    segment) and LINEAR, all four internal types x the float physical types, kink at physical 0 with p = 0.4, decimal
    denominators (10, 3, 0.1, -1).  Magnitudes stay below 2000.  (Integer physical types cannot carry decimal coefficients —
    the XML reader parses COMPU-NUMERATOR with the physical type; their tenths are integer numerators over the denominators
    3 / 5 / 10 of `_den`.)"""
    ity = rng.choice(NUM_TYPES)
    pty = rng.choice(FLOAT_TYPES + ("A_FLOAT64",))
    n = rng.choice([1, 2, 2, 3, 3, 4])
    lo, hi = _dom(ity)
    if rng.random() < 0.5:
        bs = sorted(rng.sample(range(max(lo, -20), 40), n + 1))
    else:
        bs = sorted(rng.sample(range(lo, hi + 1), n + 1))
    sign = rng.choice([1, -1])
    slopes = [sign * rng.choice(DEC_SLOPES_MORE) for _ in range(n)]
    if n > 1 and rng.random() < 0.125:
        slopes[rng.randrange(n)] = Fr(0)
    y = Fr(0) if rng.random() < 0.4 else rng.choice(DEC_KINK_VALUES_MORE)
    den = rng.choice([Fr(1), Fr(1), Fr(10), Fr(3), Fr(1, 10), Fr(-1)])
    jump = Fr(0)
    if n > 1 and rng.random() < 1 / 6:
        jump = rng.choice([Fr(1, 1000), Fr(-1, 10), Fr(1, 2), Fr(3)])
    return decimal_scale_linear(ity, pty, bs, slopes, rng.randint(1, max(1, n - 1)), y, den, rng.choice(KINK_LIMITS), jump)


def gen_decimal_tab(rng):
    """TAB-INTP with decimal samples (tenths): 2-5 points, increasing / decreasing / zigzag physical samples, all four
    internal types (float internal types: decimal internal samples in half of the cases) x the float physical types"""
    ity = rng.choice(NUM_TYPES)
    pty = rng.choice(FLOAT_TYPES)
    k = rng.randint(2, 5)
    xs = [Fr(x) for x in _breaks(rng, ity, k - 1)]
    if ity in FLOAT_TYPES and rng.random() < 0.5:
        xs = sorted({x + Fr(rng.randint(0, 9), 10) for x in xs})
        k = len(xs)
    ys = rng.sample([Fr(i, 10) for i in range(-50, 200)], k)
    fam = rng.choice(["up", "up", "down", "zigzag"])
    if fam == "up":
        ys.sort()
    elif fam == "down":
        ys.sort(reverse=True)
    mkx = vi if ity in INT_TYPES else vd
    scales = [{"lo": {"v": mkx(x), "t": rng.choice(["CLOSED", None])}, "hi": None, "inv": None, "const": vd(y), "num": None, "den": []}
              for x, y in zip(xs, ys)]
    return {"cat": "TAB-INTP", "ity": ity, "pty": pty, "i2p": {"scales": scales, "default": None}, "p2i": None, "family": "decimal-tab"}


def gen_identical(rng):
    ity = rng.choice(NUM_TYPES + STR_TYPES)
    pty = ity if ity in NUM_TYPES else rng.choice(STR_TYPES)      # IDENTICAL requires equal types (any two string types)
    return {"cat": "IDENTICAL", "ity": ity, "pty": pty, "i2p": None, "p2i": None}


def gen_compucode(rng):
    return {"cat": "COMPUCODE", "ity": rng.choice(NUM_TYPES), "pty": rng.choice(NUM_TYPES), "i2p": {"scales": [], "default": None},
            "p2i": None}


def gen_desc(rng, cat=None, ity=None, pty=None):
    """one mostly well-formed description; categories weighted towards the piecewise ones"""
    cat = cat or rng.choice(["LINEAR"] * 4 + ["SCALE-LINEAR"] * 5 + ["TAB-INTP"] * 4 + ["RAT-FUNC"] * 3 + ["SCALE-RAT-FUNC"] * 3 +
                            ["TEXTTABLE"] * 4 + ["IDENTICAL", "COMPUCODE"])
    ity = ity or rng.choice(NUM_TYPES)
    pty = pty or rng.choice(NUM_TYPES)
    if cat == "LINEAR":
        return gen_linear(rng, ity, pty)
    if cat == "SCALE-LINEAR":
        return gen_scale_linear(rng, ity, pty)
    if cat == "TAB-INTP":
        return gen_tab_intp(rng, ity, pty)
    if cat == "RAT-FUNC":
        return gen_rat_func(rng, ity, pty)
    if cat == "SCALE-RAT-FUNC":
        return gen_scale_rat_func(rng, ity, pty)
    if cat == "TEXTTABLE":
        return gen_texttable(rng)
    if cat == "IDENTICAL":
        return gen_identical(rng)
    return gen_compucode(rng)


def gen_malformed(rng):
    """descriptions the constructors (should) reject or that raise on use: separate stream, correspondence only"""
    d = gen_desc(rng, rng.choice(["LINEAR", "SCALE-LINEAR", "TAB-INTP", "RAT-FUNC", "SCALE-RAT-FUNC", "TEXTTABLE"]))
    k = rng.choice(["no-i2p", "no-scales", "two-scales", "no-coeffs", "zero-den", "no-num", "str-type", "one-point", "no-const",
                    "str-limit", "no-limits", "str-inv"])
    sc = d["i2p"]["scales"]
    if k == "no-i2p":
        d["i2p"] = None
    elif k == "no-scales":
        d["i2p"]["scales"] = []
    elif k == "two-scales":
        d["i2p"]["scales"] = sc + sc[:1]
    elif k == "no-coeffs":
        sc[0]["num"] = None
    elif k == "zero-den":
        if sc[0].get("num") is not None:
            sc[0]["den"] = [vnum(0, d["pty"])]
    elif k == "no-num":
        if sc[0].get("num") is not None:
            sc[0]["num"] = []
    elif k == "str-type":
        d["pty"] = "A_UTF8STRING" if d["cat"] != "TEXTTABLE" else "A_UINT32"
    elif k == "one-point":
        d["i2p"]["scales"] = sc[:1]
    elif k == "no-const":
        sc[-1]["const"] = None
    elif k == "str-limit":
        if d["cat"] != "TEXTTABLE":
            sc[0]["lo"] = {"v": vnum(1, d["ity"]), "t": "CLOSED"}
    elif k == "no-limits":
        sc[0]["lo"] = sc[0]["hi"] = None
    elif k == "str-inv":
        pass
    d["malformed"] = k
    return d


def normalise(desc):
    """the part of a desc that `desc_of_cm` can recover (drops generator annotations)"""
    def sc(s):
        return {"lo": s.get("lo"), "hi": s.get("hi"), "inv": s.get("inv"), "const": s.get("const"), "num": s.get("num"),
                "den": list(s.get("den") or [])}

    def side(x):
        return None if x is None else {"scales": [sc(s) for s in x["scales"]], "default": x.get("default")}
    return {"cat": desc["cat"], "ity": desc["ity"], "pty": desc["pty"], "i2p": side(desc.get("i2p")), "p2i": side(desc.get("p2i"))}


# ------------------------------------------------------------------ test values
def internal_values(rng, desc, thorough):
    """internal test values: the whole 8-bit window (thorough) or boundaries ±1 and a few random ones (quick),
    plus values of the wrong Python type"""
    ity = desc["ity"]
    out = []
    if ity in STR_TYPES:
        out = [vs(x) for x in ["a", "b", "bb", "c", "", "Z", "zz", "q"]] + [vi(1), vf(Fr(1, 2))]
        return out
    lo, hi = _dom(ity)
    pts = set()
    for side in (desc.get("i2p"),):
        for s in (side or {}).get("scales", []):
            for l in (s.get("lo"), s.get("hi")):
                if l is not None and is_num(l["v"]):
                    q = frac(l["v"])
                    pts.update([q - 1, q, q + 1])
                    if ity in FLOAT_TYPES:
                        pts.update([q - Fr(1, 2), q + Fr(1, 2), q + Fr(1, 4)])
    if thorough:
        pts.update(range(lo, hi + 1))
    else:
        pts.update([lo, lo + 1, hi - 1, hi, 0, 1, 2, 3])
        pts.update(rng.randint(lo, hi) for _ in range(6))
    pts.update([lo - 1, hi + 1, 1000])
    if ity in FLOAT_TYPES:
        pts.update(Fr(rng.randint(2 * lo, 2 * hi), 2) for _ in range(8 if not thorough else 40))
    for q in sorted(pts):
        if ity in INT_TYPES:
            if q == int(q):
                out.append(vi(q))
        else:
            out.append(as_double(vf(q)))
    # wrong / borderline Python types
    some = sorted(pts)[len(pts) // 2]
    if ity in INT_TYPES:
        out += [vf(some), vf(Fr(some) + Fr(1, 2)), vs("x")]
    else:
        out += [vi(int(some)), vi(0), vs("x")]
    return out


def physical_values(rng, desc, images, thorough):
    """physical test values: the images of the internal test values, their neighbours, scale constants, wrong types"""
    pty = desc["pty"]
    out, seen = [], set()

    def add(v):
        v = as_double(v)
        k = (v[0], str(v[1]))
        if k not in seen:
            seen.add(k); out.append(v)
    if pty in STR_TYPES:
        for s in (desc.get("i2p") or {}).get("scales", []):
            if s.get("const") is not None:
                add(s["const"])
        for t in ["unknown", "undefined", "on", ""]:
            add(vs(t))
        add(vi(1))
        return out
    for v in images:
        if is_num(v) and v[1] != "nan":
            q = frac(v)
            add(v)
            if abs(q) < 10**6:
                for dq in ((1, -1) if pty in INT_TYPES else (1, -1, Fr(1, 2), Fr(-1, 4))):
                    add(vnum(q + dq, pty) if pty in FLOAT_TYPES or (q + dq) == int(q + dq) else vf(q + dq))
    for s in ((desc.get("p2i") or {}).get("scales") or []):
        for l in (s.get("lo"), s.get("hi")):
            if l is not None and is_num(l["v"]):
                q = frac(l["v"])
                for dq in (-1, 0, 1):
                    add(vnum(q + dq, pty))
    for s in (desc.get("i2p") or {}).get("scales", []):
        if s.get("const") is not None and is_num(s["const"]):
            q = frac(s["const"])
            for dq in (-1, 0, 1):
                add(vnum(q + dq, pty))
    lo, hi = _dom(pty)
    for _ in range(4 if not thorough else 16):
        add(vnum(rng.randint(lo, hi), pty))
    base = frac(out[0]) if out and is_num(out[0]) else Fr(1)
    if pty in INT_TYPES:
        add(vf(base)); add(vf(base + Fr(1, 2))); add(vs("x"))
    else:
        add(vi(int(base))); add(vs("x"))
    return out


def rejection_values(desc):
    """physical values at which a conversion can fail for ARITHMETIC reasons (round 8): the poles of every rational function of
    COMPU-PHYS-TO-INTERNAL with a value-dependent denominator (exact roots of denominators of degree 1, integer roots of degree 2
    inside the 8-bit window), NaN / infinities / numbers no double or 64-bit integer holds"""
    out = []
    for s in ((desc.get("p2i") or {}).get("scales") or []):
        den = [frac(c) for c in (s.get("den") or []) if is_num(c)]
        if len(den) == 2 and den[1] != 0:
            out.append(-den[0] / den[1])
        elif len(den) > 2:
            out += [Fr(x) for x in range(-130, 260) if sum(c * x ** k for k, c in enumerate(den)) == 0]
    vals = []
    for q in out:
        vals.append(vnum(q, desc["pty"]) if desc["pty"] in FLOAT_TYPES or q == int(q) else vf(q))
        if q == int(q):
            vals.append(vi(int(q)))
    return vals
