"""prints markdown tables for DESIGN.md from the committed machine-readable state:
   known_findings.jsonl (fixes / open findings), seeded/*/meta.json, evidence/*.json"""
import json
import sys
from pathlib import Path

V = Path(__file__).resolve().parent.parent


def findings():
    rows = []
    for l in (V / "known_findings.jsonl").read_text().splitlines():
        l = l.strip()
        if l and not l.startswith("#"):
            rows.append(json.loads(l))
    print("| property | status | commit / id | what failed |\n|---|---|---|---|")
    for r in rows:
        what = r["what"]
        if what.startswith("fixed: property="):
            what = what.split(" ", 3)[3]
        print(f"| {r['property']} | {r['status']} | {r.get('commit') or r['id']} | {what[:330]} |")


def seeded():
    print("| seeded id | property | what the change does / what it needs | confirmed (demo fails, 140 tests pass) | check result |\n|---|---|---|---|---|")
    for d in sorted((V / "seeded").glob("*/meta.json")):
        m = json.loads(d.read_text())
        ch = "; ".join(f"{p}: exit {c['exit']}" + (" VIOLATION" if any(l.startswith("VIOLATION") and "no-failing-input-found" not in l for l in c["lines"]) else
                                                   (" VIOLATION no-failing-input-found" if any("no-failing-input-found" in l for l in c["lines"]) else "")) for p, c in m.get("checks", {}).items())
        print(f"| {m['seeded_id']} | {m['property']} | {m.get('clause','')[:160]} — needs: {m.get('needs','')[:200]} | {m['confirmation'].get('confirmed')} | {ch} |")


def evidence():
    print("| property | tier | obligations | evaluations | distinct non-trivial | traces vs impl | disagreements | wall s |\n|---|---|---|---|---|---|---|---|")
    for f in sorted((V / "evidence").glob("C*.json")):
        e = json.loads(f.read_text())
        c = e["coverage"]
        print(f"| {e['property_id']} | {e['tier']} | {c.get('discharged')}/{c.get('obligations')} | {c.get('evaluations')} | {c.get('distinct_nontrivial')} | {c.get('traces_validated_against_impl')} | {c.get('disagreements')} | {e['wall_s']} |")


if __name__ == "__main__":
    {"findings": findings, "seeded": seeded, "evidence": evidence}[sys.argv[1]]()
