"""model-free oracles for the codec properties C01, C03, C08 evaluated on the real odxtools code.

Every call into odxtools is wrapped: exceptions become data (`encode` = EncodeError, `mismatch` = DecodeMismatch,
`decode` = DecodeError, `odx` = other OdxError, `foreign:<Type>` = anything else, `hang` = 5 s alarm),
OdxWarnings are counted with warnings.catch_warnings(record=True).

canonPdu (C03): a PDU is canonical for a description if every bit that is not claimed by a value-carrying
parameter is zero (padding, RESERVED, gaps), 1C/SM integers are not negative zero, BCD nibbles are <= 9 (unpacked BCD:
high nibble 0), floats are not NaN, strings are valid and shortest-form in their encoding, internal values are valid
for the compu method and are the value the inverse conversion selects (text tables: the lower limit of the scale;
linear: no rounding tie), bits outside a BIT-MASK are zero, min-max objects carry a terminator exactly where the
encoder writes one.  PDUs produced by the encoder from canonical values and PDUs assembled by
odxgen.refpdu from canonical raw values satisfy this by construction.
"""
import copy
import itertools
import os
import random
import signal
import warnings

from odxgen import desc as D
from odxgen import gen as G
from odxgen import refpdu, sexp
from odxgen import values as V
from odxgen.xmlgen import load


class Hang(BaseException):
    pass


def _alarm(signum, frame):
    raise Hang()


def err_class(e) -> str:
    from odxtools.exceptions import DecodeError, DecodeMismatch, EncodeError, OdxError
    if isinstance(e, Hang):
        return "hang"
    if isinstance(e, EncodeError):
        return "encode"
    if isinstance(e, DecodeMismatch) and isinstance(e, DecodeError):     # (a mismatch IS a decode error: callers catch DecodeError)
        return "mismatch"
    if isinstance(e, DecodeError):
        return "decode"
    if isinstance(e, OdxError):
        return "odx"
    return "foreign:" + type(e).__name__


def model_err(c: str) -> str:
    """error class as the model driver reports it (foreign types are not distinguished)"""
    return "foreign" if c.startswith("foreign") else c


def _tracking_state_class():
    from odxtools.decodestate import DecodeState

    class TrackingDecodeState(DecodeState):
        """DecodeState that remembers the highest cursor position (consumption of the PDU)"""

        def __setattr__(self, k, v):
            if k == "cursor_byte_position":
                if v > self.__dict__.get("max_cursor", 0):
                    self.__dict__["max_cursor"] = v
            object.__setattr__(self, k, v)

    return TrackingDecodeState


_TDS = None


class Res:
    __slots__ = ("status", "pdu", "warns", "value", "cursor", "max_cursor", "msg", "used")

    def __init__(self, status, **kw):
        self.status = status
        self.pdu = self.value = self.msg = self.used = None
        self.warns = self.cursor = self.max_cursor = 0
        for k, v in kw.items():
            setattr(self, k, v)

    @property
    def ok(self):
        return self.status == "ok"


def impl_encode(obj, value, trig=None) -> Res:
    """obj.encode_into_pdu on a fresh EncodeState (what Request.encode / Response.encode do)"""
    from odxtools.encodestate import EncodeState
    from odxtools.exceptions import OdxWarning
    with warnings.catch_warnings(record=True) as w:
        warnings.simplefilter("always")
        try:
            es = EncodeState(triggering_request=trig, is_end_of_pdu=True)
            obj.encode_into_pdu(V.to_impl(value), es)
            return Res("ok", pdu=bytes(es.coded_message), used=bytes(es.used_mask), cursor=es.cursor_byte_position,
                       warns=sum(1 for x in w if issubclass(x.category, OdxWarning)))
        except Exception as e:  # noqa
            return Res(err_class(e), msg=str(e)[:200])


def impl_decode(obj, pdu: bytes, timeout=5) -> Res:
    """obj.decode_from_pdu with cursor tracking and a wall-clock guard"""
    global _TDS
    if _TDS is None:
        _TDS = _tracking_state_class()
    old = signal.signal(signal.SIGALRM, _alarm)
    signal.alarm(timeout)
    try:
        with warnings.catch_warnings(record=True) as w:
            warnings.simplefilter("always")
            ds = _TDS(coded_message=bytes(pdu))
            v = obj.decode_from_pdu(ds)
            return Res("ok", value=v, cursor=ds.cursor_byte_position, max_cursor=max(ds.__dict__.get("max_cursor", 0), ds.cursor_byte_position),
                       warns=len(w))
    except Hang as e:
        return Res("hang", msg="no result within %d s" % timeout)
    except Exception as e:  # noqa
        return Res(err_class(e), msg=str(e)[:200])
    finally:
        signal.alarm(0)
        signal.signal(signal.SIGALRM, old)


def safe_load(comps):
    """(Loaded | None, error class)"""
    try:
        with warnings.catch_warnings():
            warnings.simplefilter("ignore")
            return load(comps), None
    except Exception as e:  # noqa
        return None, err_class(e) + ":" + str(e)[:120]


# ------------------------------------------------------------------ canonical replies (correspondence with drv_codec)
def reply_encode(r: Res) -> str:
    return f"(ok {sexp.hx(r.pdu)} (warn {'t' if r.warns else 'f'}))" if r.ok else f"(err {model_err(r.status)})"


def reply_decode(r: Res) -> str:
    return f"(ok {sexp.pval(r.value)} (consumed {r.cursor}))" if r.ok else f"(err {model_err(r.status)})"


class Correspondence:
    """collects request lines + the implementation's canonical replies; compared with the driver in one batch"""

    def __init__(self, ctx, driver="drv_codec"):
        self.ctx, self.drv, self.pending = ctx, ctx.driver(driver), []
        self.enabled = self.drv.available()
        if not self.enabled:
            ctx.notes.append(f"driver {driver} not built: correspondence skipped, direct oracle only")

    def add(self, family, comp, line, impl_reply):
        if self.enabled and sexp.modelled(comp):
            self.pending.append((family, line, impl_reply))
        elif self.enabled:
            self.ctx.count("corr_not_forwarded(other-compu)")

    def flush(self):
        if not self.enabled or not self.pending:
            return
        try:
            replies = self.drv.query([l for _, l, _ in self.pending])
        except Exception as e:  # noqa
            self.ctx.notes.append(f"driver failed: {e!r}"[:300])
            self.pending = []
            return
        for (fam, line, impl), rep in zip(self.pending, replies):
            rep = rep.strip()
            if rep in ("(unsupported)", "(not-implemented)", "(bad-args)"):
                # (bad-args): the driver's description/value parser does not know a constructor of this line yet
                self.ctx.count("corr_" + rep.strip("()"))
                continue
            self.ctx.traces += 1
            if rep != impl:
                self.ctx.disagree(fam, line[:3000], rep[:1500], impl[:1500])
        if self.pending:
            self.ctx.sample({"request": self.pending[0][1][:400], "impl": self.pending[0][2][:200]})
        self.pending = []


# ------------------------------------------------------------------ features (signatures) and shrinking
def narrow_features(comp, extra=()):
    """short list describing the kind of a (shrunk) description; forms the known-finding signature"""
    f = set(extra)
    for p, depth in D.walk_params(comp.params):
        if p.type not in ("value", "coded-const"):
            f.add(p.type)
        if p.type == "table-key" and p.row is not None:
            f.add("static-table-row")
        if p.bytepos is not None:
            f.add("bytepos")
        if p.bitpos:
            f.add("bitpos")
        if p.default is not None:
            f.add("default")
        for d in [p.dop] + ([r.dop for r in p.table.rows] if p.table else []):
            if d is None:
                continue
            if not isinstance(d, D.SimpleDop):
                f.add(d.tag)
            if isinstance(d, D.Struct) and d.bytesize is not None:
                f.add("byte-size")
            if isinstance(d, D.DtcDop):
                f.update(D.dtc_sources(d))
            if isinstance(d, (D.SimpleDop, D.DtcDop)):
                _dct_feats(d.dct, f)
                if d.compu.tag != "identical":
                    f.add("compu:" + d.compu.tag)
            if isinstance(d, D.SimpleDop) and d.precision is not None:
                f.add("precision")
            if isinstance(d, D.SimpleDop) and d.radix is not None:
                f.add("display-radix")
        if p.dct is not None:
            _dct_feats(p.dct, f)

    def offs(params):
        for i, p in enumerate(params):
            if isinstance(p.dop, D.Struct):
                if p.dop.bytesize is not None and (i > 0 or (p.bytepos or 0) > 0):
                    f.add("offset>0")
    offs(comp.params)
    for p, _ in D.walk_params(comp.params):
        if isinstance(p.dop, D.Struct):
            offs(p.dop.params)
    if comp.kind != "request":
        f.add(comp.kind)
    return sorted(f)


def _dct_feats(dct, f):
    if dct.tag != "std":
        f.add(dct.tag)
    if dct.bt != "A_UINT32":
        f.add(dct.bt)
    if dct.enc not in (None, "NONE"):
        f.add(dct.enc)
    if not D.is_hl(dct) and not (isinstance(dct, D.Std) and dct.bitlen <= 8):
        f.add("low-high")
    if isinstance(dct, D.Std) and dct.mask is not None:
        f.add("condensed-bit-mask" if dct.condensed else "bit-mask")
    if isinstance(dct, D.MinMax):
        f.add("term:" + dct.term)


def _param_lists(comp):
    out = [comp.params]
    i = 0
    while i < len(out):
        for p in out[i]:
            for st in _child_structs(p):
                out.append(st.params)
        i += 1
    return out


def _child_structs(p):
    res = []
    if p.dop is not None:
        if isinstance(p.dop, D.Struct):
            res.append(p.dop)
        else:
            res += [s for _, s in D.sub_structs(p.dop)]
    if p.table is not None:
        res += [r.struct for r in p.table.rows if r.struct is not None]
    return res


def _structs(comp):
    out = []
    for lst in _param_lists(comp):
        for p in lst:
            out += _child_structs(p)
    return out


def mutations(comp):
    """candidate simplifications as (kind, i, j)"""
    lists = _param_lists(comp)
    # mutations must keep the description well-formed: where explicit BYTE-POSITIONs are involved only the
    # last parameter of a list may be removed and sizes are left alone
    pinned = [any(p.bytepos is not None for p in lst) for lst in lists]
    for li, lst in enumerate(lists):
        for pi in range(len(lst)):
            if not pinned[li] or pi == len(lst) - 1:
                yield ("del", li, pi)
    for li, lst in enumerate(lists):
        for pi, p in enumerate(lst):
            if isinstance(p.dop, D.Struct) and not pinned[li] and p.dop.bytesize is None and not any(q.bytepos is not None for q in p.dop.params):
                yield ("inline", li, pi)
            if pinned[li] or p.meta.get("first_of_end_marker_item"):
                pass
            elif isinstance(p.dop, D.SimpleDop) and not (isinstance(p.dop.dct, D.Std) and p.dop.dct.bitlen == 8 and p.dop.dct.bt == "A_UINT32"
                                                        and p.dop.dct.enc is None and p.dop.compu.tag == "identical"):
                yield ("u8", li, pi)
            if p.default is not None:
                yield ("nodefault", li, pi)
            if p.bitpos:
                yield ("nobitpos", li, pi)
            if isinstance(p.dop, D.FIELDS) and isinstance(p.dop, D.StaticField) and p.dop.count > 1:
                yield ("count1", li, pi)
            if isinstance(p.dop, D.Mux) and (len(p.dop.cases) > 1 or p.dop.default):
                yield ("mux1", li, pi)
    for si, st in enumerate(_structs(comp)):
        if st.bytesize is not None:
            yield ("nobs", si, 0)
    if comp.kind != "request":
        yield ("request", 0, 0)


def apply_mutation(comp, m):
    c = copy.deepcopy(comp)
    if hasattr(comp, "meta"):
        c.meta = {}
    kind, i, j = m
    if kind == "nobs":
        _structs(c)[i].bytesize = None
        return c
    if kind == "request":
        c.kind = "request"
        return c
    lst = _param_lists(c)[i]
    if kind == "del":
        if len(lst) <= 1 and i > 0:
            return None
        del lst[j]
    elif kind == "inline":
        lst[j:j + 1] = lst[j].dop.params
    elif kind == "u8":
        lst[j].dop = D.u8()
        lst[j].default = None
        lst[j].bitpos = None
    elif kind == "nodefault":
        lst[j].default = None
    elif kind == "nobitpos":
        lst[j].bitpos = None
    elif kind == "count1":
        lst[j].dop.count = 1
    elif kind == "mux1":
        if lst[j].dop.default:
            lst[j].dop.default = None
        else:
            lst[j].dop.cases = lst[j].dop.cases[:1]
    elif kind == "nopos":
        for p in lst:
            p.bytepos = None
            p.meta.pop("group", None)
    return c


def shrink(comp, failing, budget=120):
    """greedy delta debugging: `failing(desc)` returns a witness (truthy) if the failure persists"""
    best, wit = comp, None
    progress = True
    while progress and budget > 0:
        progress = False
        for m in list(mutations(best)):
            if budget <= 0:
                break
            try:
                cand = apply_mutation(best, m)
            except Exception:  # noqa
                continue
            if cand is None or not G.wf_static(cand):
                continue
            budget -= 1
            try:
                w = failing(cand)
            except Exception:  # noqa
                w = None
            if w:
                best, wit, progress = cand, w, True
                break
    return best, wit


# ------------------------------------------------------------------ C01
def c01_eval(comp, obj, value, trig, wf=True):
    """evaluate the round-trip statement on one input; returns None (holds / encoder did not accept) or
    (clause, observed, detail dict); also returns the encode result for further use"""
    enc = impl_encode(obj, value, trig)
    if not enc.ok:
        return None, enc, None
    if enc.warns and not wf:
        return None, enc, None            # deliberately overlapping description: the warning is the rejection
    dec = impl_decode(obj, enc.pdu)
    extra = {"pdu": enc.pdu.hex(), "warnings": enc.warns}
    if not dec.ok:
        return ("decodes-back", dec.status, {**extra, "error": dec.msg}), enc, dec
    try:
        exp = V.complete(comp, value, trig)
    except V.Unsupported:
        return None, enc, dec
    if V.norm(dec.value) != V.norm(exp):
        return ("returns-encoded-values", "mismatch", {**extra, "decoded": V.jsonable(dec.value), "expected": V.jsonable(exp)}), enc, dec
    if dec.max_cursor < len(enc.pdu):
        return ("consumes-whole-pdu", "not-consumed", {**extra, "consumed": dec.max_cursor, "length": len(enc.pdu)}), enc, dec
    return None, enc, dec


def witness(comp, value=None, trig=None, **kw):
    w = {"desc": D.to_json(comp), "sexp": sexp.composite(comp)[:4000]}
    if value is not None:
        w["value"] = V.jsonable(value)
    if trig is not None:
        w["trig"] = trig.hex()
    w.update(kw)
    return w


def c01_failing(clause, observed, seeds=8, warned=False):
    """predicate for the shrinker: some generated value reproduces (clause, observed) on the description"""
    def f(cand):
        L, err = safe_load(cand)
        if L is None:
            return None
        obj = L[cand.name]
        for s in range(seeds):
            rng = random.Random(s)
            try:
                v = V.gen_value(rng, cand)
                t = V.gen_trigger(rng, cand)
            except Exception:  # noqa
                continue
            r, enc, dec = c01_eval(cand, obj, v, t)
            if r and r[0] == clause and r[1] == observed and bool(enc.warns) == warned:
                return (v, t, r)
        return None
    return f


class Reporter:
    """turns failing inputs into ctx.violate calls: shrinks the first few of every coarse kind, de-duplicates"""

    def __init__(self, ctx, max_shrinks=6):
        self.ctx, self.seen, self.shrinks_left = ctx, {}, max_shrinks

    def report(self, prop_clause, observed, comp, value, trig, detail, failing=None, extra_features=(), what=None, fixed_features=None):
        # (witnesses with a fixed signature — corpus entries of recorded findings — are told apart by that signature, not by the
        #  coarse feature list, which two different findings may share)
        coarse = (prop_clause, observed, tuple(fixed_features) if fixed_features is not None else tuple(narrow_features(comp)))
        if coarse in self.seen:
            self.seen[coarse] += 1
            self.ctx.count(f"violations_duplicate[{prop_clause}/{observed}]")
            return
        self.seen[coarse] = 1
        shrunk, v, t, d = comp, value, trig, detail
        if failing is not None and self.shrinks_left > 0 and fixed_features is None and not os.environ.get("VERIF_NOSHRINK"):
            self.shrinks_left -= 1
            best, wit = shrink(comp, failing)
            if wit:
                shrunk, (v, t, r) = best, wit
                d = r[2]
        feats = list(fixed_features) if fixed_features is not None else narrow_features(shrunk, extra_features)
        key2 = (prop_clause, observed, tuple(feats))
        if key2 in self.seen and key2 != coarse:
            self.seen[key2] += 1
            return
        self.seen[key2] = 1
        self.ctx.violate(prop_clause, feats, observed, witness(shrunk, v, t, **(d or {})),
                         what or f"{prop_clause}: {observed} on a description with features {feats}")


def c01_check(ctx, rep, corr, comp, obj, value, trig, family, wf=True, fixed_features=None, what=None):
    """one C01 case: direct oracle + correspondence lines; returns the encode result"""
    r, enc, dec = c01_eval(comp, obj, value, trig, wf)
    ctx.case((sexp.composite(comp), sexp.pval(value), trig), nontrivial=enc.ok and len(enc.pdu) > 1)
    ctx.count("c01_" + ("roundtrips" if enc.ok and r is None else "encoder-rejected:" + enc.status if not enc.ok else "fails"))
    if enc.ok and enc.warns:
        ctx.count("c01_encoded_with_warning")
    if corr is not None:
        corr.add(family, comp, sexp.encode_line(comp, value, trig), reply_encode(enc))
        if enc.ok and dec is not None:
            corr.add(family, comp, sexp.decode_line(comp, enc.pdu), reply_decode(dec))
    if r:
        rep.report(r[0], r[1], comp, value, trig, r[2], failing=c01_failing(r[0], r[1], warned=bool(enc.warns)),
                   extra_features=(["overlap-warning"] if enc.warns else []), fixed_features=fixed_features, what=what)
    return enc


# ------------------------------------------------------------------ C03
def strip_for_reencode(comp_params, value):
    """decoded value tree -> what is fed back to the encoder: NRC-CONST values cannot be supplied ('cannot be set
    directly'), everything else is passed back as decoded"""
    out = {}
    for p in comp_params:
        if p.name not in value:
            continue
        v = value[p.name]
        if p.type == "nrc-const":
            continue
        if isinstance(p.dop, D.Struct) and isinstance(v, dict):
            v = strip_for_reencode(p.dop.params, v)
        elif isinstance(p.dop, D.FIELDS) and isinstance(v, list):
            v = [strip_for_reencode(p.dop.item.params, x) if isinstance(x, dict) else x for x in v]
        out[p.name] = v
    return out


def c03_eval(comp, obj, pdu, trig=None):
    """decode then re-encode; None if the statement holds or the PDU does not decode; else (clause, observed, detail)"""
    dec = impl_decode(obj, pdu)
    if not dec.ok:
        return None, dec, None
    if not isinstance(dec.value, dict):
        return ("re-encode", "foreign:non-dict", {"pdu": pdu.hex()}), dec, None
    val = strip_for_reencode(comp.params, dec.value)
    enc = impl_encode(obj, val, trig)
    d = {"pdu": pdu.hex(), "decoded": V.jsonable(dec.value)}
    if not enc.ok:
        return ("re-encode-accepted", enc.status, {**d, "error": enc.msg}), dec, enc
    if enc.pdu != bytes(pdu):
        return ("re-encode-identical", "different-pdu", {**d, "reencoded": enc.pdu.hex()}), dec, enc
    return None, dec, enc


def c03_failing(clause, observed, seeds=6):
    def f(cand):
        L, err = safe_load(cand)
        if L is None:
            return None
        obj = L[cand.name]
        for s in range(seeds):
            rng = random.Random(s)
            try:
                v = V.gen_value(rng, cand)
                t = V.gen_trigger(rng, cand)
            except Exception:  # noqa
                continue
            enc = impl_encode(obj, v, t)
            if not enc.ok or enc.warns:
                continue
            r, dec, enc2 = c03_eval(cand, obj, enc.pdu, t)
            if r and r[0] == clause and r[1] == observed:
                return (v, t, r)
        return None
    return f


_NO_EXPECTATION = object()


def c03_check(ctx, rep, corr, comp, obj, pdu, trig, family, shrinkable=True, fixed_features=None, what=None, placed=_NO_EXPECTATION):
    """placed: the value tree whose wire form `pdu` is (reference-built PDUs): decode must return exactly it (clause wire-decode)"""
    r, dec, enc = c03_eval(comp, obj, pdu, trig)
    if placed is not _NO_EXPECTATION:
        if dec.ok and V.norm(dec.value) != V.norm(placed):
            rep.report("wire-decode", "different-values", comp, None, trig,
                       {"pdu": bytes(pdu).hex(), "decoded": V.jsonable(dec.value), "placed": V.jsonable(placed)}, extra_features=["reference-pdu"])
        elif not dec.ok:
            rep.report("wire-decode", dec.status, comp, None, trig, {"pdu": bytes(pdu).hex(), "placed": V.jsonable(placed), "error": dec.msg},
                       extra_features=["reference-pdu"])
    ctx.case((sexp.composite(comp), bytes(pdu), trig), nontrivial=dec.ok and len(pdu) > 1)
    ctx.count("c03_" + ("undecodable:" + dec.status if not dec.ok else "reencodes" if r is None else "fails"))
    if corr is not None:
        corr.add(family, comp, sexp.decode_line(comp, pdu), reply_decode(dec))
        if dec.ok and enc is not None and isinstance(dec.value, dict):
            try:
                corr.add(family, comp, sexp.encode_line(comp, strip_for_reencode(comp.params, dec.value), trig), reply_encode(enc))
            except TypeError:
                pass
    if r:
        rep.report(r[0], r[1], comp, None, trig, r[2], failing=c03_failing(r[0], r[1]) if shrinkable else None,
                   fixed_features=fixed_features, what=what)
    return r


def wire_pdus(rng, comp, exhaustive_bits=8, samples=12, cap=600, cap_all=False, only=None):
    """canonical PDUs built by direct bit placement (odxgen.refpdu) for a simple-tier composite:
    every raw value of value slots <= exhaustive_bits wide (one slot varied at a time around a random base),
    sampled/boundary raw values of wider ones.  Yields (pdu, expected value tree, trig)."""
    sl, length = refpdu.slots(comp)
    trig = V.gen_trigger(rng, comp)
    vslots = [s for s in sl if s.kind == "value"]

    def cands(s):
        m = s.mask
        if isinstance(s.dop, D.DtcDop):
            # every described trouble code (own, DTC-REF, inherited through LINKED-DTC-DOPS), whatever the width of the coded type
            # (the coded values of the described trouble codes: the code itself, or its LINEAR pre-image)
            return sorted({x for x in (D.dtc_coded_of_code(s.dop, c) for c, _ in D.effective_dtcs(s.dop)) if x is not None and 0 <= x < (1 << s.n)})
        if s.n <= exhaustive_bits:
            return [r for r in range(1 << s.n) if r & ~m == 0]
        out = {0, 1, m, m >> 1, (m >> 1) + 1, 1 << (s.n - 1), (1 << s.n) - 1 & m}
        out |= {rng.getrandbits(s.n) & m for _ in range(samples)}
        if s.dct.bt in D.STRINGS + ("A_BYTEFIELD",):
            for _ in range(samples):
                try:
                    out.add(refpdu.raw_of_internal(s.dct, V.gen_internal(rng, s.dct)))
                except V.Unsupported:
                    pass
        return sorted(out)

    base = {}
    for s in vslots:
        ok = [r for r in cands(s) if refpdu.value_of_raws(comp, [s], {s.path: r}, trig) is not None]
        if not ok:
            return
        base[s.path] = ok
    cur = {p: rng.choice(v) for p, v in base.items()}
    n = 0
    seen = set()
    for s in ([x for x in vslots if only is None or x.path in only] or [None]):
        for r in (base[s.path] if s else [None]):
            raws = dict(cur)
            if s:
                raws[s.path] = r
            exp = refpdu.value_of_raws(comp, sl, raws, trig)
            if exp is None:
                continue
            pdu, used, overlap = refpdu.assemble(sl, length, raws, trig)
            if overlap or pdu in seen:
                continue
            seen.add(pdu)
            yield pdu, exp, trig
            if cap_all or s is None or s.n > exhaustive_bits:
                n += 1              # (enumeration families) the cap only limits sampled wide objects; small ones are exhaustive
            if n >= cap:
                break


# ------------------------------------------------------------------ C03: compu methods
def compu_roundtrip(ctx, rep, dop_desc, dop_obj, internals, family):
    """int -> phys -> int identity on every valid internal value of an injective conversion (and phys->int->phys
    on the values so obtained)"""
    cm = dop_obj.compu_method
    for i in internals:
        try:
            if not cm.is_valid_internal_value(i):
                ctx.count("compu_invalid_internal")
                continue
            p = cm.convert_internal_to_physical(i)
        except Exception as e:  # noqa
            ctx.count("compu_forward_error:" + err_class(e))
            continue
        ctx.case(("compu", sexp.dop(dop_desc), i), nontrivial=True)
        try:
            okp = cm.is_valid_physical_value(p)
            back = cm.convert_physical_to_internal(p) if okp else None
            status = "ok"
        except Exception as e:  # noqa
            okp, back, status = None, None, err_class(e)
        if status != "ok" or not okp or back != i or type(back) is not type(i):
            obs = status if status != "ok" else ("physical-value-rejected" if not okp else "different-internal")
            yield i, p, back, obs


# ------------------------------------------------------------------ C08
def popcount(b: bytes) -> int:
    return bin(int.from_bytes(b, "big")).count("1") if b else 0


def c08_static_length(ctx, rep, comp, obj, enc, value, trig, fixed_features=None, what=None):
    """8 * len(encode(v)) == get_static_bit_length() whenever that is not None"""
    try:
        sl = obj.get_static_bit_length()
    except Exception as e:  # noqa
        rep.report("static-length", err_class(e), comp, value, trig, {"error": str(e)[:200]}, fixed_features=fixed_features)
        return None
    ctx.count("c08_static_length_" + ("none" if sl is None else "known"))
    if sl is not None and enc.ok and 8 * len(enc.pdu) != sl:
        rep.report("static-length", "length-mismatch", comp, value, trig,
                   {"static_bits": sl, "encoded_bits": 8 * len(enc.pdu), "pdu": enc.pdu.hex()},
                   failing=c08_len_failing(), fixed_features=fixed_features, what=what)
    return sl


def c08_len_failing(seeds=6):
    def f(cand):
        L, err = safe_load(cand)
        if L is None:
            return None
        obj = L[cand.name]
        try:
            sl = obj.get_static_bit_length()
        except Exception:  # noqa
            return None
        if sl is None:
            return None
        for s in range(seeds):
            rng = random.Random(s)
            try:
                v = V.gen_value(rng, cand)
                t = V.gen_trigger(rng, cand)
            except Exception:  # noqa
                continue
            enc = impl_encode(obj, v, t)
            if enc.ok and 8 * len(enc.pdu) != sl:
                return (v, t, ("static-length", "length-mismatch", {"static_bits": sl, "encoded_bits": 8 * len(enc.pdu), "pdu": enc.pdu.hex()}))
        return None
    return f


def c08_parts(ctx, rep, comp, obj, value, trig):
    """static length of parameters / DOPs / nested structures against stand-alone encodings of each part"""
    from odxtools.encodestate import EncodeState
    full = None
    try:
        full = V.complete(comp, value, trig)
    except Exception:  # noqa
        return

    def walk(params_desc, params_obj, vals, path):
        for pd, po in zip(params_desc, params_obj):
            try:
                n = po.get_static_bit_length()
            except Exception as e:  # noqa
                rep.report("static-length-param", err_class(e), comp, value, trig, {"param": pd.name})
                continue
            v = vals.get(pd.name) if isinstance(vals, dict) else None
            if n is not None and pd.type in ("value", "phys-const", "coded-const", "reserved", "matching-request", "system", "nrc-const"):
                with warnings.catch_warnings(record=True):
                    warnings.simplefilter("always")
                    try:
                        es = EncodeState(triggering_request=trig, is_end_of_pdu=False)
                        arg = None if pd.type in ("coded-const", "phys-const", "reserved", "matching-request", "nrc-const") else V.to_impl(v)
                        po.encode_into_pdu(arg, es)
                        start = pd.bytepos or 0
                        occupied = es.cursor_byte_position - start
                        want = ((pd.bitpos or 0) + n + 7) // 8
                        ctx.count("c08_param_static_checked")
                        claimed = popcount(bytes(es.used_mask))
                        atomic = isinstance(pd.dop, D.SimpleDop) or pd.type == "coded-const"
                        dct = pd.dct if pd.dct is not None else (pd.dop.dct if isinstance(pd.dop, D.SimpleDop) else None)
                        masked = dct is not None and isinstance(dct, D.Std) and dct.mask is not None
                        if occupied != want or (atomic and not masked and claimed != n):
                            rep.report("static-length-param", "length-mismatch", comp, value, trig,
                                       {"param": pd.name, "static_bits": n, "occupied_bytes": occupied, "claimed_bits": claimed},
                                       extra_features=["param-level"])
                    except Exception as e:  # noqa
                        ctx.count("c08_param_encode_error:" + err_class(e))
            # nested structure: 8 * len(encoding) == static length
            if isinstance(pd.dop, D.Struct) and isinstance(v, dict) and hasattr(po, "dop"):
                try:
                    sn = po.dop.get_static_bit_length()
                    if sn is not None:
                        with warnings.catch_warnings(record=True):
                            warnings.simplefilter("always")
                            es = EncodeState(triggering_request=trig, is_end_of_pdu=False)
                            po.dop.encode_into_pdu(V.to_impl(v), es)
                        ctx.count("c08_struct_static_checked")
                        if 8 * len(es.coded_message) != sn:
                            rep.report("static-length-structure", "length-mismatch", comp, value, trig,
                                       {"param": pd.name, "static_bits": sn, "encoded_bits": 8 * len(es.coded_message)},
                                       extra_features=["structure-level"])
                    walk(pd.dop.params, po.dop.parameters, v, path + (pd.name,))
                except Exception as e:  # noqa
                    ctx.count("c08_struct_encode_error:" + err_class(e))

    try:
        walk(comp.params, obj.parameters, full, ())
    except Exception as e:  # noqa
        ctx.count("c08_parts_error:" + err_class(e))


def c08_prefix(ctx, rep, comp, obj, enc, value, trig):
    if not hasattr(obj, "coded_const_prefix") or not enc.ok:
        return None
    try:
        with warnings.catch_warnings(record=True):
            warnings.simplefilter("always")
            pre = bytes(obj.coded_const_prefix(request_prefix=trig or b""))
    except Exception as e:  # noqa
        rep.report("const-prefix", err_class(e), comp, value, trig, {"error": str(e)[:200], "pdu": enc.pdu.hex()})
        return None
    ctx.count("c08_prefix_checked")
    ctx.histo("prefix_length", len(pre))
    if not enc.pdu.startswith(pre):
        rep.report("const-prefix", "not-a-prefix", comp, value, trig, {"prefix": pre.hex(), "pdu": enc.pdu.hex()})
    return pre


def other_value(rng, comp, p, value):
    """a second valid value for parameter p that differs from value[p.name] (None if there is none to be had)"""
    cur = value.get(p.name, p.default)

    def full(v):
        try:
            return V.norm(V.complete_dop(p.dop, v, value, comp.params)) if p.dop is not None else V.norm(v)
        except Exception:  # noqa
            return V.norm(v)
    for _ in range(12):
        try:
            if p.meta.get("values"):
                v = rng.choice(p.meta["values"])
            elif p.type == "table-key":
                v = rng.choice(p.table.rows).name
            else:
                v = V.gen_dop_value(rng, p.dop, value, comp.params)
        except Exception:  # noqa
            return None
        if full(v) != full(cur):
            return v
    return None


def c08_required_free(ctx, rep, comp, obj, value, trig, rng, max_params=5):
    """required parameters = exactly those whose omission fails (all subsets of supplied parameters);
    free parameters = exactly those whose value reaches the wire"""
    try:
        required = {p.short_name for p in obj.required_parameters}
        free = {p.short_name for p in obj.free_parameters}
    except Exception as e:  # noqa
        rep.report("required-free", err_class(e), comp, value, trig, {"error": str(e)[:200]})
        return
    # a full assignment: every parameter that can be supplied gets an explicit value
    full = dict(value)
    try:
        comp_full = V.complete(comp, value, trig)
    except Exception:  # noqa
        return
    for p in comp.params:
        if p.name not in full and p.name in free and p.name in comp_full:
            full[p.name] = comp_full[p.name]
    base = impl_encode(obj, full, trig)
    if not base.ok or base.warns:
        ctx.count("c08_subsets_skipped(full assignment not accepted)")
        return
    names = [p.name for p in comp.params if p.name in full]
    if len(names) <= max_params:
        for k in range(len(names) + 1):
            for sub in itertools.combinations(names, k):
                sv = {n: full[n] for n in sub}
                r = impl_encode(obj, sv, trig)
                ctx.count("c08_subsets_evaluated")
                missing_required = required - set(sub)
                if missing_required and r.ok:
                    rep.report("required-parameters", "omission-accepted", comp, sv, trig,
                               {"required": sorted(required), "supplied": list(sub), "pdu": r.pdu.hex()},
                               extra_features=["required-omitted"])
                elif not missing_required and not r.ok:
                    rep.report("required-parameters", "omission-of-non-required-fails:" + r.status, comp, sv, trig,
                               {"required": sorted(required), "supplied": list(sub), "omitted": sorted(set(names) - set(sub)), "error": r.msg},
                               extra_features=["non-required-omitted"] + sorted({q.type for q in comp.params if q.name in set(names) - set(sub)}))
    # free parameters reach the wire, non-free ones do not
    for p in comp.params:
        if p.name in free:
            if p.type == "length-key":
                users = V.users_of_key(comp.params, p.name)
                if not users or users[0].dop.dct.bt not in ("A_INT32", "A_UINT32"):
                    ctx.count("c08_free_skipped(length-key of a byte/string object)")
                    continue
            if p.type == "table-key" and any(u.type == "table-struct" and u.key == p.name for u in comp.params):
                ctx.count("c08_free_skipped(table-key with table-struct)")
                continue
            if p.type == "table-key" and p.row is not None:
                ctx.count("c08_free_skipped(static table row)")
                continue
            if p.type == "length-key":
                cur = full.get(p.name)
                alt = (cur or 0) + 8 if isinstance(cur, int) else None
                if alt is not None:
                    try:
                        alt = V.to_physical(p.dop, V.to_internal(p.dop, alt))
                    except Exception:  # noqa
                        alt = None
            else:
                alt = other_value(rng, comp, p, full)
            if alt is None:
                ctx.count("c08_free_skipped(single-valued)")
                continue
            v2 = dict(full)
            v2[p.name] = alt
            if any(isinstance(q.dop, D.EnvDataDesc) and q.dop.param == p.name for q in comp.params):
                ctx.count("c08_free_skipped(dtc selects env data)")
                continue
            r2 = impl_encode(obj, v2, trig)
            ctx.count("c08_free_evaluated")
            if r2.ok and not r2.warns and r2.pdu == base.pdu:
                rep.report("free-parameters", "value-does-not-reach-the-wire", comp, v2, trig,
                           {"param": p.name, "pdu": base.pdu.hex(), "value1": V.jsonable(full.get(p.name)), "value2": V.jsonable(alt)},
                           extra_features=["free:" + p.type])
            elif not r2.ok:
                ctx.count("c08_free_second_value_rejected:" + r2.status)
        else:
            # not settable: a caller-supplied value is either rejected or ignored
            probe = {"coded-const": _other_atomic(p.value), "phys-const": _other_atomic(p.value), "reserved": 1, "matching-request": 1,
                     "nrc-const": None}.get(p.type)
            if probe is None:
                continue
            v2 = dict(full)
            v2[p.name] = probe
            r2 = impl_encode(obj, v2, trig)
            ctx.count("c08_nonfree_evaluated")
            if r2.ok and r2.pdu != base.pdu:
                rep.report("free-parameters", "non-free-value-reaches-the-wire", comp, v2, trig,
                           {"param": p.name, "pdu": base.pdu.hex(), "pdu2": r2.pdu.hex()}, extra_features=["nonfree:" + p.type])


def _other_atomic(v):
    if isinstance(v, bool):
        return not v
    if isinstance(v, int):
        return v + 1 if v != 1 else 0
    if isinstance(v, float):
        return 2.5 if v != 2.5 else 3.5
    if isinstance(v, str):
        return v + "x" if v else "x"
    if isinstance(v, (bytes, bytearray)):
        return bytes(v) + b"\x01"
    return None


# ------------------------------------------------------------------ measured input distribution
def record_features(ctx, comp):
    for name, key in G.features(comp):
        ctx.histo(name, key)
