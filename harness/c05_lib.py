"""C05, round 6: two enumerated small-scope families, the static *prefix* of a dynamic layout, public entry points.

enum-wide-objects     every kind of object whose size is fixed by the description (RESERVED, STANDARD-LENGTH unsigned / signed /
                      low-high integers, CODED-CONST, byte fields, ASCII / UCS-2 strings, MATCHING-REQUEST-PARAM) x every width
                      around the limits of the extraction routine (1 ... 64 | 65 ... 520 bits) x bit position x what stands
                      behind / around it (nothing, a byte, an END-OF-PDU field, an END-OF-PDU terminated byte field, a structure,
                      a static field, an END-OF-PDU field item, a response).
enum-table-key-dops   a TABLE whose KEY-DOP is of every kind (unsigned / signed / low-high integers, LINEAR to integers and to
                      floats, TEXTTABLE, ASCII / UTF-8 / UCS-2 strings, byte fields, float objects, LEADING-LENGTH and MIN-MAX
                      objects) x where TABLE-KEY and TABLE-STRUCT stand x PDUs whose key is a row's key, a *valid physical value of
                      the KEY-DOP that selects no row*, a value selecting two rows, or not a value of the KEY-DOP at all.

Nothing here looks at odxtools: PDUs are written from the ODX positional rules (refpdu.raw_of_internal)."""
import signal
import warnings

import codec_oracles as O
from odxgen import desc as D
from odxgen import refpdu
from odxgen import values as V

val, u8 = D.value, D.u8


def rq(*params, name="RQ", kind="request"):
    return D.Composite(name, kind, [D.sid()] + list(params))


# ------------------------------------------------------------------ the static prefix of a layout
def static_prefix_need(comp):
    """number of bytes a PDU must have so that every described object of the *static prefix* of the layout exists: the
    longest run of leading parameters whose positions and sizes are fixed by the description (refpdu.slots). For a static
    layout this is the end of the last described object; for a layout that ends in objects which tolerate an exhausted PDU
    (END-OF-PDU field, END-OF-PDU terminated object, multiplexer, table structure, ...) it is the end of the last object in
    front of them. (need, is the whole layout static)"""
    from odxgen import gen as G
    params = list(comp.params)
    for k in range(len(params), 0, -1):
        head = params[:k]
        try:
            if G.params_extent(head) is None:
                continue
            sl, _length = refpdu.slots(D.Composite(comp.name, "request" if comp.kind != "structure" else "structure", head))
        except Exception:  # noqa
            continue
        return max([s.pos + s.nbytes for s in sl] or [0]), k == len(params)
    return None, False


# ------------------------------------------------------------------ enum-wide-objects
WIDTHS = [1, 7, 8, 9, 31, 32, 33, 63, 64, 65, 71, 72, 73, 96, 127, 128, 129, 200, 256, 520]
WIDE_KINDS = ["reserved", "uint", "uint-low-high", "int", "coded-const", "bytes", "ascii", "ucs2", "matching-request"]
WIDE_PLACEMENTS = ["last", "then-byte", "then-eop-field", "then-eop-bytes", "in-struct", "in-struct-then-eop-field", "response",
                   "static-field-item", "eop-field-item"]


def wide_leaf(kind, n, bp):
    """the parameter `w` (None = the kind has no object of this width / bit position)"""
    numeric = kind in ("reserved", "uint", "uint-low-high", "int", "coded-const")
    if not numeric and (bp or n % (16 if kind == "ucs2" else 8)):
        return None
    if kind == "reserved":
        return D.reserved("w", n, bitpos=bp)
    if kind == "uint":
        return val("w", D.SimpleDop(D.Std("A_UINT32", n), "A_UINT32"), bitpos=bp)
    if kind == "uint-low-high":
        return val("w", D.SimpleDop(D.Std("A_UINT32", n, None, False), "A_UINT32"), bitpos=bp)
    if kind == "int":
        return val("w", D.SimpleDop(D.Std("A_INT32", n), "A_INT32"), bitpos=bp)
    if kind == "coded-const":
        if n > 64:
            # an integer constant that odxtools can never encode (EncodeError "cannot be longer than 64 bits" from every
            # coded_const_prefix(), i.e. also from DiagService.decode_message): an ill-formed description, outside the envelope
            return None
        return D.coded_const("w", D.Std("A_UINT32", n), 1, bitpos=bp)
    if kind == "bytes":
        return val("w", D.SimpleDop(D.Std("A_BYTEFIELD", n), "A_BYTEFIELD"))
    if kind == "ascii":
        return val("w", D.SimpleDop(D.Std("A_ASCIISTRING", n), "A_ASCIISTRING"))
    if kind == "ucs2":
        return val("w", D.SimpleDop(D.Std("A_UNICODE2STRING", n), "A_UNICODE2STRING"))
    if kind == "matching-request":
        return D.matching_request("w", 0, n // 8)
    raise ValueError(kind)


def wide_composite(kind, n, bp, placement, name="W"):
    w = wide_leaf(kind, n, bp)
    if w is None:
        return None
    if kind == "matching-request" and placement != "response":
        return None
    nbytes = ((bp or 0) + n + 7) // 8
    eop = lambda: val("f", D.EopField(D.Struct([val("a", u8())])))      # noqa: E731
    if placement == "last":
        ps, k = [w], "request"
    elif placement == "then-byte":
        ps, k = [w, val("y", u8())], "request"
    elif placement == "then-eop-field":
        ps, k = [w, eop()], "request"
    elif placement == "then-eop-bytes":
        ps, k = [w, val("b", D.SimpleDop(D.MinMax("A_BYTEFIELD", 0, None, "END-OF-PDU"), "A_BYTEFIELD"))], "request"
    elif placement == "in-struct":
        ps, k = [val("s", D.Struct([w]))], "request"
    elif placement == "in-struct-then-eop-field":
        ps, k = [val("s", D.Struct([w])), eop()], "request"
    elif placement == "response":
        ps, k = [w], "pos-response"
    elif placement == "static-field-item":
        ps, k = [val("f", D.StaticField(2, nbytes, D.Struct([w])))], "request"
    elif placement == "eop-field-item":
        ps, k = [val("f", D.EopField(D.Struct([w])))], "request"
    else:
        raise ValueError(placement)
    return D.Composite(name, k, [D.sid()] + ps)


def enum_wide(rng=None):
    """(composite, info) -- all of them (rng None) or, per (kind, width), one (bit position, placement) drawn from rng"""
    i = 0
    for kind in WIDE_KINDS:
        for n in WIDTHS:
            combos = [(bp, pl) for bp in (None, 3, 7) for pl in WIDE_PLACEMENTS]
            combos = [(bp, pl) for bp, pl in combos if wide_composite(kind, n, bp, pl) is not None]
            if not combos:
                continue
            if rng is not None:
                combos = [rng.choice(combos)]
            for bp, pl in combos:
                i += 1
                c = wide_composite(kind, n, bp, pl, name=f"W{i}")
                yield c, {"kind": kind, "width": n, "bitpos": bp or 0, "placement": pl}


def wide_pdus(rng, comp, info, need):
    """complete PDUs written by hand: SID, every further byte random / ff / 00; long enough for the static prefix, one END-OF-PDU
    item behind it (and two items of the field when the wide object is the item)"""
    n = max(need or 1, 1)
    if info["placement"] == "eop-field-item":
        n = 1 + 2 * (((info["bitpos"] + info["width"]) + 7) // 8)
    elif info["placement"] in ("then-eop-field", "then-eop-bytes", "in-struct-then-eop-field"):
        n += 2
    sid = b"\x22"
    return [sid + bytes(rng.getrandbits(8) for _ in range(n - 1)), sid + b"\xff" * (n - 1), sid + bytes(n - 1)]


# ------------------------------------------------------------------ enum-table-key-dops
def _std(bt, n, phys=None, compu=None, **kw):
    return D.SimpleDop(D.Std(bt, n, **kw), phys or bt, compu or D.Identical())


def key_dops():
    """(name, KEY-DOP, bit position of the TABLE-KEY, three row keys, valid physical values of the KEY-DOP that are no row's key)"""
    tt = D.TextTable([(0, 0, "off"), (1, 1, "on"), (2, 5, "err"), (7, 7, "n/a")])
    return [
        ("uint8", _std("A_UINT32", 8), None, [1, 2, 200], [0, 3, 255]),
        ("uint16-low-high", _std("A_UINT32", 16, hl=False), None, [1, 0x1234, 0xffff], [0, 0x3412, 0x0100]),
        ("uint4-bitpos", _std("A_UINT32", 4), 4, [1, 2, 15], [0, 3]),
        ("int8", _std("A_INT32", 8), None, [-1, 0, 5], [-128, 1, 127]),
        ("int16-sign-magnitude", _std("A_INT32", 16, enc="SM"), None, [-2, 0, 300], [2, -300]),
        ("linear-to-int", _std("A_UINT32", 8, "A_INT32", D.Linear(1, 2, 1)), None, [1, 3, 201], [5, 511]),
        ("linear-to-float", _std("A_UINT32", 8, "A_FLOAT64", D.Linear(0, 1, 2)), None, [0.5, 1.0, 100.0], [0.0, 1.5, 127.5]),
        ("linear-negated", _std("A_INT32", 8, "A_INT32", D.Linear(0, -1, 1)), None, [0, 1, 128], [-127, 5]),
        ("texttable", _std("A_UINT32", 8, "A_UNICODE2STRING", tt), None, ["off", "on", "n/a"], ["err"]),
        ("ascii", _std("A_ASCIISTRING", 16), None, ["AA", "AB", "zz"], ["AC", "A ", "00"]),
        ("ascii-as-unicode", _std("A_ASCIISTRING", 16, "A_UNICODE2STRING"), None, ["AA", "AB", "zz"], ["AC", "BA"]),
        ("utf8", _std("A_UTF8STRING", 16), None, ["ab", "cd", "ä"], ["ac", "ö"]),
        ("ucs2", _std("A_UNICODE2STRING", 32), None, ["ab", "cd", "€1"], ["ba", "ää"]),
        ("bytes", _std("A_BYTEFIELD", 16), None, [b"\x01\x02", b"\xff\x00", b"\x00\x00"], [b"\x02\x01", b"\xff\xff"]),
        ("float32", _std("A_FLOAT32", 32), None, [1.0, 2.5, -0.5], [0.0, 3.0, 1e30]),
        ("float64", _std("A_FLOAT64", 64), None, [1.0, 2.5, -0.5], [0.0, 1e300]),
        ("leading-length-bytes", D.SimpleDop(D.Leading("A_BYTEFIELD", 8), "A_BYTEFIELD"), None, [b"\x01", b"\x01\x02", b""], [b"\x02", b"\x01\x02\x03"]),
        ("min-max-ascii", D.SimpleDop(D.MinMax("A_ASCIISTRING", 1, 4, "ZERO"), "A_ASCIISTRING"), None, ["a", "bc", "abcd"], ["b", "abc"]),
    ]


KEY_SHAPES = ["direct", "value-between", "key-without-user", "in-struct", "response", "two-rows-one-key", "eop-field-item"]


def key_wire(kd, phys, bp=0):
    """bytes of the key object on the wire (object at a byte boundary, bit position bp), from the ODX rules; None = not expressible"""
    dct = kd.dct
    try:
        x = V.to_internal(kd, phys)
        if x is None:
            return None
        if isinstance(dct, D.Std):
            raw = refpdu.raw_of_internal(dct, x)
            k = (dct.bitlen + bp + 7) // 8
            return (raw << bp).to_bytes(k, "big" if refpdu.numeric_order(dct) else "little")
        b = bytes(x) if dct.bt == "A_BYTEFIELD" else x.encode(V.str_codec(dct.bt, dct.enc, D.is_hl(dct)))
        if isinstance(dct, D.Leading):
            return len(b).to_bytes(dct.bitlen // 8, "big") + b
        if isinstance(dct, D.MinMax):
            return b + (b"\x00" if dct.max is None or len(b) < dct.max else b"")
    except Exception:  # noqa
        return None
    return None


def key_composite(kd, bp, keys, shape, name="T"):
    rows = [D.TableRow("r1", keys[0], struct=D.Struct([val("a", u8())])), D.TableRow("r2", keys[1], dop=u8(16)), D.TableRow("r3", keys[2])]
    if shape == "two-rows-one-key":
        rows.append(D.TableRow("r4", keys[0], struct=D.Struct([val("a", u8()), val("b", u8())])))
    t = D.Table(kd, rows)
    tk, ts = D.table_key("tk", t, bitpos=bp), D.table_struct("ts", "tk")
    if shape in ("direct", "two-rows-one-key"):
        return rq(tk, ts, name=name)
    if shape == "value-between":
        return rq(tk, val("m", u8()), ts, name=name)
    if shape == "key-without-user":
        return rq(tk, val("y", u8()), name=name)
    if shape == "in-struct":
        return rq(val("s", D.Struct([tk, ts])), val("y", u8()), name=name)
    if shape == "response":
        return rq(tk, ts, name=name, kind="pos-response")
    if shape == "eop-field-item":
        return rq(val("f", D.EopField(D.Struct([tk, ts]))), name=name)
    raise ValueError(shape)


def enum_table_keys():
    """(composite, info); info['pdus']: (what the key on the wire is, PDU written by hand)"""
    i = 0
    for kname, kd, bp, keys, others in key_dops():
        for shape in KEY_SHAPES:
            i += 1
            c = key_composite(kd, bp, keys, shape, name=f"T{i}")
            mid = b"\x07" if shape == "value-between" else b""
            pdus = []
            for what, vs in (("row-key", keys), ("valid-key-without-row", others)):
                for v in vs:
                    w = key_wire(kd, v, bp or 0)
                    if w is not None:
                        pdus.append((what, b"\x22" + w + mid + b"\x05\x06"))
                        if shape == "eop-field-item":
                            w2 = key_wire(kd, keys[0], bp or 0)
                            if w2 is not None:
                                pdus.append((what + "-second-item", b"\x22" + w2 + b"\x05" + w + mid + b"\x05\x06"))
            yield c, {"key-dop": kname, "shape": shape, "bitpos": bp or 0, "pdus": pdus}


def key_strings(rng, hand, own, whats):
    """(family, bytes): the PDUs written by hand and the library's own encodings, every proper prefix of them; every byte of one PDU
    of each kind (row key / valid key without row / own encoding) set to ff, +1, bit 7 flipped; extensions; all strings of
    length <= 1 over a small alphabet, a few of length 2 and random ones"""
    seen = set()

    def emit(fam, b):
        b = bytes(b)
        if (b in seen) and fam not in ("hand", "own"):
            return None
        seen.add(b)
        return fam, b
    out = [emit("hand", p) for p in hand] + [emit("own", p) for p in own]
    for p in hand + own:
        out += [emit("prefix", p[:k]) for k in range(len(p))]
    picks, kinds = [], set()
    for w, p in zip(whats, hand):
        if w not in kinds:
            kinds.add(w)
            picks.append(p)
    picks = [p for w, p in zip(whats, hand) if w in kinds and p in picks and not w.endswith("-second-item")] + own[:1]
    for p in picks:
        for i in range(len(p)):
            for nb in {0xff, (p[i] + 1) & 0xff, p[i] ^ 0x80}:
                if nb != p[i]:
                    out.append(emit("mutation", p[:i] + bytes([nb]) + p[i + 1:]))
        for ext in (b"\x00", b"\xff", p, bytes(40)):
            out.append(emit("extension", p + ext))
        if len(p) > 2:
            i = rng.randrange(1, len(p))
            out.append(emit("deletion", p[:i] + p[i + 1:]))
    alpha = [0x00, 0x01, 0x02, 0x03, 0x22, 0x41, 0x61, 0x7f, 0x80, 0xff]
    out += [emit("small", bytes([a])) for a in alpha]
    out += [emit("small", bytes([0x22, a])) for a in alpha]
    for _ in range(6):
        out.append(emit("random", bytes([rng.choice([0x22, 0x22, rng.getrandbits(8)])]) + bytes(rng.getrandbits(8) for _ in range(rng.choice([1, 2, 3, 5, 8, 20])))))
    return [x for x in out if x is not None]


# ------------------------------------------------------------------ public entry points of a generated document
def _guarded(f, args, timeout=5):
    old = signal.signal(signal.SIGALRM, O._alarm)
    signal.alarm(timeout)
    try:
        with warnings.catch_warnings():
            warnings.simplefilter("ignore")
            return "ok", f(*args)
    except O.Hang:
        return "hang", None
    except Exception as e:  # noqa
        return O.err_class(e), str(e)[:160]
    finally:
        signal.alarm(0)
        signal.signal(signal.SIGALRM, old)


LITE_ENTRIES = ("Request.decode", "Response.decode", "DiagLayer.decode")


def public_entries(L, comp):
    """[(entry point, callable, extra arguments)] for the coding object of a composite loaded by xmlgen.load: what a user of the
    library calls (the coding object's own decode(), its service, its layer). Every access is defensive."""
    out = []
    try:
        obj = L[comp.name]
        if comp.kind == "structure":
            return out
        f = getattr(obj, "decode", None)
        if callable(f):
            out.append(("Request.decode" if comp.kind == "request" else "Response.decode", f, ()))
        dl = L.db.diag_layers[0]
        svc = None
        for s in dl.services:
            if getattr(s, "short_name", None) == "svc_" + comp.name:
                svc = s
        if svc is not None and callable(getattr(svc, "decode_message", None)):
            out.append(("DiagService.decode_message", svc.decode_message, ()))
        if callable(getattr(dl, "decode", None)):
            out.append(("DiagLayer.decode", dl.decode, ()))
        if callable(getattr(dl, "decode_response", None)):
            out.append(("DiagLayer.decode_response", dl.decode_response, (b"\x22",)))
    except Exception:  # noqa
        pass
    return out


def accepted_as(entry, result, obj):
    """does the result of a public entry point say 'the byte string is a PDU of this coding object'?"""
    try:
        if entry in ("Request.decode", "Response.decode"):
            return True
        if entry == "DiagService.decode_message":
            return getattr(result, "coding_object", None) is obj
        return any(getattr(m, "coding_object", None) is obj for m in (result or []))
    except Exception:  # noqa
        return False


def entry_eval(entry, f, extra, obj, msg, need):
    """(failure | None, status): termination, exception class and -- for a byte string that ends inside the static prefix of the
    layout -- rejection, at a public entry point"""
    st, res = _guarded(f, (bytes(msg),) + tuple(extra))
    if st == "hang":
        st, res = _guarded(f, (bytes(msg),) + tuple(extra))
        if st == "hang":
            return ("terminates", "hang", {"error": "no result within 5 s"}), st
    if st not in ("ok", "decode", "mismatch"):
        return ("only-decode-errors", st, {"error": res}), st
    if st == "ok" and need is not None and len(msg) < need and accepted_as(entry, res, obj):
        return ("truncated-pdu-rejected", "accepted", {"required_bytes": need, "length": len(msg)}), st
    return None, st


# ------------------------------------------------------------------ round 7: enum-env-data-descs
"""enum-env-data-descs  an ENV-DATA-DESC (environment data selected by the numerical value of a preceding DTC parameter) x every
                      kind of parameter that can be the DTC parameter (DTC-DOP of 8 / 24 / 16 low-high / 4 bits at a bit position,
                      ordinary DATA-OBJECT-PROP identical / 16 bit / LINEAR / LINEAR with limits / TEXTTABLE, CODED-CONST 0 / 5 / max, PHYS-CONST 0 / 5)
                      x every arrangement of ENV-DATAs (ALL-VALUE only, specific only, both, specific ones that leave code 0
                      without environment data, one list that shares 0 with other codes + an empty ENV-DATA) x where the two
                      parameters stand x PDUs whose DTC is 0, 1, a code with / without own environment data, the largest
                      code of the object, a code the DTC-DOP does not know.
The described length of each hand-written PDU is known from the description (selected ENV-DATAs), so every proper prefix of it
has to be rejected."""
ENV_PLACEMENTS = ["direct", "value-between", "then-byte", "in-struct", "edd-in-nested-struct", "response", "eop-field-item"]
ENV_SETS = ["all-only", "specific-only", "all+specific", "zero-without-env", "zero-shared+empty-env"]


def env_selectors():
    """(name, parameter `d`, object that carries it on the wire (Std dct), bit position, {what: code on the wire})"""
    def codes(n, **more):
        return {"zero": 0, "one": 1, "with-env": 5, "known-without-env": 9, "max": (1 << n) - 1, "unknown-to-dtc-dop": 7, **more}

    def dtc(n, hl=None):
        cs = codes(n)
        return D.DtcDop(D.Std("A_UINT32", n, None, hl), "A_UINT32", D.Identical(),
                        [(cs[w], "DTC" + w.replace("-", "")) for w in ("zero", "one", "with-env", "known-without-env", "max")])
    tt = D.TextTable([(0, 0, "none"), (1, 1, "one"), (5, 5, "env"), (9, 9, "known"), (255, 255, "max")])
    out = []
    for name, n, hl, bp in (("dtc-dop-8", 8, None, None), ("dtc-dop-24", 24, None, None), ("dtc-dop-16-low-high", 16, False, None),
                            ("dtc-dop-4-bitpos", 4, None, 4)):
        dd = dtc(n, hl)
        out.append((name, val("d", dd, bitpos=bp), dd.dct, bp or 0, codes(n)))
    for name, dop in (("uint8", _std("A_UINT32", 8)), ("uint16", _std("A_UINT32", 16)),
                      ("linear", _std("A_UINT32", 8, "A_UINT32", D.Linear(1, 2, 1))),
                      ("linear-limited", _std("A_UINT32", 8, "A_UINT32", D.Linear(1, 2, 1, (0, "CLOSED"), (200, "CLOSED")))),
                      ("texttable", _std("A_UINT32", 8, "A_UNICODE2STRING", tt))):
        out.append((name, val("d", dop), dop.dct, 0, codes(dop.dct.bitlen)))
    for name, v in (("coded-const-0", 0), ("coded-const-5", 5), ("coded-const-max", 255)):
        out.append((name, D.coded_const("d", D.Std("A_UINT32", 8), v), D.Std("A_UINT32", 8), 0, {"constant": v, "not-the-constant": v ^ 1}))
    for name, v in (("phys-const-0", 0), ("phys-const-5", 5)):
        out.append((name, D.phys_const("d", _std("A_UINT32", 8), v), D.Std("A_UINT32", 8), 0, {"constant": v, "not-the-constant": v ^ 1}))
    return out


def env_sets(kind, mx):
    """[Env]; environment structures of different lengths (so that a wrong selection shows in the length)"""
    b = lambda nm, n=8: val(nm, u8(n))      # noqa: E731
    all_ = D.Env("envall", [], True, D.Struct([b("a")]))
    e0 = D.Env("env0", [0], False, D.Struct([b("z", 16)]))
    e1 = D.Env("env1", [1, mx], False, D.Struct([b("o")]))
    e5 = D.Env("env5", [5], False, D.Struct([b("e"), b("e2")]))
    if kind == "all-only":
        return [all_]
    if kind == "specific-only":
        return [e0, e1, e5]
    if kind == "all+specific":
        return [e5, all_, e0, e1]
    if kind == "zero-without-env":
        return [D.Env("env1", [1], False, D.Struct([b("o")])), e5]
    if kind == "zero-shared+empty-env":
        return [D.Env("envs", [5, 0, mx], False, D.Struct([b("s"), b("s2", 16)])), D.Env("envnone", [9], False, D.Struct([]))]
    raise ValueError(kind)


def env_composite(sel, envs, placement, name="E"):
    edd = val("x", D.EnvDataDesc("d", envs))
    y = val("y", u8())
    if placement == "direct":
        return rq(sel, edd, name=name)
    if placement == "value-between":
        return rq(sel, val("m", u8()), edd, name=name)
    if placement == "then-byte":
        return rq(sel, edd, y, name=name)
    if placement == "in-struct":
        return rq(val("s", D.Struct([sel, edd])), y, name=name)
    if placement == "edd-in-nested-struct":
        return rq(sel, val("s", D.Struct([edd])), name=name)
    if placement == "response":
        return rq(sel, edd, name=name, kind="pos-response")
    if placement == "eop-field-item":
        return rq(val("f", D.EopField(D.Struct([sel, edd]))), name=name)
    raise ValueError(placement)


def env_length(envs, code):
    """bytes of environment data a PDU with this numerical DTC carries: the ALL-VALUE ENV-DATA (first one), then the first
    ENV-DATA that lists the code"""
    def size(e):
        return sum((p.dop.dct.bitlen + 7) // 8 for p in e.struct.params)
    n = next((size(e) for e in envs if e.all), 0)
    return n + next((size(e) for e in envs if not e.all and code in e.dtcs), 0)


def enum_env_data_descs(rng=None):
    """(composite, info) -- all of them (rng None) or one placement per (DTC parameter, arrangement of ENV-DATAs) drawn from rng.
    info['pdus']: (what the DTC on the wire is, PDU written by hand, number of bytes the description describes for it | None)"""
    i = 0
    for sname, sel, dct, bp, codes in env_selectors():
        mx = (1 << dct.bitlen) - 1
        for es in ENV_SETS:
            pls = ENV_PLACEMENTS if rng is None else [rng.choice(ENV_PLACEMENTS)]
            for pl in pls:
                i += 1
                envs = env_sets(es, mx)
                c = env_composite(sel, envs, pl, name=f"E{i}")
                mid = b"\x07" if pl == "value-between" else b""
                tail = b"\x08" if pl in ("then-byte", "in-struct") else b""
                nb = (dct.bitlen + bp + 7) // 8
                pdus = []
                for what, code in codes.items():
                    try:
                        w = (refpdu.raw_of_internal(dct, code) << bp).to_bytes(nb, "big" if refpdu.numeric_order(dct) else "little")
                    except Exception:  # noqa
                        continue
                    k = env_length(envs, code)
                    item = w + mid + bytes(range(0xa1, 0xa1 + k))
                    if pl == "eop-field-item":
                        # two items: the second one's DTC decides about the second one's environment data; a PDU may end
                        # behind any item, so only the static prefix (the SID) is required
                        w5 = (refpdu.raw_of_internal(dct, codes.get("with-env", code)) << bp).to_bytes(nb, "big" if refpdu.numeric_order(dct) else "little")
                        first = w5 + bytes(range(0xb1, 0xb1 + env_length(envs, codes.get("with-env", code))))
                        pdus.append((what, b"\x22" + item, None))
                        pdus.append((what + "-second-item", b"\x22" + first + item, None))
                    else:
                        # (a CODED-CONST whose value on the wire is not the constant is accepted with a warning, the constant
                        # selects the environment data: not a PDU of this description, no length is claimed for it)
                        pdus.append((what, b"\x22" + item + tail, None if what == "not-the-constant" else 1 + len(item) + len(tail)))
                yield c, {"dtc-param": sname, "envs": es, "placement": pl, "pdus": pdus}
