"""Shared machinery of the odxtools verification checks (see DESIGN.md §3, §4)."""
import hashlib
import importlib
import json
import os
import random
import re
import subprocess
import sys
import time
from pathlib import Path

VERIF = Path(__file__).resolve().parent.parent
LEAN = VERIF / "lean"
REPO = Path(os.environ.get("ODX_REPO", "/repo"))
# evidence/<id>.json is the record of the last run on the tree under test; runs against a deliberately
# mutated tree (harness/seeded.py) redirect it so that the committed record is never a mutant's
EVIDENCE_DIR = Path(os.environ.get("VERIF_EVIDENCE_DIR") or (VERIF / "evidence"))
STD_AXIOMS = {"propext", "Classical.choice", "Quot.sound"}
FORBIDDEN = re.compile(r"\bsorry\b|\badmit\b|^\s*axiom\s|native_decide|bv_decide|implemented_by|\bunsafe\s|maxHeartbeats 0")

TRUSTED_BASE_COMMON = [
    "Lean 4.33.0 kernel; axioms allowed: propext, Classical.choice, Quot.sound (audited with #print axioms on every run)",
    "no sorry/admit/axiom/native_decide/bv_decide/implemented_by/unsafe in lean/** (grep on every run)",
    "correspondence check (this harness): model and implementation are compared on generated inputs only",
]


def import_repo():
    """make sure `odxtools` is imported from the current working tree of REPO"""
    os.environ.setdefault("ODXTOOLS_VERIF", "1")
    if str(REPO) not in sys.path:
        sys.path.insert(0, str(REPO))
    import odxtools  # noqa
    assert Path(odxtools.__file__).resolve().parent.parent == REPO.resolve(), odxtools.__file__
    return odxtools


def sh(cmd, cwd=None, timeout=3600):
    p = subprocess.run(cmd, cwd=cwd, shell=isinstance(cmd, str), capture_output=True, text=True, timeout=timeout)
    return p.returncode, p.stdout + p.stderr


def strip_lean_comments(src: str) -> str:
    out, i, depth = [], 0, 0
    while i < len(src):
        if src.startswith("/-", i):
            depth += 1; i += 2; continue
        if depth and src.startswith("-/", i):
            depth -= 1; i += 2; continue
        if depth:
            if src[i] == "\n": out.append("\n")
            i += 1; continue
        if src.startswith("--", i):
            while i < len(src) and src[i] != "\n": i += 1
            continue
        out.append(src[i]); i += 1
    return "".join(out)


def grep_forbidden():
    hits = []
    for f in sorted(LEAN.rglob("*.lean")):
        if ".lake" in f.parts:
            continue
        for n, line in enumerate(strip_lean_comments(f.read_text()).splitlines(), 1):
            if FORBIDDEN.search(line):
                hits.append(f"{f.relative_to(VERIF)}:{n}: {line.strip()}")
    return hits


class Driver:
    """compiled Lean model driver; batch mode: all request lines in, all reply lines out"""

    def __init__(self, name):
        self.name = name
        self.exe = LEAN / ".lake" / "build" / "bin" / name
        self.lines = 0

    def available(self):
        return self.exe.exists()

    def query(self, lines):
        if not lines:
            return []
        data = "\n".join(lines) + "\n"
        p = subprocess.run([str(self.exe)], input=data, capture_output=True, text=True)
        out = p.stdout.splitlines()
        if p.returncode != 0 or len(out) != len(lines):
            raise RuntimeError(f"driver {self.name}: rc={p.returncode} {len(out)} replies for {len(lines)} requests: {p.stderr[:400]}")
        self.lines += len(lines)
        return out


def hexa(b: bytes) -> str:
    return b.hex() if len(b) else "-"


class Ctx:
    def __init__(self, pid, tier, seed):
        self.pid, self.tier, self.seed = pid, tier, seed
        self.t0 = time.time()
        self.rng = random.Random(f"{seed}/{pid}")
        self.obligation_log = []       # (name, ok, detail)
        self.disagreements = []        # model != impl
        self.violations = []           # property fails on impl (direct oracle)
        self.known_hits = []
        self.stale_known = []
        self.counters = {}
        self.hist = {}
        self.samples = []
        self.distinct = set()
        self.evaluations = 0
        self.traces = 0
        self.assumptions = []
        self.trusted = list(TRUSTED_BASE_COMMON)
        self.notes = []
        self.drivers = {}
        self.theorem_axioms = {}

    def reseed(self, seed):
        """start a further search round with fresh random choices (source sentinel, check.py)"""
        self.seed = seed
        self.rng = random.Random(f"{seed}/{self.pid}")

    # ---- bookkeeping used by property modules
    def sub_rng(self, *key):
        return random.Random(f"{self.seed}/{self.pid}/" + "/".join(map(str, key)))

    def driver(self, name):
        if name not in self.drivers:
            self.drivers[name] = Driver(name)
        return self.drivers[name]

    def count(self, key, n=1):
        self.counters[key] = self.counters.get(key, 0) + n

    def histo(self, name, key, n=1):
        h = self.hist.setdefault(name, {})
        h[str(key)] = h.get(str(key), 0) + n

    def sample(self, s, limit=12):
        if len(self.samples) < limit:
            self.samples.append(s)

    def case(self, canon, nontrivial=True):
        """register one evaluated case; `canon` identifies it (distinctness is measured)"""
        self.evaluations += 1
        if nontrivial:
            self.distinct.add(hashlib.blake2b(repr(canon).encode(), digest_size=8).digest())
        self._time_cap()

    def _time_cap(self):
        """once a failing input that no open known finding explains has been found, the verdict is fixed; code broken badly enough
        (hangs that cost one alarm period per input) must not turn the rest of the run into a time-out = a useless check"""
        if getattr(self, "_fresh", 0) >= 1 and time.time() - self.t0 > TIME_CAP.get(self.tier, 1200):
            self.notes.append(f"exploration stopped after {round(time.time() - self.t0)} s with {len(self.violations)} violations "
                              f"({self._fresh} not covered by an open known finding)")
            raise EnoughViolations()

    def disagree(self, family, inp, model, impl):
        self.disagreements.append({"family": family, "input": inp, "model": model, "impl": impl})

    def violate(self, clause, features, observed, witness, what):
        """a concrete input on which the *implementation* breaks the property"""
        self.violations.append({"signature": {"clause": clause, "features": sorted(features), "observed": observed},
                                "witness": witness, "what": what})
        # a run that has already found this many failing inputs which no open known finding explains stops exploring:
        # the verdict cannot change any more, and code that is broken badly enough can make the rest of the run
        # arbitrarily slow (quadratic blow-ups, hangs)
        if not hasattr(self, "_open_known"):
            self._open_known = [e for e in load_known(self.pid) if e.get("status") == "open"]
            self._fresh = 0
        v = self.violations[-1]
        if not any(sig_matches(k["signature"], v["signature"]) for k in self._open_known):
            self._fresh += 1
            self._time_cap()
            if self._fresh >= VIOLATION_CAP:
                self.notes.append(f"exploration stopped after {len(self.violations)} violations ({self._fresh} not covered by an open known finding)")
                raise EnoughViolations()

    def obligation(self, name, ok, detail=""):
        self.obligation_log.append((name, bool(ok), detail))


class EnoughViolations(BaseException):
    pass


VIOLATION_CAP = 256
TIME_CAP = {"quick": 240, "thorough": 1800}        # seconds; only applies after an unexplained failing input was found


def load_known(pid):
    f = VERIF / "known_findings.jsonl"
    out = []
    if f.exists():
        for line in f.read_text().splitlines():
            line = line.strip()
            if line and not line.startswith("#"):
                e = json.loads(line)
                if e["property"] == pid:
                    out.append(e)
    return out


def build_and_audit(ctx, mod):
    """regenerate tables, build Lean targets, audit axioms; records obligations in ctx"""
    for gen in getattr(mod, "GENERATORS", []):
        try:
            gen(ctx)
            ctx.obligation(f"regenerate:{gen.__name__}", True)
        except Exception as e:  # extractor cannot read the source any more
            ctx.obligation(f"regenerate:{gen.__name__}", False, repr(e))
    targets = list(getattr(mod, "LEAN_TARGETS", [])) + list(getattr(mod, "DRIVERS", []))
    rc, out = sh(["lake", "build"] + targets, cwd=LEAN)
    ctx.build_ok = rc == 0
    if rc != 0:
        errs = [l for l in out.splitlines() if "error" in l][:20]
        ctx.notes.append("lake build failed: " + " | ".join(errs))
    theorems = list(getattr(mod, "THEOREMS", []))
    lean_targets = list(getattr(mod, "LEAN_TARGETS", []))
    good_targets, build_errs = lean_targets, {}
    if not ctx.build_ok:
        # sharpen the report: which targets still compile? (their theorems are audited as usual; the theorems that live only in a target
        # that no longer compiles are the obligations that no longer check — named in the replay file)
        good_targets = []
        for t in lean_targets:
            rc1, out1 = sh(["lake", "build", t], cwd=LEAN)
            if rc1 == 0:
                good_targets.append(t)
            else:
                build_errs[t] = " | ".join(l for l in out1.splitlines() if l.startswith("error"))[:600]
        for d in getattr(mod, "DRIVERS", []):
            rc1, out1 = sh(["lake", "build", d], cwd=LEAN)
            if rc1 != 0:
                build_errs[d] = " | ".join(l for l in out1.splitlines() if l.startswith("error"))[:600]
        for t, e in build_errs.items():
            ctx.obligation(f"build:{t}", False, e)
    axioms = {}
    if good_targets:
        audit = LEAN / "Audit" / f"{ctx.pid}.lean"
        audit.parent.mkdir(parents=True, exist_ok=True)
        imports = "\n".join(f"import {t}" for t in good_targets)
        audit.write_text(imports + "\n" + "\n".join(f"#print axioms {t}" for t in theorems) + "\n")
        rc, out = sh(["lake", "env", "lean", str(audit)], cwd=LEAN)
        text = out.replace("\n  ", " ")
        for m in re.finditer(r"'([^']+)' (depends on axioms: \[([^\]]*)\]|does not depend on any axioms)", text):
            axioms[m.group(1)] = set(a.strip() for a in (m.group(3) or "").split(",") if a.strip())
    for t in theorems:
        if t in axioms and axioms[t] <= STD_AXIOMS:
            ctx.obligation(t, True, "axioms: " + ",".join(sorted(axioms[t])))
        elif t in axioms:
            ctx.obligation(t, False, "non-standard axioms: " + ",".join(sorted(axioms[t] - STD_AXIOMS)))
        elif ctx.build_ok:
            ctx.obligation(t, False, "theorem not found in compiled environment")
        else:
            ctx.obligation(t, False, "not available: its module (or a module it needs) no longer compiles — " + "; ".join(build_errs)[:300])
    ctx.theorem_axioms = {k: sorted(v) for k, v in axioms.items()}
    hits = grep_forbidden()
    ctx.obligation("no-forbidden-constructs", not hits, "; ".join(hits[:5]))
    if ctx.tier == "thorough" and ctx.build_ok and getattr(mod, "LEAN_TARGETS", []):
        rc, out = sh(["lake", "env", "leanchecker"] + list(mod.LEAN_TARGETS), cwd=LEAN, timeout=3600)
        ctx.obligation("leanchecker", rc == 0, out[-300:] if rc else "")


def sig_matches(known_sig, sig):
    return (known_sig.get("clause") == sig["clause"] and sorted(known_sig.get("features", [])) == sig["features"]
            and known_sig.get("observed") == sig["observed"])


def finish(ctx, mod):
    pid = ctx.pid
    known = [k for k in load_known(pid) if k.get("status") == "open"]
    new_violations = []
    seen_known = {}
    for v in ctx.violations:
        hit = next((k for k in known if sig_matches(k["signature"], v["signature"])), None)
        if hit:
            seen_known.setdefault(hit["id"], (hit, v))
        else:
            new_violations.append(v)
    for kid, (k, v) in seen_known.items():
        print(f"KNOWN-FINDING: property={pid} {k['what']}")
    for k in known:
        if k["id"] not in seen_known:
            ctx.notes.append(f"known finding {k['id']} was not reproduced by this run (stale or not sampled)")
    failed_obl = [o for o in ctx.obligation_log if not o[1]]
    rc = 0
    rdir = VERIF / "replays" / pid
    if new_violations:
        rdir.mkdir(parents=True, exist_ok=True)
        # report distinct signatures only
        done = set()
        for n, v in enumerate(new_violations):
            key = json.dumps(v["signature"], sort_keys=True)
            if key in done:
                continue
            done.add(key)
            path = rdir / f"{ctx.seed}-{len(done)}.json"
            path.write_text(json.dumps({"property": pid, "kind": "failing-input", **v,
                                        "replay_cmd": f"./check {pid} --replay {path.relative_to(VERIF)}"}, indent=1, default=str))
            print(f"VIOLATION property={pid} replay={path.relative_to(VERIF)}")
            if len(done) >= 5:
                break
        rc = 1
    elif failed_obl or ctx.disagreements:
        rdir.mkdir(parents=True, exist_ok=True)
        path = rdir / f"{ctx.seed}-unproved.json"
        path.write_text(json.dumps({
            "property": pid, "kind": "no-failing-input-found",
            "failed_obligations": [{"name": n, "detail": d} for n, _, d in failed_obl],
            "disagreements": ctx.disagreements[:10], "n_disagreements": len(ctx.disagreements),
            "notes": ctx.notes,
            "explanation": "a proof obligation or the model/implementation correspondence no longer checks; the direct-oracle search over this run's inputs found no input on which the implementation breaks the property"},
            indent=1, default=str))
        print(f"VIOLATION property={pid} replay={path.relative_to(VERIF)} no-failing-input-found")
        rc = 1
    obligations = len(ctx.obligation_log)
    discharged = sum(1 for o in ctx.obligation_log if o[1])
    targets = " ".join(list(getattr(mod, "LEAN_TARGETS", [])) + list(getattr(mod, "DRIVERS", [])))
    ev = {
        "property_id": pid, "tier": ctx.tier, "seed": ctx.seed, "level": "proof",
        "coverage": {
            "obligations": obligations, "discharged": discharged,
            "obligation_list": [{"name": n, "ok": ok, "detail": d} for n, ok, d in ctx.obligation_log],
            "checker_cmd": f"cd lean && lake build {targets} && lake env lean Audit/{pid}.lean" + (" && lake env leanchecker " + " ".join(getattr(mod, "LEAN_TARGETS", [])) if ctx.tier == "thorough" else ""),
            "trusted_base": ctx.trusted + list(getattr(mod, "TRUSTED", [])),
            "evaluations": ctx.evaluations, "distinct_nontrivial": len(ctx.distinct),
            "rule": getattr(mod, "RULE", ""),
            "traces_validated_against_impl": ctx.traces,
            "disagreements": len(ctx.disagreements),
            "samples": ctx.samples or ["(no samples recorded)"],
            "counters": ctx.counters, "histograms": ctx.hist,
            "known_findings_reproduced": sorted(seen_known),
            "notes": ctx.notes,
            "exhaustive": False,
        },
        "assumptions": ctx.assumptions + list(getattr(mod, "ASSUMPTIONS", [])),
        "wall_s": round(time.time() - ctx.t0, 2),
        "violations": len(new_violations) + (1 if rc and not new_violations else 0),
    }
    EVIDENCE_DIR.mkdir(parents=True, exist_ok=True)
    (EVIDENCE_DIR / f"{pid}.json").write_text(json.dumps(ev, indent=1, default=str) + "\n")
    print(f"[{pid}] tier={ctx.tier} seed={ctx.seed} obligations={discharged}/{obligations} evaluations={ctx.evaluations} "
          f"distinct={len(ctx.distinct)} traces={ctx.traces} disagreements={len(ctx.disagreements)} "
          f"violations={len(new_violations)} known={len(seen_known)} wall={ev['wall_s']}s")
    return rc
