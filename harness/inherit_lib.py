"""Helpers for C09 (value inheritance): abstract hierarchies, ODX-XML rendering through the real loader,
view extraction from the loaded layers, the model/spec request lines, and a Python mirror of Spec/Visible
used only for steering the generators (never as an oracle).

Abstract hierarchy (JSON-able):
  {"layers": [{"kind": "BASE-VARIANT", "parents": [[j, {"grp": [names...]}], ...],
               "objs": {"cat": [[name, variant], ...]}}, ...]}
layer i may only reference parents j < i (so the graph is a DAG; sharing = diamonds).
Names are small integers n -> short name "n<n>"; `variant` distinguishes contents.
"""
import warnings
from xml.etree import ElementTree as ET

KINDS = ["PROTOCOL", "FUNCTIONAL-GROUP", "BASE-VARIANT", "ECU-VARIANT", "ECU-SHARED-DATA"]
CONTAINER_TAG = {"PROTOCOL": "PROTOCOLS", "FUNCTIONAL-GROUP": "FUNCTIONAL-GROUPS", "ECU-SHARED-DATA": "ECU-SHARED-DATAS",
                 "BASE-VARIANT": "BASE-VARIANTS", "ECU-VARIANT": "ECU-VARIANTS"}
CONTAINER_ORDER = ["PROTOCOL", "FUNCTIONAL-GROUP", "ECU-SHARED-DATA", "BASE-VARIANT", "ECU-VARIANT"]

# object categories: name -> (exclusion group or None, compared by identity ("id") or by value ("val"))
# "id": objects carry an ODXLINK id scoped by the defining layer, so objects of different layers are never `==`;
# "val": no id -> dataclass equality by content (two layers can define equal objects)
CATS = {
    "svc": ("dc", "id"),     # DIAG-SERVICE            (diag_comms / services)
    "job": ("dc", "id"),     # SINGLE-ECU-JOB          (diag_comms / single_ecu_jobs); shares the name space of svc
    "dop": ("dop", "id"),    # DATA-OBJECT-PROP
    "struct": ("dop", "id"), # STRUCTURE
    "dtc": ("dop", "id"),    # DTC-DOP
    "eopf": ("dop", "id"),   # END-OF-PDU-FIELD
    "sfld": ("dop", "id"),   # STATIC-FIELD
    "mux": ("dop", "id"),    # MUX
    "envd": ("dop", "id"),   # ENV-DATA
    "envdd": ("dop", "id"),  # ENV-DATA-DESC
    "dlf": ("dop", "id"),    # DYNAMIC-LENGTH-FIELD
    "demf": ("dop", "id"),   # DYNAMIC-ENDMARKER-FIELD
    "table": ("table", "id"),
    "gnr": ("gnr", "id"),    # GLOBAL-NEG-RESPONSE
    "fc": (None, "id"),      # FUNCT-CLASS
    "sc": (None, "id"),      # STATE-CHART
    "aa": (None, "id"),      # ADDITIONAL-AUDIENCE
    "ug": (None, "val"),     # UNIT-GROUP (no id: compared by value)
}
GROUPS = ["dc", "dop", "table", "gnr"]
NOT_INH = {  # group -> (wrapper, item, snref)
    "dc": ("NOT-INHERITED-DIAG-COMMS", "NOT-INHERITED-DIAG-COMM", "DIAG-COMM-SNREF"),
    "dop": ("NOT-INHERITED-DOPS", "NOT-INHERITED-DOP", "DOP-BASE-SNREF"),
    "table": ("NOT-INHERITED-TABLES", "NOT-INHERITED-TABLE", "TABLE-SNREF"),
    "gnr": ("NOT-INHERITED-GLOBAL-NEG-RESPONSES", "NOT-INHERITED-GLOBAL-NEG-RESPONSE", "GLOBAL-NEG-RESPONSE-SNREF"),
}
# the dictionaries odxtools merges: "dc" holds services and jobs together
SPACES = {"dc": ["svc", "job"]}
for _c in CATS:
    if _c not in ("svc", "job"):
        SPACES[_c] = [_c]


def space_of(cat):
    return "dc" if cat in ("svc", "job") else cat


def sn(n):
    return f"n{n}"


def lname(i):
    return f"L{i}"


_DCT8 = '<DIAG-CODED-TYPE BASE-DATA-TYPE="A_UINT32" xsi:type="STANDARD-LENGTH-TYPE"><BIT-LENGTH>8</BIT-LENGTH></DIAG-CODED-TYPE>'


def _long(v):
    return f"<LONG-NAME>v{v}</LONG-NAME>"


def sid_of(n, v, li):
    """request prefix of the service for name n, variant v, defined in layer li: 3 constant bytes"""
    return bytes([0x10 + n, v, li])


def render_layer(i, L, need_decode=False):
    """XML of layer i; object ids are '<cat>.<name>' scoped by the layer's doc fragment"""
    kind = L["kind"]
    objs = L.get("objs", {})
    o = lambda c: objs.get(c, [])
    x = [f'<{kind} ID="{lname(i)}"><SHORT-NAME>{lname(i)}</SHORT-NAME>']
    if o("fc"):
        x.append("<FUNCT-CLASSS>" + "".join(f'<FUNCT-CLASS ID="fc.{n}"><SHORT-NAME>{sn(n)}</SHORT-NAME>{_long(v)}</FUNCT-CLASS>'
                                            for n, v in o("fc")) + "</FUNCT-CLASSS>")
    ddd = []
    if o("dtc"):
        ddd.append("<DTC-DOPS>" + "".join(
            f'<DTC-DOP ID="dtc.{n}"><SHORT-NAME>{sn(n)}</SHORT-NAME>{_long(v)}{_DCT8}<PHYSICAL-TYPE BASE-DATA-TYPE="A_UINT32"/>'
            f'<COMPU-METHOD><CATEGORY>IDENTICAL</CATEGORY></COMPU-METHOD><DTCS><DTC ID="dtc.{n}.d"><SHORT-NAME>d</SHORT-NAME>'
            f'<TROUBLE-CODE>{v}</TROUBLE-CODE><TEXT>t</TEXT></DTC></DTCS></DTC-DOP>' for n, v in o("dtc")) + "</DTC-DOPS>")
    if o("envdd"):
        ddd.append("<ENV-DATA-DESCS>" + "".join(
            f'<ENV-DATA-DESC ID="envdd.{n}"><SHORT-NAME>{sn(n)}</SHORT-NAME>{_long(v)}<PARAM-SNREF SHORT-NAME="x"/></ENV-DATA-DESC>'
            for n, v in o("envdd")) + "</ENV-DATA-DESCS>")
    need_hk = bool(o("dlf") or o("demf") or o("mux"))
    need_hs = bool(o("sfld") or o("dlf") or o("demf") or o("eopf"))
    if o("dop") or need_hk:
        # helper objects referenced by the field-like DOPs carry per-layer unique short names (h<i>), so they
        # never clash; views ignore names that are not of the form n<k>
        hk = (f'<DATA-OBJECT-PROP ID="hk"><SHORT-NAME>h{i}</SHORT-NAME><COMPU-METHOD><CATEGORY>IDENTICAL</CATEGORY></COMPU-METHOD>'
              f'{_DCT8}<PHYSICAL-TYPE BASE-DATA-TYPE="A_UINT32"/></DATA-OBJECT-PROP>') if need_hk else ""
        ddd.append("<DATA-OBJECT-PROPS>" + "".join(
            f'<DATA-OBJECT-PROP ID="dop.{n}"><SHORT-NAME>{sn(n)}</SHORT-NAME>{_long(v)}<COMPU-METHOD><CATEGORY>IDENTICAL</CATEGORY></COMPU-METHOD>'
            f'{_DCT8}<PHYSICAL-TYPE BASE-DATA-TYPE="A_UINT32"/></DATA-OBJECT-PROP>' for n, v in o("dop")) + hk + "</DATA-OBJECT-PROPS>")
    if o("struct") or need_hs:
        hs = f'<STRUCTURE ID="hs"><SHORT-NAME>h{i}</SHORT-NAME><PARAMS/></STRUCTURE>' if need_hs else ""
        ddd.append("<STRUCTURES>" + "".join(
            f'<STRUCTURE ID="struct.{n}"><SHORT-NAME>{sn(n)}</SHORT-NAME>{_long(v)}<PARAMS/></STRUCTURE>' for n, v in o("struct")) + hs + "</STRUCTURES>")
    if o("sfld"):
        ddd.append("<STATIC-FIELDS>" + "".join(
            f'<STATIC-FIELD ID="sfld.{n}"><SHORT-NAME>{sn(n)}</SHORT-NAME>{_long(v)}<BASIC-STRUCTURE-REF ID-REF="hs"/>'
            f'<FIXED-NUMBER-OF-ITEMS>1</FIXED-NUMBER-OF-ITEMS><ITEM-BYTE-SIZE>1</ITEM-BYTE-SIZE></STATIC-FIELD>' for n, v in o("sfld")) + "</STATIC-FIELDS>")
    if o("dlf"):
        ddd.append("<DYNAMIC-LENGTH-FIELDS>" + "".join(
            f'<DYNAMIC-LENGTH-FIELD ID="dlf.{n}"><SHORT-NAME>{sn(n)}</SHORT-NAME>{_long(v)}<BASIC-STRUCTURE-REF ID-REF="hs"/>'
            f'<OFFSET>1</OFFSET><DETERMINE-NUMBER-OF-ITEMS><BYTE-POSITION>0</BYTE-POSITION><DATA-OBJECT-PROP-REF ID-REF="hk"/>'
            f'</DETERMINE-NUMBER-OF-ITEMS></DYNAMIC-LENGTH-FIELD>' for n, v in o("dlf")) + "</DYNAMIC-LENGTH-FIELDS>")
    if o("demf"):
        ddd.append("<DYNAMIC-ENDMARKER-FIELDS>" + "".join(
            f'<DYNAMIC-ENDMARKER-FIELD ID="demf.{n}"><SHORT-NAME>{sn(n)}</SHORT-NAME>{_long(v)}<BASIC-STRUCTURE-REF ID-REF="hs"/>'
            f'<DYN-END-DOP-REF ID-REF="hk"><TERMINATION-VALUE>255</TERMINATION-VALUE></DYN-END-DOP-REF></DYNAMIC-ENDMARKER-FIELD>' for n, v in o("demf")) + "</DYNAMIC-ENDMARKER-FIELDS>")
    if o("eopf"):
        ddd.append("<END-OF-PDU-FIELDS>" + "".join(
            f'<END-OF-PDU-FIELD ID="eopf.{n}"><SHORT-NAME>{sn(n)}</SHORT-NAME>{_long(v)}<BASIC-STRUCTURE-REF ID-REF="hs"/>'
            f'</END-OF-PDU-FIELD>' for n, v in o("eopf")) + "</END-OF-PDU-FIELDS>")
    if o("mux"):
        ddd.append("<MUXS>" + "".join(
            f'<MUX ID="mux.{n}"><SHORT-NAME>{sn(n)}</SHORT-NAME>{_long(v)}<BYTE-POSITION>1</BYTE-POSITION>'
            f'<SWITCH-KEY><BYTE-POSITION>0</BYTE-POSITION><DATA-OBJECT-PROP-REF ID-REF="hk"/></SWITCH-KEY></MUX>'
            for n, v in o("mux")) + "</MUXS>")
    if o("envd"):
        ddd.append("<ENV-DATAS>" + "".join(
            f'<ENV-DATA ID="envd.{n}"><SHORT-NAME>{sn(n)}</SHORT-NAME>{_long(v)}<PARAMS/></ENV-DATA>' for n, v in o("envd")) + "</ENV-DATAS>")
    if o("ug"):
        ddd.append("<UNIT-SPEC><UNIT-GROUPS>" + "".join(
            f'<UNIT-GROUP><SHORT-NAME>{sn(n)}</SHORT-NAME>{_long(v)}<CATEGORY>COUNTRY</CATEGORY></UNIT-GROUP>' for n, v in o("ug"))
            + "</UNIT-GROUPS></UNIT-SPEC>")
    if o("table"):
        ddd.append("<TABLES>" + "".join(
            f'<TABLE ID="table.{n}"><SHORT-NAME>{sn(n)}</SHORT-NAME>{_long(v)}</TABLE>' for n, v in o("table")) + "</TABLES>")
    if ddd:
        x.append("<DIAG-DATA-DICTIONARY-SPEC>" + "".join(ddd) + "</DIAG-DATA-DICTIONARY-SPEC>")
    dcs, reqs = [], []
    for c, n, v in L.get("dc_order") or ([("svc", n, v) for n, v in o("svc")] + [("job", n, v) for n, v in o("job")]):
        if c == "svc":
            dcs.append(f'<DIAG-SERVICE ID="svc.{n}"><SHORT-NAME>{sn(n)}</SHORT-NAME>{_long(v)}<REQUEST-REF ID-REF="rq.{n}"/></DIAG-SERVICE>')
            b = sid_of(n, v, i)
            reqs.append(f'<REQUEST ID="rq.{n}"><SHORT-NAME>rq{n}</SHORT-NAME><PARAMS>' + "".join(
                f'<PARAM xsi:type="CODED-CONST"><SHORT-NAME>c{k}</SHORT-NAME><BYTE-POSITION>{k}</BYTE-POSITION><CODED-VALUE>{bv}</CODED-VALUE>{_DCT8}</PARAM>'
                for k, bv in enumerate(b)) + "</PARAMS></REQUEST>")
        else:
            dcs.append(f'<SINGLE-ECU-JOB ID="job.{n}"><SHORT-NAME>{sn(n)}</SHORT-NAME>{_long(v)}</SINGLE-ECU-JOB>')
    if dcs:
        x.append("<DIAG-COMMS>" + "".join(dcs) + "</DIAG-COMMS>")
    if reqs:
        x.append("<REQUESTS>" + "".join(reqs) + "</REQUESTS>")
    if o("gnr"):
        x.append("<GLOBAL-NEG-RESPONSES>" + "".join(
            f'<GLOBAL-NEG-RESPONSE ID="gnr.{n}"><SHORT-NAME>{sn(n)}</SHORT-NAME>{_long(v)}<PARAMS/></GLOBAL-NEG-RESPONSE>' for n, v in o("gnr"))
            + "</GLOBAL-NEG-RESPONSES>")
    if o("sc"):
        x.append("<STATE-CHARTS>" + "".join(
            f'<STATE-CHART ID="sc.{n}"><SHORT-NAME>{sn(n)}</SHORT-NAME>{_long(v)}<SEMANTIC>S</SEMANTIC><START-STATE-SNREF SHORT-NAME="s0"/>'
            f'<STATES><STATE ID="sc.{n}.s0"><SHORT-NAME>s0</SHORT-NAME></STATE></STATES></STATE-CHART>' for n, v in o("sc")) + "</STATE-CHARTS>")
    if o("aa"):
        x.append("<ADDITIONAL-AUDIENCES>" + "".join(
            f'<ADDITIONAL-AUDIENCE ID="aa.{n}"><SHORT-NAME>{sn(n)}</SHORT-NAME>{_long(v)}</ADDITIONAL-AUDIENCE>' for n, v in o("aa"))
            + "</ADDITIONAL-AUDIENCES>")
    if kind == "PROTOCOL":
        x.append('<COMPARAM-SPEC-REF ID-REF="CPS" DOCREF="CPS" DOCTYPE="COMPARAM-SPEC"/>')
    if L.get("parents"):   # (PARENT-REFS below an ECU-SHARED-DATA are not read by the loader; the model ignores them too)
        prs = []
        for j, excl in L["parents"]:
            ni = ""
            for g in GROUPS:
                names = excl.get(g, [])
                if names:
                    w, it, sr = NOT_INH[g]
                    ni += f"<{w}>" + "".join(f'<{it}><{sr} SHORT-NAME="{sn(n)}"/></{it}>' for n in names) + f"</{w}>"
            prs.append((j, ni))
        x.append("<PARENT-REFS>" + "".join(
            f'<PARENT-REF ID-REF="{lname(j)}" DOCREF="{lname(j)}" DOCTYPE="LAYER" xsi:type="{{T{j}}}-REF">{ni}</PARENT-REF>' for j, ni in prs)
            + "</PARENT-REFS>")
    x.append(f"</{kind}>")
    return "".join(x)


CPS_XML = ('<?xml version="1.0"?><ODX MODEL-VERSION="2.2.0" xmlns:xsi="http://www.w3.org/2001/XMLSchema-instance">'
           '<COMPARAM-SPEC ID="CPS"><SHORT-NAME>CPS</SHORT-NAME></COMPARAM-SPEC></ODX>')


def render(h):
    """(list of XML documents) for a hierarchy"""
    layers = h["layers"]
    body = {}
    for i, L in enumerate(layers):
        s = render_layer(i, L)
        for j, Lj in enumerate(layers):
            s = s.replace(f"{{T{j}}}", Lj["kind"])
        body.setdefault(L["kind"], []).append(s)
    inner = "".join(f"<{CONTAINER_TAG[k]}>{''.join(body[k])}</{CONTAINER_TAG[k]}>" for k in CONTAINER_ORDER if k in body)
    doc = ('<?xml version="1.0"?><ODX MODEL-VERSION="2.2.0" xmlns:xsi="http://www.w3.org/2001/XMLSchema-instance">'
           f'<DIAG-LAYER-CONTAINER ID="DLC"><SHORT-NAME>DLC</SHORT-NAME>{inner}</DIAG-LAYER-CONTAINER></ODX>')
    docs = [doc]
    if any(L["kind"] == "PROTOCOL" for L in layers):
        docs.append(CPS_XML)
    return docs


def load(h):
    """-> (db, None) or (None, error class)"""
    from odxtools.database import Database
    from odxtools.exceptions import OdxError
    try:
        db = Database()
        for d in render(h):
            db._process_xml_tree(ET.fromstring(d))
        with warnings.catch_warnings():
            warnings.simplefilter("ignore")
            db.refresh()
        return db, None
    except OdxError:
        return None, "odx"
    except Exception as e:  # noqa
        return None, "foreign:" + type(e).__name__


def _variant(obj):
    ln = getattr(obj, "long_name", None)
    return int(ln[1:]) if isinstance(ln, str) and ln[1:].isdigit() else -1


def _name(obj):
    s = obj.short_name
    return int(s[1:]) if s[:1] == "n" and s[1:].isdigit() else -1


def _def_layer(obj):
    oid = getattr(obj, "odx_id", None)
    if oid is None:
        return None
    for f in oid.doc_fragments:
        if f.doc_type.value == "LAYER":
            return int(f.doc_name[1:])
    return None


VIEW_GETTERS = {
    "dc": lambda l: l.diag_comms,
    "dop": lambda l: l.diag_data_dictionary_spec.data_object_props,
    "struct": lambda l: l.diag_data_dictionary_spec.structures,
    "dtc": lambda l: l.diag_data_dictionary_spec.dtc_dops,
    "eopf": lambda l: l.diag_data_dictionary_spec.end_of_pdu_fields,
    "sfld": lambda l: l.diag_data_dictionary_spec.static_fields,
    "mux": lambda l: l.diag_data_dictionary_spec.muxs,
    "envd": lambda l: l.diag_data_dictionary_spec.env_datas,
    "envdd": lambda l: l.diag_data_dictionary_spec.env_data_descs,
    "dlf": lambda l: l.diag_data_dictionary_spec.dynamic_length_fields,
    "demf": lambda l: l.diag_data_dictionary_spec.dynamic_endmarker_fields,
    "table": lambda l: l.diag_data_dictionary_spec.tables,
    "gnr": lambda l: l.global_negative_responses,
    # ECU-SHARED-DATA layers (plain DiagLayer) have no merged view of these: what they show is the raw list
    "fc": lambda l: l.functional_classes if hasattr(l, "functional_classes") else l.diag_layer_raw.functional_classes,
    "sc": lambda l: l.state_charts if hasattr(l, "state_charts") else l.diag_layer_raw.state_charts,
    "aa": lambda l: l.additional_audiences if hasattr(l, "additional_audiences") else l.diag_layer_raw.additional_audiences,
    "ug": lambda l: (l.diag_data_dictionary_spec.unit_spec.unit_groups if l.diag_data_dictionary_spec.unit_spec is not None else []),
}


def impl_view(layer, space):
    """ordered [(name, defining layer or None, variant, python class name)] of what the loaded layer shows"""
    return [(_name(o), _def_layer(o), _variant(o), type(o).__name__) for o in VIEW_GETTERS[space](layer) if _name(o) >= 0]


# ----------------------------------------------------------------------------------------------
# abstract -> Lean model terms. tag of an object: "id" categories: (defining layer, variant, kind) unique;
# "val" categories: the content variant only.
def tag_of(cat, li, v):
    if CATS[cat][1] == "val":
        return v
    return 1000 + li * 20 + v * 2 + (1 if cat == "job" else 0)


def untag(cat_space, tag):
    """inverse of tag_of for reporting: (defining layer or None, variant, is_job)"""
    if tag < 1000:
        return (None, tag, False)
    t = tag - 1000
    return (t // 20, (t % 20) // 2, bool(t % 2))


def space_locals(L, li, space):
    objs = L.get("objs", {})
    if space == "dc":
        order = L.get("dc_order") or ([("svc", n, v) for n, v in objs.get("svc", [])] + [("job", n, v) for n, v in objs.get("job", [])])
        return [(n, tag_of(c, li, v)) for c, n, v in order]
    return [(n, tag_of(space, li, v)) for n, v in objs.get(space, [])]


def layer_sexp(h, i, space, memo=None):
    """unfold the DAG below layer i into the model's tree term for one name space"""
    if memo is None:
        memo = {}
    if i in memo:
        return memo[i]
    L = h["layers"][i]
    grp = CATS[SPACES[space][0]][0]
    locs = " ".join(f"({n} {t})" for n, t in space_locals(L, i, space))
    ps = []
    if L["kind"] != "ECU-SHARED-DATA":   # the loader does not read PARENT-REFS of ECU-SHARED-DATA
        for j, excl in L.get("parents", []):
            ex = excl.get(grp, []) if grp else []
            ps.append("(" + layer_sexp(h, j, space, memo) + "".join(f" {n}" for n in ex) + ")")
    s = f"(L {i} {L['kind']} (locals{' ' + locs if locs else ''}) (parents{' ' + ' '.join(ps) if ps else ''}))"
    memo[i] = s
    return s


def request_line(h, i, space, names):
    return f"(inherit {layer_sexp(h, i, space)} (names {' '.join(map(str, names))}))"


def parse_reply(rep):
    """'(model (ok (1 100) ...)|(err odx)) (spec (wf t) (conflict f) (vis (1 100) (2 none)))' -> dict"""
    import re
    m = re.match(r"^\(model \((ok|err)([^)]*(?:\([^)]*\)[^)]*)*)\)\) \(spec \(wf (t|f)\) \(conflict (t|f)\) \(vis(.*)\)\)$", rep)
    if not m:
        return None
    pairs = lambda s: [(int(a), (None if b == "none" else int(b))) for a, b in re.findall(r"\((\d+) (\d+|none)\)", s)]
    return {"model": pairs(m.group(2)) if m.group(1) == "ok" else "err", "wf": m.group(3) == "t",
            "conflict": m.group(4) == "t", "vis": dict(pairs(m.group(5)))}


# ----------------------------------------------------------------------------------------------
# Python mirror of Spec/Visible.lean -- used ONLY to steer generation (e.g. to decide in which category a
# conflicting pattern is placed); never compared with the implementation.
PRIO_HINT = {"PROTOCOL": 1, "FUNCTIONAL-GROUP": 2, "BASE-VARIANT": 3, "ECU-VARIANT": 4, "ECU-SHARED-DATA": 100}


def spec_hint(h, i, space, memo=None):
    """-> (conflict?, {name: tag}) following Spec/Visible.lean"""
    if memo is None:
        memo = {}
    if i in memo:
        return memo[i]
    L = h["layers"][i]
    loc = {}
    for n, t in space_locals(L, i, space):
        loc.setdefault(n, t)
    if L["kind"] == "ECU-SHARED-DATA":
        memo[i] = (False, loc)
        return memo[i]
    grp = CATS[SPACES[space][0]][0]
    conflict = False
    offers = {}
    for j, excl in L.get("parents", []):
        cj, vj = spec_hint(h, j, space, memo)
        conflict = conflict or cj
        ex = excl.get(grp, []) if grp else []
        for n, t in vj.items():
            if n not in ex:
                offers.setdefault(n, []).append((PRIO_HINT[h["layers"][j]["kind"]], t))
    vis = {}
    for n, os_ in offers.items():
        m = max(p for p, _ in os_)
        top = [t for p, t in os_ if p == m]
        if n not in loc and len(set(top)) > 1:
            conflict = True
        vis[n] = top[0]
    vis.update(loc)
    memo[i] = (conflict, vis)
    return memo[i]
