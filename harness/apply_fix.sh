#!/bin/sh
# usage: apply_fix.sh <slug> : applies fixes/<slug>.patch to /repo as one "fix:" commit if the test-suite stays green
set -e
S=$1
cd /repo
git apply --check /verif/fixes/$S.patch
git apply /verif/fixes/$S.patch
if /venv/bin/python -m pytest -q -p no:cacheprovider -x 2>&1 | tail -1 | grep -q "^140 passed"; then
  git add -A odxtools && git commit -q -F /verif/fixes/$S.msg && echo "APPLIED $S $(git log --format=%h -1)"
else
  git checkout -- . && echo "REJECTED $S (tests)"; exit 1
fi
