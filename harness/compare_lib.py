"""C18 support: ODX documents from small JSON specs, loading through the real XML parser, single edits,
canonical views of what the compare tool / the metrics table report, and the s-expression encoding of a
layer for the Lean model driver (drv_compare).

A *spec* (JSON-able) is
  {"dops": [{"name","bt","bl","phys","unit"}], "units": [{"name","display"}],
   "comparams": ["CP_a", ...],                       # comparam subset shared by all layers
   "sdops": [{"name","members":[param...],"byte_size": int|None}],   # STRUCTUREs that VALUE parameters may link to (key "dop")
   "containers": [[layer names], ...],               # optional: one DIAG-LAYER-CONTAINER (= one ODX-D file) per entry, loaded in this
                                                     # order (absent: all layers in the single container "DLC"); references that
                                                     # cross containers carry DOCREF + DOCTYPE ("docref": "CONTAINER" | "LAYER")
   "layers": [{"name","kind","parent": name|None,    # single parent; or, more general,
               "parents": [{"name", "ni_svcs": [short names], "ni_dops": [short names]}],   # PARENT-REFs with NOT-INHERITED-* lists
               "own_dops": [dop names defined in this layer], "structs": number of (unused) STRUCTUREs defined in this layer,
               "dup_dops": [dop names defined *again* in this layer under the same short name (own ID)],
               "own_sdops": [names of "sdops" defined in this layer],
               "cprefs": [[comparam name, protocol snref|None], ...],
               "services": [{"id","name","req":[param...],"pos":[[param...]...],"neg":[[param...]...]}]}]}
  param = {"name","kind": const|value|physconst|nrc|reserved|matching|system|lengthkey|dynamic,
           "bp": int|None, "bl": int, "val": int|str, "bt": base type of a const, "sem": str|None,
           "dop": dop name, "default": int|None, "vals": [ints] (nrc)}
"""
import copy
import io
import re
from xml.etree import ElementTree as ET

XSI = 'xmlns:xsi="http://www.w3.org/2001/XMLSchema-instance"'


# --------------------------------------------------------------------------- XML
def _dct(bt, bl):
    return f'<DIAG-CODED-TYPE BASE-DATA-TYPE="{bt}" xsi:type="STANDARD-LENGTH-TYPE"><BIT-LENGTH>{bl}</BIT-LENGTH></DIAG-CODED-TYPE>'


_LINEAR = ("<COMPU-METHOD><CATEGORY>LINEAR</CATEGORY><COMPU-INTERNAL-TO-PHYS><COMPU-SCALES><COMPU-SCALE><COMPU-RATIONAL-COEFFS>"
           "<COMPU-NUMERATOR><V>0</V><V>1</V></COMPU-NUMERATOR><COMPU-DENOMINATOR><V>1</V></COMPU-DENOMINATOR></COMPU-RATIONAL-COEFFS>"
           "</COMPU-SCALE></COMPU-SCALES></COMPU-INTERNAL-TO-PHYS></COMPU-METHOD>")


def _dop_xml(d, lname):
    unit = f'<UNIT-REF ID-REF="{lname}.U.{d["unit"]}"/>' if d.get("unit") else ""
    cm = "<COMPU-METHOD><CATEGORY>IDENTICAL</CATEGORY></COMPU-METHOD>" if d["bt"] == d["phys"] else _LINEAR
    return (f'<DATA-OBJECT-PROP ID="{lname}.D.{d["name"]}"><SHORT-NAME>{d["name"]}</SHORT-NAME>'
            f'{cm}{_dct(d["bt"], d["bl"])}'
            f'<PHYSICAL-TYPE BASE-DATA-TYPE="{d["phys"]}"/>{unit}</DATA-OBJECT-PROP>')


def _param_xml(p, dop_id, pid=""):
    """dop_id: short name of a DOP / STRUCTURE -> the attributes of a reference to it (ID-REF, and DOCREF + DOCTYPE when it is
    defined in another container); pid: a document-wide unique ID for the parameter (only LENGTH-KEY parameters have one)"""
    k = p["kind"]
    sem = f' SEMANTIC="{p["sem"]}"' if p.get("sem") is not None else ""
    pos = f'<BYTE-POSITION>{p["bp"]}</BYTE-POSITION>' if p.get("bp") is not None else ""
    head = f'<SHORT-NAME>{p["name"]}</SHORT-NAME>{pos}'
    if k == "const":
        return f'<PARAM xsi:type="CODED-CONST"{sem}>{head}<CODED-VALUE>{p["val"]}</CODED-VALUE>{_dct(p.get("bt", "A_UINT32"), p["bl"])}</PARAM>'
    if k == "nrc":
        vs = "".join(f"<CODED-VALUE>{v}</CODED-VALUE>" for v in p["vals"])
        return f'<PARAM xsi:type="NRC-CONST"{sem}>{head}<CODED-VALUES>{vs}</CODED-VALUES>{_dct(p.get("bt", "A_UINT32"), p["bl"])}</PARAM>'
    if k == "value":
        d = f'<PHYSICAL-DEFAULT-VALUE>{p["default"]}</PHYSICAL-DEFAULT-VALUE>' if p.get("default") is not None else ""
        return f'<PARAM xsi:type="VALUE"{sem}>{head}{d}<DOP-REF {dop_id[p["dop"]]}/></PARAM>'
    if k == "system":
        return f'<PARAM xsi:type="SYSTEM" SYSPARAM="{p.get("sysparam", "TIMESTAMP")}"{sem}>{head}<DOP-REF {dop_id[p["dop"]]}/></PARAM>'
    if k == "lengthkey":
        return f'<PARAM ID="{pid}" xsi:type="LENGTH-KEY"{sem}>{head}<DOP-REF {dop_id[p["dop"]]}/></PARAM>'
    if k == "dynamic":
        return f'<PARAM xsi:type="DYNAMIC"{sem}>{head}</PARAM>'
    if k == "physconst":
        return f'<PARAM xsi:type="PHYS-CONST"{sem}>{head}<PHYS-CONSTANT-VALUE>{p["val"]}</PHYS-CONSTANT-VALUE><DOP-REF {dop_id[p["dop"]]}/></PARAM>'
    if k == "reserved":
        return f'<PARAM xsi:type="RESERVED"{sem}>{head}<BIT-LENGTH>{p["bl"]}</BIT-LENGTH></PARAM>'
    if k == "matching":
        return f'<PARAM xsi:type="MATCHING-REQUEST-PARAM"{sem}>{head}<REQUEST-BYTE-POS>{p.get("val", 0)}</REQUEST-BYTE-POS><BYTE-LENGTH>{max(1, p["bl"] // 8)}</BYTE-LENGTH></PARAM>'
    raise ValueError(k)


def spec_xml(spec, docname="DLC", layer_xml=None):
    """-> list of XML documents (comparam subset first when needed, then one per DIAG-LAYER-CONTAINER in loading order);
    layer_xml: a dict that receives {layer short name: XML of that layer}"""
    docs = []
    cps = spec.get("comparams", [])
    if cps:
        body = "".join(
            f'<COMPARAM ID="CPS.{c}" PARAM-CLASS="COM" CPTYPE="STANDARD" CPUSAGE="ECU-COMM"><SHORT-NAME>{c}</SHORT-NAME>'
            f'<PHYSICAL-DEFAULT-VALUE>1</PHYSICAL-DEFAULT-VALUE><DATA-OBJECT-PROP-REF ID-REF="CPS.D.u8"/></COMPARAM>' for c in cps)
        docs.append(f'<?xml version="1.0"?><ODX MODEL-VERSION="2.2.0" {XSI}><COMPARAM-SUBSET ID="CPS" CATEGORY="CAT"><SHORT-NAME>CPS</SHORT-NAME>'
                    f'<COMPARAMS>{body}</COMPARAMS><DATA-OBJECT-PROPS><DATA-OBJECT-PROP ID="CPS.D.u8"><SHORT-NAME>u8</SHORT-NAME>'
                    f'<COMPU-METHOD><CATEGORY>IDENTICAL</CATEGORY></COMPU-METHOD>{_dct("A_UINT32", 8)}<PHYSICAL-TYPE BASE-DATA-TYPE="A_UINT32"/>'
                    f'</DATA-OBJECT-PROP></DATA-OBJECT-PROPS></COMPARAM-SUBSET></ODX>')
    dops = {d["name"]: d for d in spec.get("dops", [])}
    units = spec.get("units", [])
    by_kind = {}    # (container index, layer kind) -> [layer XML]
    # which layer defines which DOP (for ID construction); a DOP must be defined in the layer or an ancestor
    dop_owner = {}
    dop_at = {}     # short name -> (ODXLINK id that DOP-REFs use, the first layer defining the DOP / structure)
    sdops = {d["name"]: d for d in spec.get("sdops", [])}
    conts = containers_of(spec)
    cont_of = {ln: i for i, c in enumerate(conts) for ln in c}
    cname = (lambda i: f"{docname}{i}") if spec.get("containers") else (lambda i: docname)
    for L in spec["layers"]:
        for dn in L.get("own_dops", []):
            dop_owner.setdefault(dn, L["name"])
            dop_at.setdefault(dn, (f'{L["name"]}.D.{dn}', L["name"]))
        for sn in L.get("own_sdops", []):
            dop_at.setdefault(sn, (f'{L["name"]}.SD.{sn}', L["name"]))

    def ref_attrs(idref, target_layer, from_layer):
        """attributes of an ODXLINK reference from a layer to an object of a layer; DOCREF + DOCTYPE when they live in different containers"""
        if cont_of[target_layer] == cont_of[from_layer]:
            return f'ID-REF="{idref}"'
        if spec.get("docref") == "LAYER":
            return f'ID-REF="{idref}" DOCREF="{target_layer}" DOCTYPE="LAYER"'
        return f'ID-REF="{idref}" DOCREF="{cname(cont_of[target_layer])}" DOCTYPE="CONTAINER"'

    for L in spec["layers"]:
        ln = L["name"]
        dop_id = {n: ref_attrs(i, owner, ln) for n, (i, owner) in dop_at.items()}

        def params_xml(ps, base):
            return "".join(_param_xml(p, dop_id, f"{base}.P.{i}") for i, p in enumerate(ps))

        own = [dops[dn] for dn in L.get("own_dops", []) if dop_owner[dn] == ln]
        own += [dops[dn] for dn in L.get("dup_dops", []) if dop_owner.get(dn) != ln]
        used_units = sorted({d["unit"] for d in own if d.get("unit")})
        uxml = ""
        if used_units:
            ud = {u["name"]: u for u in units}
            uxml = "<UNIT-SPEC><UNITS>" + "".join(
                f'<UNIT ID="{ln}.U.{u}"><SHORT-NAME>{u}</SHORT-NAME><DISPLAY-NAME>{ud[u]["display"]}</DISPLAY-NAME></UNIT>' for u in used_units) + "</UNITS></UNIT-SPEC>"
        sxml = ""
        own_sd = [sdops[sn] for sn in L.get("own_sdops", []) if dop_at[sn][0] == f"{ln}.SD.{sn}"]
        if L.get("structs") or own_sd:
            sxml = "<STRUCTURES>" + "".join(
                f'<STRUCTURE ID="{ln}.ST.{k}"><SHORT-NAME>st{k}</SHORT-NAME><PARAMS>{_param_xml({"name": "c", "kind": "const", "val": k, "bl": 8}, dop_id)}</PARAMS></STRUCTURE>'
                for k in range(L.get("structs") or 0)) + "".join(
                f'<STRUCTURE ID="{ln}.SD.{sd["name"]}"><SHORT-NAME>{sd["name"]}</SHORT-NAME>'
                + (f'<BYTE-SIZE>{sd["byte_size"]}</BYTE-SIZE>' if sd.get("byte_size") is not None else "")
                + f'<PARAMS>{params_xml(sd["members"], ln + ".SD." + sd["name"])}</PARAMS></STRUCTURE>'
                for sd in own_sd) + "</STRUCTURES>"
        ddds = (f'<DIAG-DATA-DICTIONARY-SPEC><DATA-OBJECT-PROPS>{"".join(_dop_xml(d, ln) for d in own)}</DATA-OBJECT-PROPS>{sxml}{uxml}'
                f'</DIAG-DATA-DICTIONARY-SPEC>')
        svcs, reqs, poss, negs = [], [], [], []
        for s in L["services"]:
            sid = s.get("id", s["name"])
            rid = f"{ln}.RQ.{sid}"
            reqs.append(f'<REQUEST ID="{rid}"><SHORT-NAME>RQ_{sid}</SHORT-NAME><PARAMS>{params_xml(s["req"], rid)}</PARAMS></REQUEST>')
            pr, nr = "", ""
            for k, ps in enumerate(s.get("pos", [])):
                poss.append(f'<POS-RESPONSE ID="{ln}.PR.{sid}.{k}"><SHORT-NAME>PR_{sid}_{k}</SHORT-NAME><PARAMS>{params_xml(ps, f"{ln}.PR.{sid}.{k}")}</PARAMS></POS-RESPONSE>')
                pr += f'<POS-RESPONSE-REF ID-REF="{ln}.PR.{sid}.{k}"/>'
            for k, ps in enumerate(s.get("neg", [])):
                negs.append(f'<NEG-RESPONSE ID="{ln}.NR.{sid}.{k}"><SHORT-NAME>NR_{sid}_{k}</SHORT-NAME><PARAMS>{params_xml(ps, f"{ln}.NR.{sid}.{k}")}</PARAMS></NEG-RESPONSE>')
                nr += f'<NEG-RESPONSE-REF ID-REF="{ln}.NR.{sid}.{k}"/>'
            svcs.append(f'<DIAG-SERVICE ID="{ln}.S.{sid}"><SHORT-NAME>{s["name"]}</SHORT-NAME><REQUEST-REF ID-REF="{rid}"/>'
                        + (f"<POS-RESPONSE-REFS>{pr}</POS-RESPONSE-REFS>" if pr else "")
                        + (f"<NEG-RESPONSE-REFS>{nr}</NEG-RESPONSE-REFS>" if nr else "") + "</DIAG-SERVICE>")
        cpr = ""
        if L.get("cprefs"):
            cpr = "<COMPARAM-REFS>" + "".join(
                f'<COMPARAM-REF ID-REF="CPS.{c}" DOCREF="CPS" DOCTYPE="COMPARAM-SUBSET"><SIMPLE-VALUE>{7 + i}</SIMPLE-VALUE>'
                + (f'<PROTOCOL-SNREF SHORT-NAME="{proto}"/>' if proto else "") + "</COMPARAM-REF>"
                for i, (c, proto) in enumerate(L["cprefs"])) + "</COMPARAM-REFS>"
        par = ""
        for ref in parent_refs(L):
            pk = next(x["kind"] for x in spec["layers"] if x["name"] == ref["name"])
            ni = ""
            if ref.get("ni_svcs"):
                ni += "<NOT-INHERITED-DIAG-COMMS>" + "".join(
                    f'<NOT-INHERITED-DIAG-COMM><DIAG-COMM-SNREF SHORT-NAME="{x}"/></NOT-INHERITED-DIAG-COMM>' for x in ref["ni_svcs"]) + "</NOT-INHERITED-DIAG-COMMS>"
            if ref.get("ni_dops"):
                ni += "<NOT-INHERITED-DOPS>" + "".join(
                    f'<NOT-INHERITED-DOP><DOP-BASE-SNREF SHORT-NAME="{x}"/></NOT-INHERITED-DOP>' for x in ref["ni_dops"]) + "</NOT-INHERITED-DOPS>"
            par += f'<PARENT-REF {ref_attrs(ref["name"], ref["name"], ln)} xsi:type="{pk}-REF">{ni}</PARENT-REF>'
        if par:
            par = f"<PARENT-REFS>{par}</PARENT-REFS>"
        kind = L["kind"]
        xml = (f'<{kind} ID="{ln}"><SHORT-NAME>{ln}</SHORT-NAME>{ddds}<DIAG-COMMS>{"".join(svcs)}</DIAG-COMMS>'
               f'<REQUESTS>{"".join(reqs)}</REQUESTS><POS-RESPONSES>{"".join(poss)}</POS-RESPONSES>'
               f'<NEG-RESPONSES>{"".join(negs)}</NEG-RESPONSES>{cpr}{par}</{kind}>')
        by_kind.setdefault((cont_of[ln], kind), []).append(xml)
        if layer_xml is not None:
            layer_xml[ln] = xml
    for ci in range(len(conts)):
        body = ""
        for kind, tag in [("PROTOCOL", "PROTOCOLS"), ("FUNCTIONAL-GROUP", "FUNCTIONAL-GROUPS"), ("ECU-SHARED-DATA", "ECU-SHARED-DATAS"),
                          ("BASE-VARIANT", "BASE-VARIANTS"), ("ECU-VARIANT", "ECU-VARIANTS")]:
            if by_kind.get((ci, kind)):
                body += f"<{tag}>{''.join(by_kind[(ci, kind)])}</{tag}>"
        docs.append(f'<?xml version="1.0"?><ODX MODEL-VERSION="2.2.0" {XSI}><DIAG-LAYER-CONTAINER ID="{cname(ci)}"><SHORT-NAME>{cname(ci)}</SHORT-NAME>{body}'
                    f'</DIAG-LAYER-CONTAINER></ODX>')
    return docs


def containers_of(spec):
    """the partition of the layers into DIAG-LAYER-CONTAINERs, in loading order (layers a given layout forgot go to the last one)"""
    names = [l["name"] for l in spec["layers"]]
    conts = [[n for n in c if n in names] for c in (spec.get("containers") or [names])]
    rest = [n for n in names if not any(n in c for c in conts)]
    if rest:
        conts[-1] = conts[-1] + rest
    return [c for c in conts if c] or [names]


def _parse(spec, layer_xml=None):
    """a Database that has read the documents of the spec (XML parser only, no refresh())"""
    from odxtools.database import Database
    db = Database()
    for x in spec_xml(spec, layer_xml=layer_xml):
        db._process_xml_tree(ET.fromstring(x))
    return db


def load(spec):
    import warnings
    with warnings.catch_warnings():
        warnings.simplefilter("ignore")
        db = _parse(spec)
        db.refresh()
    return db


# --------------------------------------------------------------------------- call histories: a loaded database is edited in place
# A *schedule* is a word over {N, O, R}, applied to a freshly loaded database of the old spec:
#   N / O  the content of every layer that differs between the database's current state and the new / old spec is replaced *in
#          place* (the DiagLayer object and its DiagLayerRaw object stay the same, the fields of the raw object -- services,
#          requests, responses, data dictionary, parent refs ... -- are set to what the XML parser yields for the target spec;
#          layers that do not differ are not touched at all), followed by Database.refresh()
#   R      Database.refresh() once more, without any change
# The resulting database must be indistinguishable from a freshly loaded one of the spec reached last.
SCHEDULES = ("N", "NR", "RN", "NON", "NO")


def schedule_target(schedule):
    """which spec the database is in after the schedule: 'new' | 'old'"""
    last = [c for c in schedule if c in "NOM"]
    return "new" if last and last[-1] in "NM" else "old"


def load_mutated(spec_old, lname, edit):
    """schedule "M": the object-level in-place edit of a loaded database (the workflow of examples/mksomersaultmodifiedpdx.py):
    the BIT-LENGTH of the parameter named by a "bitlen" attribute edit (CODED-CONST / NRC-CONST: its STANDARD-LENGTH-TYPE object;
    RESERVED: the parameter itself) is assigned on the loaded objects, then Database.refresh().  -> (database | None, problem)"""
    import warnings
    with warnings.catch_warnings():
        warnings.simplefilter("ignore")
        try:
            edit = edit.get("of", edit)
            new_bl = int(edit["rows"][0][2])
            db = load(spec_old)
            dl = next(d for d in db.diag_layers if d.short_name == lname)
            svc = next(x for x in dl.services if x.short_name == edit["service"])
            sec, j, i = edit["loc"]
            p = (svc.request if sec == "req" else (svc.positive_responses if sec == "pos" else svc.negative_responses)[j]).parameters[i]
            if edit.get("pkind") == "reserved":
                p.bit_length = new_bl
            else:
                p.diag_coded_type.bit_length = new_bl
        except Exception as e:  # noqa
            return None, f"setup:{type(e).__name__}"
        try:
            db.refresh()
        except Exception as e:  # noqa
            return None, f"foreign:{type(e).__name__}"
    return db, None


def _layer_objects(db):
    out = {}
    for dlc in db._diag_layer_containers:
        for lst in (dlc.ecu_shared_datas, dlc.protocols, dlc.functional_groups, dlc.base_variants, dlc.ecu_variants):
            for dl in lst:
                out[dl.diag_layer_raw.short_name] = dl
    return out


def load_history(spec_old, spec_new, schedule):
    """-> (database | None, problem): load the old spec, then run the schedule (see above).  problem: None, 'setup:<Type>' (the
    harness could not prepare an in-place edit: not a case) or 'foreign:<Type>' (refresh() of the edited database raised)"""
    import dataclasses
    import warnings
    with warnings.catch_warnings():
        warnings.simplefilter("ignore")
        try:
            db = load(spec_old)
            state = {}
            spec_xml(spec_old, layer_xml=state)
            mine = _layer_objects(db)
        except Exception as e:  # noqa
            return None, f"setup:{type(e).__name__}"
        for step in schedule:
            if step in "NO":
                try:
                    target = {}
                    other = _layer_objects(_parse(spec_new if step == "N" else spec_old, layer_xml=target))
                    for ln, xml in target.items():
                        if state.get(ln) == xml:
                            continue
                        raw, raw2 = mine[ln].diag_layer_raw, other[ln].diag_layer_raw
                        if type(raw) is not type(raw2):
                            return None, "setup:LayerKindChanged"
                        for f in dataclasses.fields(raw2):
                            setattr(raw, f.name, getattr(raw2, f.name))
                    state = target
                except Exception as e:  # noqa
                    return None, f"setup:{type(e).__name__}"
            try:
                db.refresh()
            except Exception as e:  # noqa
                return None, f"foreign:{type(e).__name__}"
    return db, None


# --------------------------------------------------------------------------- the space of legal short names
# An ODX SHORT-NAME is any [a-zA-Z0-9_]{1,128} (ISO 22901-1 7.1.1).  The comparison / listing tools identify layers, services,
# parameters, DOPs and units by their short name, so the *class* of a name must not matter.  The classes below partition what
# can make a name special for Python code that looks objects up by name (NamedItemList attribute keys, dictionaries, sorting,
# string formatting): none is special for the property.
_STEMS = ("Read", "ctl", "Data_Id", "x", "Routine", "tp", "Sess", "io", "Write", "dtc", "mem", "Sec", "echo", "flip", "Reset", "q")
_HARD_KW = ("False", "None", "True", "and", "as", "assert", "async", "await", "break", "class", "continue", "def", "del", "elif", "else",
            "except", "finally", "for", "from", "global", "if", "import", "in", "is", "lambda", "nonlocal", "not", "or", "pass", "raise",
            "return", "try", "while", "with", "yield")
_SOFT_KW = ("_", "case", "match", "type", "print", "list", "dict", "id", "len", "str", "int", "self", "cls", "object", "property", "exec",
            "set", "min", "max", "all", "any", "next", "iter", "hash")
_CONTAINER_ATTRS = ("append", "clear", "copy", "count", "extend", "get", "index", "insert", "items", "keys", "pop", "remove", "reverse",
                    "sort", "values", "_item_dict", "_get_item_key", "_add_attribute_item", "__len__", "__class__", "__dict__", "__eq__",
                    "__init__", "__getattr__", "__iter__", "__doc__")
NAME_CLASSES = ("plain", "digit-first", "all-digits", "keyword", "soft-keyword-or-builtin", "container-attribute", "underscore-first",
                "mangled-twin", "numbered-twin", "case-twin", "one-char", "long", "prefix-chain")


def draw_names(rng, cls, n, avoid=()):
    """n distinct legal short names of class `cls` (a member of NAME_CLASSES, or "mixed" = every name of a class of its own),
    none of them in `avoid`.  Relational classes ("…-twin", "prefix-chain") return names that are related to *each other*:
      mangled-twin   X and _X where X starts with a digit / is a keyword (the attribute key NamedItemList gives X is the name _X)
      numbered-twin  X, X_2, X_, X_3, X_2_2 … (the suffixes NamedItemList uses to disambiguate attribute keys)
      case-twin      names that differ only in case;  prefix-chain: every name is a proper prefix of the next"""
    avoid = set(avoid)
    out = []

    def take(cands):
        for c in cands:
            if len(out) >= n:
                break
            if c not in avoid and c not in out and 1 <= len(c) <= 128:
                out.append(c)

    def stems():
        s = list(_STEMS)
        rng.shuffle(s)
        return s

    guard = 0
    while len(out) < n and guard < 50:
        guard += 1
        c = rng.choice(NAME_CLASSES) if cls == "mixed" else cls
        want = 1 if cls == "mixed" else n
        before = len(out)
        if c == "plain":
            cands = [f"{s}{guard if guard > 1 else ''}" for s in stems()]
        elif c == "digit-first":
            cands = [f"{rng.choice(['31', '22', '3E', '0x27', '1', '7F', '2e', '0'])}_{s}" for s in stems()] + ["0x10", "1a", "2E", "3e80"]
            rng.shuffle(cands)
        elif c == "all-digits":
            cands = ["0", "1", "31", "007", "10", "22", "62", "127", "2147483648", "00"] + [str(rng.randrange(10 ** 6)) for _ in range(n + 4)]
            rng.shuffle(cands)
        elif c == "keyword":
            cands = rng.sample(_HARD_KW, len(_HARD_KW))
        elif c == "soft-keyword-or-builtin":
            cands = rng.sample(_SOFT_KW, len(_SOFT_KW))
        elif c == "container-attribute":
            cands = rng.sample(_CONTAINER_ATTRS, len(_CONTAINER_ATTRS))
        elif c == "underscore-first":
            cands = ["_", "__", "_1", "_0x", "___"] + [f"{'_' * rng.randint(1, 2)}{s}{rng.choice(['', '_', '__'])}" for s in stems()]
            rng.shuffle(cands)
        elif c == "mangled-twin":
            cands = []
            for s in stems():
                x = rng.choice([f"{rng.randint(0, 99)}_{s}", rng.choice(_HARD_KW), f"{rng.randint(0, 9)}{s}"])
                pair = [x, "_" + x]
                rng.shuffle(pair)
                cands += pair
        elif c == "numbered-twin":
            cands = []
            for s in stems():
                fam = [s, s + "_2", s + "_", s + "_3", s + "_2_2", s + "2", s + "__2"]
                k = max(2, min(len(fam), n - len(cands)))
                grp = [fam[0]] + rng.sample(fam[1:], k - 1)
                rng.shuffle(grp)
                cands += grp
        elif c == "case-twin":
            cands = []
            for s in stems():
                grp = list(dict.fromkeys([s.lower(), s.upper(), s.capitalize(), s.swapcase()]))
                rng.shuffle(grp)
                cands += grp
        elif c == "one-char":
            cands = list("abzAZQ_0179xX")
            rng.shuffle(cands)
        elif c == "long":
            fill = rng.choice("aZ_9")
            head = rng.choice(["L", "_", "4"])
            cands = [head + fill * (127 - len(t)) + t for t in (f"{k:04d}" for k in rng.sample(range(10000), n + 4))]
            cands += [t + fill * (128 - len(t)) for t in (f"n{k:04d}" for k in rng.sample(range(10000), 2))]   # differ at the front
            rng.shuffle(cands)
        else:  # prefix-chain
            s = rng.choice(_STEMS)
            cands = [s]
            for _ in range(n + 4):
                cands.append(cands[-1] + rng.choice(["_", "1", "a", "_2", "X", "0"]))
            if rng.random() < .5:
                cands.reverse()
        if cls == "mixed":
            take([x for x in cands if x not in avoid and x not in out][:want])
        else:
            take(cands)
        if len(out) == before and cls != "mixed":
            # the class is exhausted (more names wanted than it has): pad with plain names
            take([f"{s}_{k}" for k in range(n) for s in _STEMS])
    if len(out) < n:
        take([f"N{k}_{s}" for k in range(n) for s in _STEMS])
    return out


def fresh_name(rng, cls, avoid, near=()):
    """one more legal short name of class `cls` that is not in `avoid`; for the relational classes it is related to one of
    the names in `near` (its mangled / numbered / case twin, a prefix or an extension of it) whenever that is possible"""
    avoid = set(avoid)
    near = sorted(near)
    if near and cls in ("mangled-twin", "numbered-twin", "case-twin", "prefix-chain"):
        x = rng.choice(near)
        if cls == "mangled-twin":
            cands = [x[1:] if x.startswith("_") and len(x) > 1 else "_" + x, "_" + x]
        elif cls == "numbered-twin":
            cands = [x + "_2", x + "_", x + "2", x + "_3", x[:-2] if x.endswith("_2") else x + "_2_2"]
            rng.shuffle(cands)
        elif cls == "case-twin":
            cands = [x.swapcase(), x.upper(), x.lower(), x.capitalize()]
        else:
            cands = [x + rng.choice("_1aX0"), x[:-1]]
            rng.shuffle(cands)
        for c in cands:
            if c and c not in avoid and len(c) <= 128 and re.fullmatch(r"[a-zA-Z0-9_]+", c):
                return c
    return draw_names(rng, cls, 1, avoid)[0]


def name_class_of(name):
    """coarse class of a single name (for histograms)"""
    import keyword
    if name.isdigit():
        return "all-digits"
    if name[0].isdigit():
        return "digit-first"
    if keyword.iskeyword(name):
        return "keyword"
    if name in _CONTAINER_ATTRS:
        return "container-attribute"
    if name in _SOFT_KW:
        return "soft-keyword-or-builtin"
    if name[0] == "_":
        return "underscore-first"
    if len(name) == 1:
        return "one-char"
    if len(name) >= 100:
        return "long"
    return "plain"


NAME_KINDS = ("layers", "services", "params", "dops", "units", "comparams")


def rename_spec(spec, rng, naming):
    """a copy of `spec` in which the short names of the kinds in `naming` ({kind: name class}) are replaced by names of that
    class, consistently (all references follow: PARENT-REFs, NOT-INHERITED lists, DOP-REFs, UNIT-REFs, COMPARAM-REFs).
    XML IDs of services / requests / responses keep the generator's plain ids.  Name spaces: layers; services (one map for the
    document, so a service that a later layer re-defines keeps sharing its name); DOPs + STRUCTUREs; units; comparams;
    parameters per parameter list.  The chosen classes are recorded under spec["naming"]."""
    s = copy.deepcopy(spec)
    s["naming"] = dict(naming)

    def mapping(kind, olds, avoid=()):
        olds = list(dict.fromkeys(olds))
        cls = naming.get(kind)
        if not cls or not olds:
            return {o: o for o in olds}
        return dict(zip(olds, draw_names(rng, cls, len(olds), avoid)))

    lm = mapping("layers", [l["name"] for l in s["layers"]])
    sm = mapping("services", [x["name"] for l in s["layers"] for x in l["services"]])
    # unused STRUCTUREs of a layer are called st0, st1 (spec_xml) and live in the same name space as DOPs
    dm = mapping("dops", [d["name"] for d in s.get("dops", [])] + [d["name"] for d in s.get("sdops", [])], avoid=("st0", "st1"))
    um = mapping("units", [u["name"] for u in s.get("units", [])])
    cm = mapping("comparams", list(s.get("comparams", [])))

    def plist(ps):
        pm = mapping("params", [p["name"] for p in ps])
        for p in ps:
            p["name"] = pm[p["name"]]
            if p.get("dop") is not None:
                p["dop"] = dm.get(p["dop"], p["dop"])

    for d in s.get("dops", []):
        d["name"] = dm[d["name"]]
        if d.get("unit"):
            d["unit"] = um[d["unit"]]
    for d in s.get("sdops", []):
        d["name"] = dm[d["name"]]
        plist(d["members"])
    for u in s.get("units", []):
        u["name"] = um[u["name"]]
    s["comparams"] = [cm[c] for c in s.get("comparams", [])]
    if s.get("containers"):
        s["containers"] = [[lm.get(n, n) for n in c] for c in s["containers"]]
    for l in s["layers"]:
        l["name"] = lm[l["name"]]
        if l.get("parent"):
            l["parent"] = lm[l["parent"]]
        for ref in l.get("parents") or []:
            ref["name"] = lm[ref["name"]]
            ref["ni_svcs"] = [sm.get(x, x) for x in ref.get("ni_svcs") or []]
            ref["ni_dops"] = [dm.get(x, x) for x in ref.get("ni_dops") or []]
        for key in ("own_dops", "dup_dops", "own_sdops"):
            if key in l:
                l[key] = [dm[x] for x in l[key]]
        l["cprefs"] = [[cm[c], pr] for c, pr in l.get("cprefs", [])]
        for x in l["services"]:
            x["name"] = sm[x["name"]]
            plist(x["req"])
            for sec in ("pos", "neg"):
                for ps in x.get(sec, []):
                    plist(ps)
    return s


def all_names(spec, kind):
    """the short names of one name space that a spec uses"""
    if kind == "services":
        return {x["name"] for l in spec["layers"] for x in l["services"]}
    if kind == "layers":
        return {l["name"] for l in spec["layers"]}
    if kind == "dops":
        return {d["name"] for d in spec.get("dops", [])} | {d["name"] for d in spec.get("sdops", [])} | {"st0", "st1"}
    raise ValueError(kind)


# --------------------------------------------------------------------------- constant request prefix, from the spec alone
def parent_refs(layer):
    """the PARENT-REFs of a layer spec: [{"name", "ni_svcs", "ni_dops"}] ("parent": name is the single-parent short form)"""
    if layer.get("parents") is not None:
        return list(layer["parents"])
    return [{"name": layer["parent"]}] if layer.get("parent") else []


# inheritance priority of the layer kinds (ISO 22901-1 7.3.2.4: a more specific layer wins; ECU-SHARED-DATA wins over all)
PRIO = {"PROTOCOL": 1, "FUNCTIONAL-GROUP": 2, "BASE-VARIANT": 3, "ECU-VARIANT": 4, "ECU-SHARED-DATA": 100}


def visible_map(spec, lname, what):
    """value inheritance computed from the spec alone: what a layer offers = its own objects, plus, through every PARENT-REF,
    what that parent offers minus the short names listed as NOT-INHERITED *on that PARENT-REF*; the same short name reached
    through several parents is taken from the parent layer of the highest priority; own objects override inherited ones.
    what = "services" -> {short name: (defining layer, service spec)}; "dops" -> {short name: (defining layer, name)}"""
    by = {l["name"]: l for l in spec["layers"]}
    x = by[lname]
    cands = {}
    for ref in parent_refs(x):
        par = by[ref["name"]]
        excl = set(ref.get("ni_svcs" if what == "services" else "ni_dops") or [])
        pr = PRIO[par["kind"]]
        for name, v in visible_map(spec, par["name"], what).items():
            if name in excl:
                continue
            if name not in cands or cands[name][0] < pr:
                cands[name] = (pr, v)
    out = {name: v for name, (_, v) in cands.items()}
    if what == "services":
        for s in x["services"]:
            out[s["name"]] = (lname, s)
    else:
        owner = {}
        for l in spec["layers"]:
            for dn in l.get("own_dops", []):
                owner.setdefault(dn, l["name"])
        for dn in x.get("own_dops", []):
            if owner[dn] == lname:
                out[dn] = (lname, dn)
        for dn in x.get("dup_dops", []):
            if owner.get(dn) != lname:
                out[dn] = (lname, dn)
    return out


def visible_comparams(spec, lname):
    """(comparam, protocol) pairs that apply to a layer: its own COMPARAM-REFs and those of all ancestors (an ECU-SHARED-DATA
    layer has none and passes none on)"""
    by = {l["name"]: l for l in spec["layers"]}
    x = by[lname]
    if x["kind"] == "ECU-SHARED-DATA":
        return set()
    out = {(c, pr) for c, pr in x.get("cprefs", [])}
    for ref in parent_refs(x):
        out |= visible_comparams(spec, ref["name"])
    return out


def visible_services(spec, lname):
    """service specs visible in layer `lname` after inheritance: {name: svc}"""
    return {name: svc for name, (_, svc) in visible_map(spec, lname, "services").items()}


def inherits_from(spec, lname, target):
    """does layer `lname` (transitively) have `target` as a parent"""
    by = {l["name"]: l for l in spec["layers"]}
    return any(r["name"] == target or inherits_from(spec, r["name"], target) for r in parent_refs(by[lname]))


# --------------------------------------------------------------------------- static sizes, from the spec alone
def dop_bits(spec, name):
    """bit length of what a VALUE / PHYS-CONST parameter linked to `name` occupies: the coded type's BIT-LENGTH for a simple
    DOP; for a STRUCTURE its BYTE-SIZE, else the bytes its members span (a member starts at its BYTE-POSITION or behind the
    previous one and occupies whole bytes). None = unknown name."""
    for d in spec.get("dops", []):
        if d["name"] == name:
            return d["bl"]
    for sd in spec.get("sdops", []):
        if sd["name"] == name:
            if sd.get("byte_size") is not None:
                return 8 * sd["byte_size"]
            end, size = 0, 0
            for m in sd["members"]:
                bl = dop_bits(spec, m["dop"]) if m["kind"] in ("value", "physconst") else m["bl"]
                if bl is None:
                    return None
                start = m["bp"] if m.get("bp") is not None else end
                end = start + -(-bl // 8)
                size = max(size, end)
            return 8 * size
    return None


def is_struct(spec, name):
    return any(sd["name"] == name for sd in spec.get("sdops", []))


def users_of(spec, dopname):
    """number of request/response parameters (of all layers) linked to the DOP / structure"""
    n = 0
    for l in spec["layers"]:
        for s in l["services"]:
            for loc in locs(s):
                n += get_param(s, loc).get("dop") == dopname
    return n


def spec_prefix(spec, svc):
    """the bytes at the start of every request of `svc` that are fixed by its leading constant parameters (CODED-CONST with
    its own coded type, PHYS-CONST through its DOP; identity/offset-0 factor-1 computation, big endian), computed from
    the spec without the code under test. None = not decided here (odd bit length, value out of range, overlapping
    constants, non-integer value): the caller falls back to what the implementation says."""
    dops = {d["name"]: d for d in spec.get("dops", [])}
    buf, used, cursor = bytearray(), bytearray(), 0
    for p in svc["req"]:
        if p["kind"] == "const":
            bl, bt = p["bl"], p.get("bt", "A_UINT32")
        elif p["kind"] == "physconst":
            d = dops.get(p.get("dop"))
            if d is None:
                return None
            bl, bt = d["bl"], d["bt"]
        else:
            break
        v = p.get("val")
        if isinstance(v, bool) or not isinstance(v, int) or bl % 8 or bt not in ("A_UINT32", "A_INT32"):
            return None
        if p.get("bp") is not None:
            cursor = p["bp"]
        n = bl // 8
        try:
            raw = v.to_bytes(n, "big", signed=(bt == "A_INT32"))
        except OverflowError:
            return None
        if len(buf) < cursor + n:
            pad = cursor + n - len(buf)
            buf += bytes(pad)
            used += bytes(pad)
        if any(used[cursor:cursor + n]):
            return None
        buf[cursor:cursor + n] = raw
        used[cursor:cursor + n] = b"\xff" * n
        cursor += n
    k = 0
    while k < len(used) and used[k]:
        k += 1
    return bytes(buf[:k])


def spec_prefixes(spec, lname, exclude=None):
    """spec_prefix of every service visible in the layer (optionally but one); None as soon as one is undecided"""
    out = []
    for name, svc in visible_services(spec, lname).items():
        if name == exclude:
            continue
        p = spec_prefix(spec, svc)
        if p is None:
            return None
        out.append(p)
    return out


# --------------------------------------------------------------------------- edits
def locs(svc):
    """all parameter locations of a service spec: ('req', None, i) / ('pos', j, i) / ('neg', j, i)"""
    out = [("req", None, i) for i in range(len(svc["req"]))]
    for sec in ("pos", "neg"):
        for j, ps in enumerate(svc.get(sec, [])):
            out += [(sec, j, i) for i in range(len(ps))]
    return out


def get_param(svc, loc):
    sec, j, i = loc
    return svc["req"][i] if sec == "req" else svc[sec][j][i]


ATTR_EDITS = ("bytepos", "bitlen", "value", "semantic", "datatype", "dop")


def apply_attr_edit(spec, p, attr, rng):
    """change one attribute of parameter spec `p` in place; returns False when not applicable"""
    k = p["kind"]
    if attr == "bytepos":
        old = p.get("bp")
        p["bp"] = rng.choice([x for x in (None, 0, 1, 2, 3, 5) if x != old])
        return True
    if attr == "semantic":
        old = p.get("sem")
        p["sem"] = rng.choice([x for x in (None, "DATA", "SERVICE-ID", "ID") if x != old])
        return True
    if attr == "bitlen":
        if k == "value" and is_struct(spec, p.get("dop")):
            return resize_struct(spec, p["dop"], rng)
        if k not in ("const", "nrc", "reserved"):
            return False
        p["bl"] = rng.choice([x for x in (8, 16, 24, 32) if x != p["bl"]])
        return True
    if attr == "value":
        if k != "const":
            return False
        p["val"] = rng.choice([x for x in (0, 1, 0x10, 0x22, 0x7F, 0xFE) if x != p["val"]])
        return True
    if attr == "datatype":
        if k not in ("const", "nrc"):
            return False
        p["bt"] = "A_INT32" if p.get("bt", "A_UINT32") == "A_UINT32" else "A_UINT32"
        return True
    if attr == "dop":
        if p.get("dop") is None:       # VALUE, PHYS-CONST, SYSTEM, LENGTH-KEY: every parameter kind that links a DOP
            return False
        cands = [d["name"] for d in spec["dops"] if d["name"] != p["dop"]]
        if k == "value" and p.get("default") is None:
            # a VALUE parameter without default may be typed by a STRUCTURE as well
            sds = [d["name"] for d in spec.get("sdops", []) if d["name"] != p["dop"]]
            if sds and (is_struct(spec, p["dop"]) or rng.random() < .5):
                cands = sds + (cands if rng.random() < .5 else [])
        if not cands:
            return False
        p["dop"] = rng.choice(cands)
        return True
    raise ValueError(attr)


def resize_struct(spec, name, rng):
    """the bit length of a parameter typed by a STRUCTURE changes when the structure's size does. This is a single edit of
    *that* parameter only when it is the structure's sole user; the size is changed through BYTE-SIZE, the bit length of a
    constant / reserved member, or the DOP of a value member (whichever really changes the size)."""
    if users_of(spec, name) != 1:
        return False
    sd = next(d for d in spec["sdops"] if d["name"] == name)
    old = dop_bits(spec, name)
    ops = ["byte-size", "member-bl", "member-dop", "member-added"]
    rng.shuffle(ops)
    for op in ops:
        saved = copy.deepcopy(sd)
        if op == "byte-size":
            sd["byte_size"] = (old or 0) // 8 + rng.randint(1, 3)
        elif op == "member-bl":
            ms = [m for m in sd["members"] if m["kind"] in ("const", "reserved")]
            if ms:
                m = rng.choice(ms)
                m["bl"] = rng.choice([x for x in (8, 16, 24, 32) if x != m["bl"]])
        elif op == "member-dop":
            ms = [m for m in sd["members"] if m["kind"] == "value"]
            if ms:
                m = rng.choice(ms)
                cands = [d["name"] for d in spec["dops"] if d["bl"] != dop_bits(spec, m["dop"])]
                if cands:
                    m["dop"] = rng.choice(cands)
        else:
            sd["members"].append({"name": f"m{len(sd['members'])}", "kind": "reserved", "bp": None, "bl": rng.choice([8, 16]), "sem": None})
        new = dop_bits(spec, name)
        if new is not None and new != old:
            return True
        sd.clear()
        sd.update(saved)
    return False


# --------------------------------------------------------------------------- canonical view of the tool's result
_INFO_RE = [
    (re.compile(r"^\s*Properties of request parameter '([^']*)' that have changed:\n$"), "req"),
    (re.compile(r"^\s*Properties of positive response parameter '([^']*)' that have changed:\n$"), "pos"),
    (re.compile(r"^\s*Properties of response parameter '([^']*)' that have changed:\n$"), "neg"),
    (re.compile(r"^List of request parameters for service '([^']*)' is not identical\.\n$"), "reqlist"),
    (re.compile(r"^List of positive response parameters for service '([^']*)' is not identical\.\n?$"), "resplist-params"),
    (re.compile(r"^List of positive responses for service '([^']*)' is not identical\.\n?$"), "resplist"),
]


def canon_info(info):
    """[infotext, table, infotext, table, ...] -> [[kind, name, [[prop, old, new]...]], ...]"""
    out = []
    k = 0
    while k < len(info):
        text = info[k]
        table = info[k + 1] if k + 1 < len(info) else None
        kind, name = "unparsed", ""
        if isinstance(text, str):
            for rx, kd in _INFO_RE:
                m = rx.match(text)
                if m:
                    kind, name = kd, m.group(1)
                    break
        rows = []
        if isinstance(table, dict) and "Property" in table:
            rows = [[str(a), str(b), str(c)] for a, b, c in zip(table["Property"], table["Old Value"], table["New Value"])]
        elif isinstance(table, dict) and "List" in table:
            rows = []
        else:
            kind = "unparsed"
        out.append([kind, name, rows])
        k += 2
    return out


def canon_layer_result(d):
    """service_dict of compare_diagnostic_layers -> JSON-able canonical form (sets sorted by short name)"""
    ren = d["changed_name_of_service"]
    ch = d["changed_parameters_of_service"]
    return {
        "new": sorted(s.short_name for s in d["new_services"]),
        "deleted": sorted(s.short_name for s in d["deleted_services"]),
        "renamed": sorted([s.short_name, old] for s, old in zip(ren[0], ren[1])),
        "changed": sorted([s.short_name, txt, canon_info(info)] for s, txt, info in zip(ch[0], ch[1], ch[2])),
    }


def run_compare_layers(dl_new, dl_old):
    """-> canonical result or 'foreign:<Type>'"""
    from odxtools.cli.compare import Comparison
    try:
        return canon_layer_result(Comparison().compare_diagnostic_layers(dl_new, dl_old))
    except Exception as e:  # noqa
        return f"foreign:{type(e).__name__}"


def run_compare_databases(db_new, db_old, names=None):
    from odxtools.cli.compare import Comparison
    try:
        t = Comparison()
        t.diagnostic_layer_names = set(names) if names is not None else {dl.short_name for db in (db_new, db_old) for dl in db.diag_layers}
        r = t.compare_databases(db_new, db_old)
        out = {"new_layers": sorted(dl.short_name for dl in r["new_diagnostic_layers"]),
               "deleted_layers": sorted(dl.short_name for dl in r["deleted_diagnostic_layers"]), "layers": {}}
        for k, v in r.items():
            if isinstance(v, dict):
                out["layers"][k] = canon_layer_result(v)
        return out
    except Exception as e:  # noqa
        return f"foreign:{type(e).__name__}"


# --------------------------------------------------------------------------- metrics table as rendered
def metrics_rows(layers, via_list_tool_db=None):
    """what print_dl_metrics renders: -> [[name, type, services, dops, comparams] as strings] or 'foreign:...'"""
    from rich.console import Console
    import odxtools.cli._print_utils as pu
    import odxtools.cli.list as lst
    import rich
    captured = []

    def fake_print(*objs, **kw):
        captured.extend(objs)

    saved = (pu.rich_print, rich.print)
    pu.rich_print = fake_print
    rich.print = fake_print
    try:
        if via_list_tool_db is not None:
            lst.print_summary(via_list_tool_db)
        else:
            pu.print_dl_metrics(list(layers))
    except Exception as e:  # noqa
        return f"foreign:{type(e).__name__}"
    finally:
        pu.rich_print, rich.print = saved
    from rich.table import Table
    tables = [o for o in captured if isinstance(o, Table)]
    if len(tables) != 1:
        return f"foreign:tables={len(tables)}"
    buf = io.StringIO()
    Console(file=buf, width=300, color_system=None, force_terminal=False).print(tables[0])
    rows = []
    for line in buf.getvalue().splitlines():
        if "│" in line or "┃" in line:
            cells = [c.strip() for c in re.split("[│┃]", line)[1:-1]]
            rows.append(cells)
    return rows[1:] if rows else rows   # drop header


# --------------------------------------------------------------------------- model input (s-expressions)
def hx(s):
    b = s.encode() if isinstance(s, str) else bytes(s)
    return b.hex() if b else "-"


class Keys:
    """equivalence classes of objects under `==` (what the tool uses), as small integers"""

    def __init__(self):
        self.reps = []

    def key(self, obj):
        for i, r in enumerate(self.reps):
            if r is obj or r == obj:
                return i
        self.reps.append(obj)
        return len(self.reps) - 1


def pyval(v):
    if isinstance(v, bool) or not isinstance(v, int):
        return f"(o {hx(repr(v))})"
    return f"(i {v})"


def opt(v, f=str):
    return "none" if v is None else f"(some {f(v)})"


def param_sexp(p, dopkeys, unitkeys):
    from odxtools.parameters.codedconstparameter import CodedConstParameter
    from odxtools.parameters.nrcconstparameter import NrcConstParameter
    from odxtools.parameters.physicalconstantparameter import PhysicalConstantParameter
    from odxtools.parameters.valueparameter import ValueParameter
    if isinstance(p, CodedConstParameter):
        kind = f"(const {hx(p.diag_coded_type.base_data_type.name)} {pyval(p.coded_value)})"
    elif isinstance(p, NrcConstParameter):
        kind = f"(nrc {hx(p.diag_coded_type.base_data_type.name)} {hx(str(p.coded_values))})"
    elif (dop := getattr(p, "dop", None)) is not None:
        unit = getattr(dop, "unit", None)
        u = "none"
        if unit:
            u = f"(some ({unitkeys.key(unit)} {hx(unit.short_name)} {hx(str(unit.display_name))}))"
        pt = getattr(dop, "physical_type", None)
        ptn = opt(pt.base_data_type.name if pt else None, hx)
        if isinstance(p, PhysicalConstantParameter):
            sub = f"(pc {pyval(p.physical_constant_value)})"
        elif isinstance(p, ValueParameter):
            sub = f"(val {opt(p.physical_default_value, pyval)})"
        else:
            sub = "(other)"
        kind = f"(dop {dopkeys.key(dop)} {hx(dop.short_name)} {u} {ptn} {sub})"
    else:
        kind = "(plain)"
    return (f"(p {hx(p.short_name)} {opt(p.byte_position)} {opt(p.get_static_bit_length())} {opt(p.semantic, hx)} "
            f"{hx(p.parameter_type)} {kind})")


def service_sexp(s, dopkeys, unitkeys, svckeys):
    rq = s.request
    prefix = "none" if rq is None else f"(some {hx(rq.coded_const_prefix())})"
    req = "none" if rq is None else "(some " + " ".join(param_sexp(p, dopkeys, unitkeys) for p in rq.parameters) + ")"
    pos = " ".join("(" + " ".join(param_sexp(p, dopkeys, unitkeys) for p in r.parameters) + ")" for r in s.positive_responses)
    neg = " ".join("(" + " ".join(param_sexp(p, dopkeys, unitkeys) for p in r.parameters) + ")" for r in s.negative_responses)
    return f"(s {hx(s.short_name)} {svckeys.key(s)} {prefix} {req} (pos {pos}) (neg {neg}))"


def layer_sexp(dl, keys):
    return "(" + " ".join(service_sexp(s, *keys) for s in dl.services) + ")"


def compare_request(dl_new, dl_old):
    keys = (Keys(), Keys(), Keys())
    return f"(compare {layer_sexp(dl_new, keys)} {layer_sexp(dl_old, keys)})"


def comparedb_request(db_new, db_old, sel):
    keys = (Keys(), Keys(), Keys())
    n = " ".join(f"(l {hx(dl.short_name)} {layer_sexp(dl, keys)})" for dl in db_new.diag_layers)
    o = " ".join(f"(l {hx(dl.short_name)} {layer_sexp(dl, keys)})" for dl in db_old.diag_layers)
    return f"(comparedb (sel {' '.join(hx(x) for x in sorted(sel))}) (new {n}) (old {o}))"


def metrics_request(layers):
    out = []
    for dl in layers:
        cps = getattr(dl, "comparam_refs", None)
        c = "none" if cps is None else "(some " + " ".join(hx(x.short_name) for x in cps) + ")"
        out.append(f"(l {hx(dl.short_name)} {hx(dl.variant_type.value)} ({' '.join(hx(s.short_name) for s in dl.services)}) "
                   f"({' '.join(hx(d.short_name) for d in dl.diag_data_dictionary_spec.data_object_props)}) {c})")
    return "(metrics " + " ".join(out) + ")"


def model_metrics(reply):
    sx = parse_sexp(reply)
    if sx[0] != "ok":
        return reply
    return [[unhx(r[0]), unhx(r[1]), r[2], r[3], r[4]] for r in sx[1:]]


def model_db_result(reply):
    sx = parse_sexp(reply)
    if sx[0] != "ok":
        return reply
    f = {x[0]: x[1:] for x in sx[1:]}
    return {"new_layers": sorted(unhx(a) for a in f["newlayers"]), "deleted_layers": sorted(unhx(a) for a in f["deletedlayers"]),
            "layers": {unhx(l[0]): _result_fields(l[1:]) for l in f["layers"]}}


def parse_sexp(s):
    toks = re.findall(r"[()]|[^\s()]+", s)
    stack = [[]]
    for t in toks:
        if t == "(":
            stack.append([])
        elif t == ")":
            x = stack.pop()
            stack[-1].append(x)
        else:
            stack[-1].append(t)
    return stack[0][0]


def unhx(a):
    return "" if a == "-" else bytes.fromhex(a).decode()


def model_result(reply):
    """driver reply -> the same canonical form as canon_layer_result"""
    sx = parse_sexp(reply)
    if sx[0] != "ok":
        return reply
    return _result_fields(sx[1:])


def _result_fields(fields):
    f = {x[0]: x[1:] for x in fields}
    return {
        "new": sorted(unhx(a) for a in f["new"]),
        "deleted": sorted(unhx(a) for a in f["deleted"]),
        "renamed": sorted([unhx(a), unhx(b)] for a, b in f["renamed"]),
        "changed": sorted([unhx(c[0]), unhx(c[1]), [[e[0], unhx(e[1]), [[unhx(r[0]), unhx(r[1]), unhx(r[2])] for r in e[2:]]] for e in c[2:]]]
                          for c in f["changed"]),
    }
