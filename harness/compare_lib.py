"""C18 support: ODX documents from small JSON specs, loading through the real XML parser, single edits,
canonical views of what the compare tool / the metrics table report, and the s-expression encoding of a
layer for the Lean model driver (drv_compare).

A *spec* (JSON-able) is
  {"dops": [{"name","bt","bl","phys","unit"}], "units": [{"name","display"}],
   "comparams": ["CP_a", ...],                       # comparam subset shared by all layers
   "layers": [{"name","kind","parent": name|None,
               "own_dops": [dop names defined in this layer], "structs": number of (unused) STRUCTUREs defined in this layer,
               "cprefs": [[comparam name, protocol snref|None], ...],
               "services": [{"id","name","req":[param...],"pos":[[param...]...],"neg":[[param...]...]}]}]}
  param = {"name","kind": const|value|physconst|nrc|reserved|matching,
           "bp": int|None, "bl": int, "val": int|str, "bt": base type of a const, "sem": str|None,
           "dop": dop name, "default": int|None, "vals": [ints] (nrc)}
"""
import copy
import io
import re
from xml.etree import ElementTree as ET

XSI = 'xmlns:xsi="http://www.w3.org/2001/XMLSchema-instance"'


# --------------------------------------------------------------------------- XML
def _dct(bt, bl):
    return f'<DIAG-CODED-TYPE BASE-DATA-TYPE="{bt}" xsi:type="STANDARD-LENGTH-TYPE"><BIT-LENGTH>{bl}</BIT-LENGTH></DIAG-CODED-TYPE>'


_LINEAR = ("<COMPU-METHOD><CATEGORY>LINEAR</CATEGORY><COMPU-INTERNAL-TO-PHYS><COMPU-SCALES><COMPU-SCALE><COMPU-RATIONAL-COEFFS>"
           "<COMPU-NUMERATOR><V>0</V><V>1</V></COMPU-NUMERATOR><COMPU-DENOMINATOR><V>1</V></COMPU-DENOMINATOR></COMPU-RATIONAL-COEFFS>"
           "</COMPU-SCALE></COMPU-SCALES></COMPU-INTERNAL-TO-PHYS></COMPU-METHOD>")


def _dop_xml(d, lname):
    unit = f'<UNIT-REF ID-REF="{lname}.U.{d["unit"]}"/>' if d.get("unit") else ""
    cm = "<COMPU-METHOD><CATEGORY>IDENTICAL</CATEGORY></COMPU-METHOD>" if d["bt"] == d["phys"] else _LINEAR
    return (f'<DATA-OBJECT-PROP ID="{lname}.D.{d["name"]}"><SHORT-NAME>{d["name"]}</SHORT-NAME>'
            f'{cm}{_dct(d["bt"], d["bl"])}'
            f'<PHYSICAL-TYPE BASE-DATA-TYPE="{d["phys"]}"/>{unit}</DATA-OBJECT-PROP>')


def _param_xml(p, dop_owner):
    k = p["kind"]
    sem = f' SEMANTIC="{p["sem"]}"' if p.get("sem") is not None else ""
    pos = f'<BYTE-POSITION>{p["bp"]}</BYTE-POSITION>' if p.get("bp") is not None else ""
    head = f'<SHORT-NAME>{p["name"]}</SHORT-NAME>{pos}'
    if k == "const":
        return f'<PARAM xsi:type="CODED-CONST"{sem}>{head}<CODED-VALUE>{p["val"]}</CODED-VALUE>{_dct(p.get("bt", "A_UINT32"), p["bl"])}</PARAM>'
    if k == "nrc":
        vs = "".join(f"<CODED-VALUE>{v}</CODED-VALUE>" for v in p["vals"])
        return f'<PARAM xsi:type="NRC-CONST"{sem}>{head}<CODED-VALUES>{vs}</CODED-VALUES>{_dct(p.get("bt", "A_UINT32"), p["bl"])}</PARAM>'
    if k == "value":
        d = f'<PHYSICAL-DEFAULT-VALUE>{p["default"]}</PHYSICAL-DEFAULT-VALUE>' if p.get("default") is not None else ""
        return f'<PARAM xsi:type="VALUE"{sem}>{head}{d}<DOP-REF ID-REF="{dop_owner[p["dop"]]}.D.{p["dop"]}"/></PARAM>'
    if k == "physconst":
        return f'<PARAM xsi:type="PHYS-CONST"{sem}>{head}<PHYS-CONSTANT-VALUE>{p["val"]}</PHYS-CONSTANT-VALUE><DOP-REF ID-REF="{dop_owner[p["dop"]]}.D.{p["dop"]}"/></PARAM>'
    if k == "reserved":
        return f'<PARAM xsi:type="RESERVED"{sem}>{head}<BIT-LENGTH>{p["bl"]}</BIT-LENGTH></PARAM>'
    if k == "matching":
        return f'<PARAM xsi:type="MATCHING-REQUEST-PARAM"{sem}>{head}<REQUEST-BYTE-POS>{p.get("val", 0)}</REQUEST-BYTE-POS><BYTE-LENGTH>{max(1, p["bl"] // 8)}</BYTE-LENGTH></PARAM>'
    raise ValueError(k)


def spec_xml(spec, docname="DLC"):
    """-> list of XML documents (comparam subset first when needed)"""
    docs = []
    cps = spec.get("comparams", [])
    if cps:
        body = "".join(
            f'<COMPARAM ID="CPS.{c}" PARAM-CLASS="COM" CPTYPE="STANDARD" CPUSAGE="ECU-COMM"><SHORT-NAME>{c}</SHORT-NAME>'
            f'<PHYSICAL-DEFAULT-VALUE>1</PHYSICAL-DEFAULT-VALUE><DATA-OBJECT-PROP-REF ID-REF="CPS.D.u8"/></COMPARAM>' for c in cps)
        docs.append(f'<?xml version="1.0"?><ODX MODEL-VERSION="2.2.0" {XSI}><COMPARAM-SUBSET ID="CPS" CATEGORY="CAT"><SHORT-NAME>CPS</SHORT-NAME>'
                    f'<COMPARAMS>{body}</COMPARAMS><DATA-OBJECT-PROPS><DATA-OBJECT-PROP ID="CPS.D.u8"><SHORT-NAME>u8</SHORT-NAME>'
                    f'<COMPU-METHOD><CATEGORY>IDENTICAL</CATEGORY></COMPU-METHOD>{_dct("A_UINT32", 8)}<PHYSICAL-TYPE BASE-DATA-TYPE="A_UINT32"/>'
                    f'</DATA-OBJECT-PROP></DATA-OBJECT-PROPS></COMPARAM-SUBSET></ODX>')
    dops = {d["name"]: d for d in spec.get("dops", [])}
    units = spec.get("units", [])
    by_kind = {}
    # which layer defines which DOP (for ID construction); a DOP must be defined in the layer or an ancestor
    dop_owner = {}
    for L in spec["layers"]:
        for dn in L.get("own_dops", []):
            dop_owner.setdefault(dn, L["name"])
    for L in spec["layers"]:
        ln = L["name"]
        own = [dops[dn] for dn in L.get("own_dops", []) if dop_owner[dn] == ln]
        used_units = sorted({d["unit"] for d in own if d.get("unit")})
        uxml = ""
        if used_units:
            ud = {u["name"]: u for u in units}
            uxml = "<UNIT-SPEC><UNITS>" + "".join(
                f'<UNIT ID="{ln}.U.{u}"><SHORT-NAME>{u}</SHORT-NAME><DISPLAY-NAME>{ud[u]["display"]}</DISPLAY-NAME></UNIT>' for u in used_units) + "</UNITS></UNIT-SPEC>"
        sxml = ""
        if L.get("structs"):
            sxml = "<STRUCTURES>" + "".join(
                f'<STRUCTURE ID="{ln}.ST.{k}"><SHORT-NAME>st{k}</SHORT-NAME><PARAMS>{_param_xml({"name": "c", "kind": "const", "val": k, "bl": 8}, dop_owner)}</PARAMS></STRUCTURE>'
                for k in range(L["structs"])) + "</STRUCTURES>"
        ddds = (f'<DIAG-DATA-DICTIONARY-SPEC><DATA-OBJECT-PROPS>{"".join(_dop_xml(d, ln) for d in own)}</DATA-OBJECT-PROPS>{sxml}{uxml}'
                f'</DIAG-DATA-DICTIONARY-SPEC>')
        svcs, reqs, poss, negs = [], [], [], []
        for s in L["services"]:
            sid = s.get("id", s["name"])
            rid = f"{ln}.RQ.{sid}"
            reqs.append(f'<REQUEST ID="{rid}"><SHORT-NAME>RQ_{sid}</SHORT-NAME><PARAMS>{"".join(_param_xml(p, dop_owner) for p in s["req"])}</PARAMS></REQUEST>')
            pr, nr = "", ""
            for k, ps in enumerate(s.get("pos", [])):
                poss.append(f'<POS-RESPONSE ID="{ln}.PR.{sid}.{k}"><SHORT-NAME>PR_{sid}_{k}</SHORT-NAME><PARAMS>{"".join(_param_xml(p, dop_owner) for p in ps)}</PARAMS></POS-RESPONSE>')
                pr += f'<POS-RESPONSE-REF ID-REF="{ln}.PR.{sid}.{k}"/>'
            for k, ps in enumerate(s.get("neg", [])):
                negs.append(f'<NEG-RESPONSE ID="{ln}.NR.{sid}.{k}"><SHORT-NAME>NR_{sid}_{k}</SHORT-NAME><PARAMS>{"".join(_param_xml(p, dop_owner) for p in ps)}</PARAMS></NEG-RESPONSE>')
                nr += f'<NEG-RESPONSE-REF ID-REF="{ln}.NR.{sid}.{k}"/>'
            svcs.append(f'<DIAG-SERVICE ID="{ln}.S.{sid}"><SHORT-NAME>{s["name"]}</SHORT-NAME><REQUEST-REF ID-REF="{rid}"/>'
                        + (f"<POS-RESPONSE-REFS>{pr}</POS-RESPONSE-REFS>" if pr else "")
                        + (f"<NEG-RESPONSE-REFS>{nr}</NEG-RESPONSE-REFS>" if nr else "") + "</DIAG-SERVICE>")
        cpr = ""
        if L.get("cprefs"):
            cpr = "<COMPARAM-REFS>" + "".join(
                f'<COMPARAM-REF ID-REF="CPS.{c}" DOCREF="CPS" DOCTYPE="COMPARAM-SUBSET"><SIMPLE-VALUE>{7 + i}</SIMPLE-VALUE>'
                + (f'<PROTOCOL-SNREF SHORT-NAME="{proto}"/>' if proto else "") + "</COMPARAM-REF>"
                for i, (c, proto) in enumerate(L["cprefs"])) + "</COMPARAM-REFS>"
        par = ""
        if L.get("parent"):
            pk = next(x["kind"] for x in spec["layers"] if x["name"] == L["parent"])
            par = f'<PARENT-REFS><PARENT-REF ID-REF="{L["parent"]}" xsi:type="{pk}-REF"/></PARENT-REFS>'
        kind = L["kind"]
        xml = (f'<{kind} ID="{ln}"><SHORT-NAME>{ln}</SHORT-NAME>{ddds}<DIAG-COMMS>{"".join(svcs)}</DIAG-COMMS>'
               f'<REQUESTS>{"".join(reqs)}</REQUESTS><POS-RESPONSES>{"".join(poss)}</POS-RESPONSES>'
               f'<NEG-RESPONSES>{"".join(negs)}</NEG-RESPONSES>{cpr}{par}</{kind}>')
        by_kind.setdefault(kind, []).append(xml)
    body = ""
    for kind, tag in [("PROTOCOL", "PROTOCOLS"), ("FUNCTIONAL-GROUP", "FUNCTIONAL-GROUPS"), ("ECU-SHARED-DATA", "ECU-SHARED-DATAS"),
                      ("BASE-VARIANT", "BASE-VARIANTS"), ("ECU-VARIANT", "ECU-VARIANTS")]:
        if by_kind.get(kind):
            body += f"<{tag}>{''.join(by_kind[kind])}</{tag}>"
    docs.append(f'<?xml version="1.0"?><ODX MODEL-VERSION="2.2.0" {XSI}><DIAG-LAYER-CONTAINER ID="{docname}"><SHORT-NAME>{docname}</SHORT-NAME>{body}'
                f'</DIAG-LAYER-CONTAINER></ODX>')
    return docs


def load(spec):
    import warnings
    from odxtools.database import Database
    db = Database()
    with warnings.catch_warnings():
        warnings.simplefilter("ignore")
        for x in spec_xml(spec):
            db._process_xml_tree(ET.fromstring(x))
        db.refresh()
    return db


# --------------------------------------------------------------------------- constant request prefix, from the spec alone
def visible_services(spec, lname):
    """service specs visible in layer `lname` after inheritance (a child overrides its parent by short name): {name: svc}"""
    by = {l["name"]: l for l in spec["layers"]}
    chain = []
    x = by[lname]
    while x is not None:
        chain.append(x)
        x = by.get(x.get("parent")) if x.get("parent") else None
    seen = {}
    for x in reversed(chain):
        for s in x["services"]:
            seen[s["name"]] = s
    return seen


def spec_prefix(spec, svc):
    """the bytes at the start of every request of `svc` that are fixed by its leading constant parameters (CODED-CONST with
    its own coded type, PHYS-CONST through its DOP; identity/offset-0 factor-1 computation, big endian), computed from
    the spec without the code under test. None = not decided here (odd bit length, value out of range, overlapping
    constants, non-integer value): the caller falls back to what the implementation says."""
    dops = {d["name"]: d for d in spec.get("dops", [])}
    buf, used, cursor = bytearray(), bytearray(), 0
    for p in svc["req"]:
        if p["kind"] == "const":
            bl, bt = p["bl"], p.get("bt", "A_UINT32")
        elif p["kind"] == "physconst":
            d = dops.get(p.get("dop"))
            if d is None:
                return None
            bl, bt = d["bl"], d["bt"]
        else:
            break
        v = p.get("val")
        if isinstance(v, bool) or not isinstance(v, int) or bl % 8 or bt not in ("A_UINT32", "A_INT32"):
            return None
        if p.get("bp") is not None:
            cursor = p["bp"]
        n = bl // 8
        try:
            raw = v.to_bytes(n, "big", signed=(bt == "A_INT32"))
        except OverflowError:
            return None
        if len(buf) < cursor + n:
            pad = cursor + n - len(buf)
            buf += bytes(pad)
            used += bytes(pad)
        if any(used[cursor:cursor + n]):
            return None
        buf[cursor:cursor + n] = raw
        used[cursor:cursor + n] = b"\xff" * n
        cursor += n
    k = 0
    while k < len(used) and used[k]:
        k += 1
    return bytes(buf[:k])


def spec_prefixes(spec, lname, exclude=None):
    """spec_prefix of every service visible in the layer (optionally but one); None as soon as one is undecided"""
    out = []
    for name, svc in visible_services(spec, lname).items():
        if name == exclude:
            continue
        p = spec_prefix(spec, svc)
        if p is None:
            return None
        out.append(p)
    return out


# --------------------------------------------------------------------------- edits
def locs(svc):
    """all parameter locations of a service spec: ('req', None, i) / ('pos', j, i) / ('neg', j, i)"""
    out = [("req", None, i) for i in range(len(svc["req"]))]
    for sec in ("pos", "neg"):
        for j, ps in enumerate(svc.get(sec, [])):
            out += [(sec, j, i) for i in range(len(ps))]
    return out


def get_param(svc, loc):
    sec, j, i = loc
    return svc["req"][i] if sec == "req" else svc[sec][j][i]


ATTR_EDITS = ("bytepos", "bitlen", "value", "semantic", "datatype", "dop")


def apply_attr_edit(spec, p, attr, rng):
    """change one attribute of parameter spec `p` in place; returns False when not applicable"""
    k = p["kind"]
    if attr == "bytepos":
        old = p.get("bp")
        p["bp"] = rng.choice([x for x in (None, 0, 1, 2, 3, 5) if x != old])
        return True
    if attr == "semantic":
        old = p.get("sem")
        p["sem"] = rng.choice([x for x in (None, "DATA", "SERVICE-ID", "ID") if x != old])
        return True
    if attr == "bitlen":
        if k not in ("const", "nrc", "reserved"):
            return False
        p["bl"] = rng.choice([x for x in (8, 16, 24, 32) if x != p["bl"]])
        return True
    if attr == "value":
        if k != "const":
            return False
        p["val"] = rng.choice([x for x in (0, 1, 0x10, 0x22, 0x7F, 0xFE) if x != p["val"]])
        return True
    if attr == "datatype":
        if k not in ("const", "nrc"):
            return False
        p["bt"] = "A_INT32" if p.get("bt", "A_UINT32") == "A_UINT32" else "A_UINT32"
        return True
    if attr == "dop":
        if k not in ("value", "physconst"):
            return False
        cands = [d["name"] for d in spec["dops"] if d["name"] != p["dop"]]
        if not cands:
            return False
        p["dop"] = rng.choice(cands)
        return True
    raise ValueError(attr)


# --------------------------------------------------------------------------- canonical view of the tool's result
_INFO_RE = [
    (re.compile(r"^\s*Properties of request parameter '([^']*)' that have changed:\n$"), "req"),
    (re.compile(r"^\s*Properties of positive response parameter '([^']*)' that have changed:\n$"), "pos"),
    (re.compile(r"^\s*Properties of response parameter '([^']*)' that have changed:\n$"), "neg"),
    (re.compile(r"^List of request parameters for service '([^']*)' is not identical\.\n$"), "reqlist"),
    (re.compile(r"^List of positive response parameters for service '([^']*)' is not identical\.\n?$"), "resplist-params"),
    (re.compile(r"^List of positive responses for service '([^']*)' is not identical\.\n?$"), "resplist"),
]


def canon_info(info):
    """[infotext, table, infotext, table, ...] -> [[kind, name, [[prop, old, new]...]], ...]"""
    out = []
    k = 0
    while k < len(info):
        text = info[k]
        table = info[k + 1] if k + 1 < len(info) else None
        kind, name = "unparsed", ""
        if isinstance(text, str):
            for rx, kd in _INFO_RE:
                m = rx.match(text)
                if m:
                    kind, name = kd, m.group(1)
                    break
        rows = []
        if isinstance(table, dict) and "Property" in table:
            rows = [[str(a), str(b), str(c)] for a, b, c in zip(table["Property"], table["Old Value"], table["New Value"])]
        elif isinstance(table, dict) and "List" in table:
            rows = []
        else:
            kind = "unparsed"
        out.append([kind, name, rows])
        k += 2
    return out


def canon_layer_result(d):
    """service_dict of compare_diagnostic_layers -> JSON-able canonical form (sets sorted by short name)"""
    ren = d["changed_name_of_service"]
    ch = d["changed_parameters_of_service"]
    return {
        "new": sorted(s.short_name for s in d["new_services"]),
        "deleted": sorted(s.short_name for s in d["deleted_services"]),
        "renamed": sorted([s.short_name, old] for s, old in zip(ren[0], ren[1])),
        "changed": sorted([s.short_name, txt, canon_info(info)] for s, txt, info in zip(ch[0], ch[1], ch[2])),
    }


def run_compare_layers(dl_new, dl_old):
    """-> canonical result or 'foreign:<Type>'"""
    from odxtools.cli.compare import Comparison
    try:
        return canon_layer_result(Comparison().compare_diagnostic_layers(dl_new, dl_old))
    except Exception as e:  # noqa
        return f"foreign:{type(e).__name__}"


def run_compare_databases(db_new, db_old, names=None):
    from odxtools.cli.compare import Comparison
    try:
        t = Comparison()
        t.diagnostic_layer_names = set(names) if names is not None else {dl.short_name for db in (db_new, db_old) for dl in db.diag_layers}
        r = t.compare_databases(db_new, db_old)
        out = {"new_layers": sorted(dl.short_name for dl in r["new_diagnostic_layers"]),
               "deleted_layers": sorted(dl.short_name for dl in r["deleted_diagnostic_layers"]), "layers": {}}
        for k, v in r.items():
            if isinstance(v, dict):
                out["layers"][k] = canon_layer_result(v)
        return out
    except Exception as e:  # noqa
        return f"foreign:{type(e).__name__}"


# --------------------------------------------------------------------------- metrics table as rendered
def metrics_rows(layers, via_list_tool_db=None):
    """what print_dl_metrics renders: -> [[name, type, services, dops, comparams] as strings] or 'foreign:...'"""
    from rich.console import Console
    import odxtools.cli._print_utils as pu
    import odxtools.cli.list as lst
    import rich
    captured = []

    def fake_print(*objs, **kw):
        captured.extend(objs)

    saved = (pu.rich_print, rich.print)
    pu.rich_print = fake_print
    rich.print = fake_print
    try:
        if via_list_tool_db is not None:
            lst.print_summary(via_list_tool_db)
        else:
            pu.print_dl_metrics(list(layers))
    except Exception as e:  # noqa
        return f"foreign:{type(e).__name__}"
    finally:
        pu.rich_print, rich.print = saved
    from rich.table import Table
    tables = [o for o in captured if isinstance(o, Table)]
    if len(tables) != 1:
        return f"foreign:tables={len(tables)}"
    buf = io.StringIO()
    Console(file=buf, width=300, color_system=None, force_terminal=False).print(tables[0])
    rows = []
    for line in buf.getvalue().splitlines():
        if "│" in line or "┃" in line:
            cells = [c.strip() for c in re.split("[│┃]", line)[1:-1]]
            rows.append(cells)
    return rows[1:] if rows else rows   # drop header


# --------------------------------------------------------------------------- model input (s-expressions)
def hx(s):
    b = s.encode() if isinstance(s, str) else bytes(s)
    return b.hex() if b else "-"


class Keys:
    """equivalence classes of objects under `==` (what the tool uses), as small integers"""

    def __init__(self):
        self.reps = []

    def key(self, obj):
        for i, r in enumerate(self.reps):
            if r is obj or r == obj:
                return i
        self.reps.append(obj)
        return len(self.reps) - 1


def pyval(v):
    if isinstance(v, bool) or not isinstance(v, int):
        return f"(o {hx(repr(v))})"
    return f"(i {v})"


def opt(v, f=str):
    return "none" if v is None else f"(some {f(v)})"


def param_sexp(p, dopkeys, unitkeys):
    from odxtools.parameters.codedconstparameter import CodedConstParameter
    from odxtools.parameters.nrcconstparameter import NrcConstParameter
    from odxtools.parameters.physicalconstantparameter import PhysicalConstantParameter
    from odxtools.parameters.valueparameter import ValueParameter
    if isinstance(p, CodedConstParameter):
        kind = f"(const {hx(p.diag_coded_type.base_data_type.name)} {pyval(p.coded_value)})"
    elif isinstance(p, NrcConstParameter):
        kind = f"(nrc {hx(p.diag_coded_type.base_data_type.name)} {hx(str(p.coded_values))})"
    elif (dop := getattr(p, "dop", None)) is not None:
        unit = getattr(dop, "unit", None)
        u = "none"
        if unit:
            u = f"(some ({unitkeys.key(unit)} {hx(unit.short_name)} {hx(str(unit.display_name))}))"
        pt = getattr(dop, "physical_type", None)
        ptn = opt(pt.base_data_type.name if pt else None, hx)
        if isinstance(p, PhysicalConstantParameter):
            sub = f"(pc {pyval(p.physical_constant_value)})"
        elif isinstance(p, ValueParameter):
            sub = f"(val {opt(p.physical_default_value, pyval)})"
        else:
            sub = "(other)"
        kind = f"(dop {dopkeys.key(dop)} {hx(dop.short_name)} {u} {ptn} {sub})"
    else:
        kind = "(plain)"
    return (f"(p {hx(p.short_name)} {opt(p.byte_position)} {opt(p.get_static_bit_length())} {opt(p.semantic, hx)} "
            f"{hx(p.parameter_type)} {kind})")


def service_sexp(s, dopkeys, unitkeys, svckeys):
    rq = s.request
    prefix = "none" if rq is None else f"(some {hx(rq.coded_const_prefix())})"
    req = "none" if rq is None else "(some " + " ".join(param_sexp(p, dopkeys, unitkeys) for p in rq.parameters) + ")"
    pos = " ".join("(" + " ".join(param_sexp(p, dopkeys, unitkeys) for p in r.parameters) + ")" for r in s.positive_responses)
    neg = " ".join("(" + " ".join(param_sexp(p, dopkeys, unitkeys) for p in r.parameters) + ")" for r in s.negative_responses)
    return f"(s {hx(s.short_name)} {svckeys.key(s)} {prefix} {req} (pos {pos}) (neg {neg}))"


def layer_sexp(dl, keys):
    return "(" + " ".join(service_sexp(s, *keys) for s in dl.services) + ")"


def compare_request(dl_new, dl_old):
    keys = (Keys(), Keys(), Keys())
    return f"(compare {layer_sexp(dl_new, keys)} {layer_sexp(dl_old, keys)})"


def comparedb_request(db_new, db_old, sel):
    keys = (Keys(), Keys(), Keys())
    n = " ".join(f"(l {hx(dl.short_name)} {layer_sexp(dl, keys)})" for dl in db_new.diag_layers)
    o = " ".join(f"(l {hx(dl.short_name)} {layer_sexp(dl, keys)})" for dl in db_old.diag_layers)
    return f"(comparedb (sel {' '.join(hx(x) for x in sorted(sel))}) (new {n}) (old {o}))"


def metrics_request(layers):
    out = []
    for dl in layers:
        cps = getattr(dl, "comparam_refs", None)
        c = "none" if cps is None else "(some " + " ".join(hx(x.short_name) for x in cps) + ")"
        out.append(f"(l {hx(dl.short_name)} {hx(dl.variant_type.value)} ({' '.join(hx(s.short_name) for s in dl.services)}) "
                   f"({' '.join(hx(d.short_name) for d in dl.diag_data_dictionary_spec.data_object_props)}) {c})")
    return "(metrics " + " ".join(out) + ")"


def model_metrics(reply):
    sx = parse_sexp(reply)
    if sx[0] != "ok":
        return reply
    return [[unhx(r[0]), unhx(r[1]), r[2], r[3], r[4]] for r in sx[1:]]


def model_db_result(reply):
    sx = parse_sexp(reply)
    if sx[0] != "ok":
        return reply
    f = {x[0]: x[1:] for x in sx[1:]}
    return {"new_layers": sorted(unhx(a) for a in f["newlayers"]), "deleted_layers": sorted(unhx(a) for a in f["deletedlayers"]),
            "layers": {unhx(l[0]): _result_fields(l[1:]) for l in f["layers"]}}


def parse_sexp(s):
    toks = re.findall(r"[()]|[^\s()]+", s)
    stack = [[]]
    for t in toks:
        if t == "(":
            stack.append([])
        elif t == ")":
            x = stack.pop()
            stack[-1].append(x)
        else:
            stack[-1].append(t)
    return stack[0][0]


def unhx(a):
    return "" if a == "-" else bytes.fromhex(a).decode()


def model_result(reply):
    """driver reply -> the same canonical form as canon_layer_result"""
    sx = parse_sexp(reply)
    if sx[0] != "ok":
        return reply
    return _result_fields(sx[1:])


def _result_fields(fields):
    f = {x[0]: x[1:] for x in fields}
    return {
        "new": sorted(unhx(a) for a in f["new"]),
        "deleted": sorted(unhx(a) for a in f["deleted"]),
        "renamed": sorted([unhx(a), unhx(b)] for a, b in f["renamed"]),
        "changed": sorted([unhx(c[0]), unhx(c[1]), [[e[0], unhx(e[1]), [[unhx(r[0]), unhx(r[1]), unhx(r[2])] for r in e[2:]]] for e in c[2:]]]
                          for c in f["changed"]),
    }
