"""appends a 'fixed' line to known_findings.jsonl: record_fixed.py <property> <slug> <commit> '<what failed>'"""
import json, sys
from pathlib import Path
prop, slug, commit, what = sys.argv[1:5]
f = Path(__file__).resolve().parent.parent / "known_findings.jsonl"
line = {"property": prop, "id": slug, "status": "fixed", "commit": commit, "what": f"fixed: property={prop} {commit} {what}", "patch": f"fixes/{slug}.patch"}
f.write_text(f.read_text() + json.dumps(line) + "\n")
