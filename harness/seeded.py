"""confirm a seeded mutation and run the property's check against it.
usage: seeded.py <src dir with patch.diff demo.py meta.json> <seeded id>  [--tier quick|thorough] [--also C01,C02]
 1. scratch worktree of /repo HEAD: demo passes on the clean tree, fails with the patch; the 140 tests pass with the patch
 2. git -C /repo apply <patch>; ./check <prop> ; git -C /repo checkout -- .
 3. writes /verif/seeded/<id>/{patch.diff,demo.py,meta.json}"""
import json
import os
import shutil
import subprocess
import sys
import time
from pathlib import Path

VERIF = Path(__file__).resolve().parent.parent
REPO = Path("/repo")
# checks run against a mutated tree write their evidence here, never into the committed evidence/ directory
MUTANT_EVIDENCE = os.environ.get("VERIF_EVIDENCE_DIR") or "/tmp/verif_mutant_evidence"


def sh(cmd, cwd=None, env=None, timeout=3600):
    p = subprocess.run(cmd, cwd=cwd, shell=True, capture_output=True, text=True, env=env, timeout=timeout)
    return p.returncode, p.stdout + p.stderr


def main():
    src, sid = Path(sys.argv[1]), sys.argv[2]
    tier = sys.argv[sys.argv.index("--tier") + 1] if "--tier" in sys.argv else "quick"
    also = sys.argv[sys.argv.index("--also") + 1].split(",") if "--also" in sys.argv else []
    meta = json.loads((src / "meta.json").read_text())
    prop = meta["property"]
    wt = Path(f"/tmp/seedchk_{sid}")
    sh(f"git -C {REPO} worktree remove --force {wt}")
    rc, out = sh(f"git -C {REPO} worktree add -q --detach {wt} HEAD")
    assert rc == 0, out
    ran = {}
    try:
        env = dict(os.environ, PYTHONPATH=str(wt))
        rc0, o0 = sh(f"/venv/bin/python {src/'demo.py'}", cwd=wt, env=env, timeout=600)
        ran["demo_clean_rc"] = rc0
        rc, o = sh(f"git -C {wt} apply {src/'patch.diff'}")
        ran["patch_applies"] = rc == 0
        if rc != 0:
            ran["apply_error"] = o[-300:]
        rc1, o1 = sh(f"/venv/bin/python {src/'demo.py'}", cwd=wt, env=env, timeout=600)
        ran["demo_mutated_rc"] = rc1
        ran["demo_mutated_tail"] = o1.strip().splitlines()[-1][:300] if o1.strip() else ""
        rc, o = sh("/venv/bin/python -m pytest -q -p no:cacheprovider 2>&1 | tail -1", cwd=wt, env=env, timeout=1200)
        ran["tests_mutated"] = o.strip()[:120]
    finally:
        if "--via-worktree" not in sys.argv:
            sh(f"git -C {REPO} worktree remove --force {wt}")
    confirmed = ran.get("demo_clean_rc") == 0 and ran.get("patch_applies") and ran.get("demo_mutated_rc") not in (0, None) \
        and ran.get("tests_mutated", "").startswith("140 passed")
    ran["confirmed"] = bool(confirmed)
    checks = {}
    if confirmed and "--via-worktree" in sys.argv:
        # the patched scratch worktree is still there: run the checks against it (used while other jobs need /repo untouched)
        try:
            for p in [prop] + also:
                t0 = time.time()
                rc, o = sh(f"./check {p} --tier {tier}", cwd=VERIF, env=dict(os.environ, ODX_REPO=str(wt), VERIF_EVIDENCE_DIR=MUTANT_EVIDENCE), timeout=7200)
                lines = [l for l in o.splitlines() if l.startswith("VIOLATION") or l.startswith("KNOWN-FINDING") or l.startswith("[")]
                lines.sort(key=lambda l: not l.startswith("VIOLATION"))     # the record keeps 8 lines: violations first
                checks[p] = {"exit": rc, "wall_s": round(time.time() - t0, 1), "lines": [l[:300] for l in lines[:8]], "via": "ODX_REPO=scratch worktree"}
        finally:
            sh(f"git -C {REPO} worktree remove --force {wt}")
            # the run regenerated lean/OdxVerif/Gen/*.lean from the *mutated* tree: put the committed tables back
            sh(f"git -C {VERIF} checkout -q -- lean/OdxVerif/Gen")
    elif confirmed:
        rc, o = sh(f"git -C {REPO} status --short")
        assert o.strip() == "", "/repo is not clean: " + o
        rc, o = sh(f"git -C {REPO} apply {src/'patch.diff'}")
        assert rc == 0, o
        try:
            for p in [prop] + also:
                t0 = time.time()
                rc, o = sh(f"./check {p} --tier {tier}", cwd=VERIF, env=dict(os.environ, VERIF_EVIDENCE_DIR=MUTANT_EVIDENCE), timeout=7200)
                lines = [l for l in o.splitlines() if l.startswith("VIOLATION") or l.startswith("KNOWN-FINDING") or l.startswith("[")]
                lines.sort(key=lambda l: not l.startswith("VIOLATION"))     # the record keeps 8 lines: violations first
                checks[p] = {"exit": rc, "wall_s": round(time.time() - t0, 1), "lines": [l[:300] for l in lines[:8]]}
                # keep one replay file as illustration
                for l in lines:
                    if l.startswith("VIOLATION") and "replay=" in l:
                        rp = VERIF / l.split("replay=")[1].split()[0]
                        if rp.exists():
                            (VERIF / "seeded" / sid).mkdir(parents=True, exist_ok=True)
                            shutil.copy(rp, VERIF / "seeded" / sid / f"replay_{p}.json")
                        break
        finally:
            sh(f"git -C {REPO} checkout -- .")
            rc, o = sh(f"git -C {REPO} status --short")
            assert o.strip() == "", "/repo not restored: " + o
    dst = VERIF / "seeded" / sid
    dst.mkdir(parents=True, exist_ok=True)
    shutil.copy(src / "patch.diff", dst / "patch.diff")
    shutil.copy(src / "demo.py", dst / "demo.py")
    meta.update({"seeded_id": sid, "confirmation": ran, "checks": checks, "tier": tier,
                 "repo_head": sh(f"git -C {REPO} log --format=%h -1")[1].strip(),
                 "detected": any(c["exit"] == 1 and any(l.startswith("VIOLATION") for l in c["lines"]) for c in checks.values())})
    (dst / "meta.json").write_text(json.dumps(meta, indent=1) + "\n")
    print(json.dumps({"id": sid, "confirmed": ran["confirmed"], "detected": meta["detected"],
                      "checks": {k: (v["exit"], v["lines"][:2]) for k, v in checks.items()}}, indent=1)[:1500])


if __name__ == "__main__":
    main()
