"""prints every Lean target used by a property module"""
import importlib, sys
from pathlib import Path
HERE = Path(__file__).resolve().parent
sys.path.insert(0, str(HERE))
seen = []
for f in sorted((HERE / "props").glob("c*.py")):
    m = importlib.import_module(f"props.{f.stem}")
    for t in list(getattr(m, "LEAN_TARGETS", [])) + list(getattr(m, "EXTRA_LEAN_TARGETS", [])) + list(getattr(m, "DRIVERS", [])):
        if t not in seen:
            seen.append(t)
print(" ".join(seen))
