"""writes MANIFEST.json from the property modules present in harness/props (keeps it valid at all times)"""
import importlib
import json
import sys
from pathlib import Path

HERE = Path(__file__).resolve().parent
sys.path.insert(0, str(HERE))
VERIF = HERE.parent
props = [json.loads(l) for l in (VERIF / "properties.jsonl").read_text().splitlines() if l.strip()]
na_reasons = json.loads((HERE / "not_applicable.json").read_text()) if (HERE / "not_applicable.json").exists() else {}
checks, na = [], []
for p in props:
    pid = p["id"]
    f = HERE / "props" / f"{pid.lower()}.py"
    if not f.exists():
        na.append({"property_id": pid, "reason": na_reasons.get(pid, "check not built yet (work in progress; the technique applies, see DESIGN.md §6)")})
        continue
    m = importlib.import_module(f"props.{pid.lower()}")
    checks.append({
        "property_id": pid,
        "quick_cmd": f"./check {pid} --tier quick",
        "thorough_cmd": f"./check {pid} --tier thorough",
        "evidence_file": f"evidence/{pid}.json",
        "replay_cmd_template": f"./check {pid} --replay {{path}}",
        "engine": "lean4-proof+correspondence",
        "level_claimed": {"category": "proof",
                          "text": getattr(m, "LEVEL_TEXT", "Lean 4 theorems about an executable model (all inputs, by induction), tied to the code by a differential correspondence check and a direct oracle on every run"),
                          "design_ref": f"DESIGN.md §6 {pid}"},
        "level_note": "; ".join(getattr(m, "TRUSTED", []) + getattr(m, "ASSUMPTIONS", [])),
        "technique": getattr(m, "TECHNIQUE", "Lean 4 machine-checked proof over hand-written model + model/implementation correspondence (differential) + failing-input search"),
    })
man = {
    "version": 1,
    "setup_cmd": "./setup.sh",
    "hooks": {"guard": "ODXTOOLS_VERIF", "enable": "no hooks are needed: the harness imports odxtools from /repo in-process (ODXTOOLS_VERIF=1 is set but read by nothing)",
              "baseline_off_cmd": "cd /repo && /venv/bin/python -m pytest -ra -q -p no:cacheprovider --timeout=900 --continue-on-collection-errors",
              "source_commits": [], "add_only": True},
    "engines": [{"name": "lean4-proof+correspondence", "path": "lean/ + harness/", "serves_properties": [c["property_id"] for c in checks],
                 "kind_free_text": "Lean 4.33 theorems over executable models (lean/OdxVerif), compiled model drivers (lean/Driver) compared with the real code by harness/props/*.py"}],
    "checks": checks,
    "not_applicable": na,
    "notes": "see DESIGN.md; known findings in known_findings.jsonl; seeded mutations in seeded/",
}
(VERIF / "MANIFEST.json").write_text(json.dumps(man, indent=1) + "\n")
print(f"{len(checks)} checks, {len(na)} not claimed")
