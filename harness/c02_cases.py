"""C02: deterministic case list (description, value, trigger) shared by the in-process run (accelerated
bitstruct backend) and the worker interpreter that forces the pure-Python backend:
    python c02_cases.py <seed> <tier>   → one JSON line per case: [index, reply]"""
import json
import random
import sys
from pathlib import Path

sys.path.insert(0, str(Path(__file__).resolve().parent))


FIXED_VALUES = {}


def gen_docs(seed, tier):
    """yields (family, [composites]) deterministically"""
    from odxgen import gen as G
    from props.c01 import batches, overlapping_variant
    big = tier == "thorough"
    FIXED_VALUES.clear()
    rng = random.Random(f"{seed}/C02/cases")
    for comps in batches(G.enum_struct_offsets(), 24):
        yield "enum-struct-offsets", comps
    bitlens = range(1, 65) if big else [1, 2, 7, 8, 9, 12, 15, 16, 17, 24, 31, 32, 33, 47, 63, 64]
    for comps in batches(G.enum_std_numeric(bitlens), 64):
        yield "enum-std-integer", comps
    for comps in batches(G.enum_std_other((0, 3)), 48):
        yield "enum-std-other", comps
    for comps in batches(G.enum_texttables(), 48):
        yield "enum-texttable", comps
    # multiplexers: every declaration order of the cases x every way of selecting a case (switch key filled in by the encoder)
    for comps in batches(G.enum_mux_orders(), 22):
        yield "enum-mux-orders", comps
    # BYTE-SIZE structures with explicitly positioned members in every listing order; terminated MIN-MAX objects with
    # values around the termination sequence (fixed values: FIXED_VALUES[name])
    for fam, it in (("enum-struct-layout-orders", ((c, v) for c, v, _ in G.enum_struct_layout_orders())),
                    ("enum-minmax-terminated", G.enum_minmax_terminated()), ("enum-masked-holes", G.enum_masked_holes()),
                    ("enum-field-layouts", G.enum_field_layouts()), ("enum-after-complex", G.enum_after_complex())):
        seen, comps = {}, []
        for c, v in it:
            if c.name not in seen:
                seen[c.name] = c
                comps.append(c)
            FIXED_VALUES.setdefault(c.name, []).append(v)
        for cs in batches(iter(comps), 24):
            yield fam, cs
    n = 12000 if big else 1500
    buf = []
    for i in range(n):
        c = G.gen_composite(rng, profile=G.THOROUGH if big else G.QUICK, name=f"C{i}")
        buf.append(c)
        if i % 6 == 0:
            o = overlapping_variant(rng, c)
            if o is not None:
                o.name = f"O{i}"
                buf.append(o)
        if len(buf) >= 12:
            yield "random", buf
            buf = []
    if buf:
        yield "random", buf


def run_cases(seed, tier, on_case):
    """loads every document with the real loader, encodes `k` values per composite, calls
    on_case(index, family, comp, value, trig, Res)"""
    import codec_oracles as O
    from odxgen import values as V
    from odxgen.gen import enum_mux_values as G_enum_mux_values
    vrng = random.Random(f"{seed}/C02/values")
    idx = 0
    for family, comps in gen_docs(seed, tier):
        L, err = O.safe_load(comps)
        if L is None:
            single = []
            for c in comps:
                L1, _ = O.safe_load([c])
                if L1 is not None:
                    single.append((c, L1[c.name]))
        else:
            single = [(c, L[c.name]) for c in comps]
        for c, obj in single:
            if family.startswith("enum-std"):
                try:
                    vals = [{"x": x, "y": 0xA5} for x in V.boundary_values(vrng, c.params[1].dop, 2, 8)]
                except Exception:  # noqa
                    vals = []
            elif family == "enum-texttable":
                vals = [{"x": t, "y": 0xA5} for _, _, t in c.params[1].dop.compu.scales]
            elif family in ("enum-struct-layout-orders", "enum-minmax-terminated", "enum-masked-holes", "enum-field-layouts", "enum-after-complex"):
                vals = FIXED_VALUES.get(c.name, [])
            elif family == "enum-mux-orders":
                try:
                    vals = G_enum_mux_values(vrng, c)
                except Exception:  # noqa
                    vals = []
            else:
                vals = []
                for _ in range(3):
                    try:
                        vals.append(V.gen_value(vrng, c))
                    except Exception:  # noqa
                        pass
            for v in vals:
                try:
                    trig = V.gen_trigger(vrng, c)
                except Exception:  # noqa
                    trig = None
                r = O.impl_encode(obj, v, trig)
                if r.ok:
                    r.msg = O.impl_decode(obj, r.pdu)           # "decoding reads the same bits back" (kept in the free slot `msg`)
                on_case(idx, family, c, v, trig, r)
                idx += 1
    return idx


if __name__ == "__main__":
    sys.modules["bitstruct.c"] = None            # force the pure-Python backend before odxtools is imported
    import common
    common.import_repo()
    import odxtools.encodestate as es_mod
    assert es_mod.bitstruct.__name__ == "bitstruct", es_mod.bitstruct.__name__
    out = []
    run_cases(int(sys.argv[1]), sys.argv[2],
              lambda i, fam, c, v, t, r: print(json.dumps([i, r.status, r.pdu.hex() if r.ok else "", (r.warns > 0) if r.ok else False])))
