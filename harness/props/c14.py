"""C14 — variant identification selects the first candidate whose pattern matches."""
import itertools
import json
import logging
import os
import re
import warnings

import variant_lib as L

ID = "C14"
LEAN_TARGETS = ["OdxVerif.Props.C14"]
DRIVERS = ["drv_variant"]
P = "OdxVerif.Variant."
THEOREMS = [P + t for t in [
    "C14_first_match", "C14_first_match_general", "C14_identify_is_first", "C14_identify_none", "C14_no_match", "C14_total",
    "C14_cache_irrelevant", "C14_only_ident_requests", "C14_only_ident_requests_any_caller", "C14_no_repeat",
    "C14_cache_content", "C14_error_leaves_pending", "C14_rerun_idempotent", "C14_strict_mode_irrelevant"]]
RULE = ("candidate lists of 0-4 variants (ECU variants with 0-3 patterns, base variants with 0-1 pattern, mixed lists, the same "
        "object twice) x 1-3 matching parameters, identification services shared by name and request bytes, distinct, or "
        "colliding on the request bytes; SNREF and SNPATHREF targets into structures, fields (any item), table-struct pairs; "
        "leaves str/int/bool/None/bytes/bytearray/DTC (+float, oracle only: values from 0 and 5e-324 over 1.7e9 and 2**53 to the largest double, "
        "both signs, inf/nan; expected values at exact decimal distances around them that straddle the absolute tolerance 1e-8 or lie within a "
        "relative distance 1e-16..1e-3, the doubles next to the boundary of the tolerance, decimal / scientific / integer notation); "
        "1-3 response objects per service (positive, "
        "negative, global negative) that decode, raise DecodeError or (malformed stream) something else; ECU = table over a "
        "2-4 value alphabet incl. the empty answer and negative responses, exhaustive over all tables when there are few, "
        "physical/functional answers equal or different; strict mode on/off; cache on/off; misuse scripts (no evaluate, "
        "abandoned loop, re-run); every case with the answers handed to evaluate() as immutable bytes and additionally as a new bytearray per "
        "answer or one receive buffer re-used for all answers, each left alone or overwritten by the caller once evaluate() has returned. "
        "Two builders: objects with stubbed encode_request/decode ('obj'), and ODX XML through the "
        "real parser with the real encode_request/decode ('xml'; the reference and the model take the matching parameters as "
        "written in the document, the matcher the loaded objects; 'xml-text': blank padded fixed-length ASCII identification "
        "texts in structures and fields, expected values derived from the decoded responses, with and without white space at "
        "their ends -- white space in an expected value is significant; 'xml-float': IEEE doubles / singles, an integer scaled to a float, "
        "floats in a structure and in the items of a field, decoded by the real decoder; 'xml-bytes': byte fields of variable length -- length "
        "prefixed, in a structure, in the items of a field, the rest of the message (MIN-MAX-LENGTH / END-OF-PDU) -- whose values differ only in "
        "their length: zero bytes at either end, prefixes, empty and all-zero byte fields). Byte field leaves (all builders) come from a pool closed under "
        "appending / prepending a zero byte; 15-35 % of the expected values derived from a decoded leaf are an *alias* of it: a text that a coarser "
        "equality would accept (other length: zero bytes / digits at either end, prefix, extension; other notation of the same number: decimal, hex, "
        "0x, sign, as a float; other byte order; other case where case matters; python's str() of the value). Service short names (all builders) range over the legal ODX "
        "short names: digit first, python keywords, names of list / NamedItemList attributes, leading underscores, `_<n>` suffixes, "
        "names differing only in case, prefixes of each other, 128 characters; layers with two or three such confusable names in "
        "either order; references to a name that is merely similar to a service of the layer (malformed streams: must be "
        "unresolvable); renamed structure members of the same kinds (object builder). distinct = distinct (configuration, ECU table, strict, "
        "cache, script); non-trivial = at least one request was yielded")
TRUSTED = ["model lean/OdxVerif/Model/Variant.lean is hand-written; tied to odxtools/variantmatcher.py + matchingparameter.py by "
           "comparing request traces, outcomes, matcher state and cache contents",
           "the reference of the property statement in harness/variant_lib.py (ref_first_match, 60 lines, no short-circuit, "
           "no cache, no exceptions) is independent of the model; it is cross-checked against the Lean Spec (`spec` op) on every case",
           "Response.decode / DiagService.encode_request are inputs of the model (their results are passed to it); that they are "
           "what the ECU's bytes mean is the business of C01-C06"]
ASSUMPTIONS = ["a deterministic ECU is a function of the yielded pair (use_physical_addressing, request bytes); the empty byte string "
               "stands for 'no answer'",
               "an answer is a byte string (a value): evaluate() may be given a bytes or a bytearray object, and the object remains the caller's "
               "(it may be re-used for the next answer or overwritten as soon as evaluate() has returned) -- the unchanged code copies it",
               "float leaves (tolerance 1e-8) and non-ASCII case mapping of str.upper() are outside the model; floats are checked by "
               "the direct oracle only",
               "theorems about the reported variant assume the loop completed; strict-mode OdxError for unresolvable paths/services "
               "is the documented behaviour (tests/test_variant_matching.py::test_unresolvable_snpathref) and C14_total states when "
               "no exception can occur"]


# ------------------------------------------------------------------ generators (object family)
# ---- floating point identification values. "Equal" for a float is |float(expected) - value| < 1e-8: an ABSOLUTE tolerance, the same
# at every magnitude. The values span the magnitudes (0, below the tolerance, around 1, beyond 10, time stamps ~1.7e9, beyond 2**32,
# the integers' limit 2**53, where the spacing of doubles exceeds the tolerance, the largest and the smallest double), both signs, and
# the non-finite values; the expected values are placed at exact decimal distances around a value that straddle the tolerance
# (absolute distances) or would be inside a RELATIVE tolerance of 1e-9 .. 1e-6 (distances proportional to the magnitude).
FLOAT_VALUES = ["0.0", "-0.0", "1e-09", "5e-09", "-2e-08", "0.1", "1.0", "1.5", "2.25", "-1.0", "9.5", "10.5", "26.000000001", "255.0",
                "-255.5", "1000.125", "65535.5", "1000000.25", "16777216.0", "123456789.0", "1700000000.5", "1700000000.0", "-1700000000.0",
                "4294967295.0", "1000000000000.0", "9007199254740992.0", "1e+15", "-1e+15", "1e+22", "1.7976931348623157e+308", "5e-324",
                "2.2250738585072014e-308", "inf", "-inf", "nan"]
FLOAT_ABS_DELTAS = ["0", "1e-12", "1e-9", "5e-9", "9.9e-9", "0.99999999e-8", "1e-8", "1.00000001e-8", "1.01e-8", "2e-8", "1e-7", "1e-6",
                    "1e-3", "0.5", "1", "2"]
FLOAT_REL_DELTAS = ["1e-16", "1e-12", "1e-10", "5e-10", "9e-10", "1e-9", "1.1e-9", "1e-8", "1e-7", "1e-6", "1e-3"]
FLOAT_NONFINITE_EXP = ["inf", "-inf", "nan", "Infinity", "-Infinity", "NaN", "1e999", "-1e999", "1.7976931348623157e308", "0", "0.0", "x", ""]


def gen_float_leaf(rng):
    return ["f", rng.choice(FLOAT_VALUES)]


def render_float_expected(rng, v):
    """an expected value at an exactly known (decimal) distance from the float v, in one of the notations float() reads"""
    import decimal
    if v != v or v in (float("inf"), float("-inf")):
        return rng.choice(FLOAT_NONFINITE_EXP + [repr(v), repr(-v)])
    if rng.random() < 0.15:
        # the doubles next to the boundary of the tolerance on either side of v: distance just below, (if representable) exactly, just above 1e-8
        import math
        b = v + 1e-8 if rng.random() < 0.5 else v - 1e-8
        cands = [b]
        lo = hi = b
        for _ in range(3):
            lo, hi = math.nextafter(lo, -math.inf), math.nextafter(hi, math.inf)
            cands += [lo, hi]
        exact = [e for e in cands if abs(e - v) == 1e-8]
        e = rng.choice(exact) if exact and rng.random() < 0.6 else rng.choice(cands)
        return repr(e)
    with decimal.localcontext() as c:
        c.prec = 1200
        dv = decimal.Decimal(v)      # exact
        r = rng.random()
        if r < 0.5:
            d = decimal.Decimal(rng.choice(FLOAT_ABS_DELTAS))
        elif r < 0.9:
            d = abs(dv) * decimal.Decimal(rng.choice(FLOAT_REL_DELTAS))
        else:
            d = decimal.Decimal(0)
        e = dv + d if rng.random() < 0.5 else dv - d
        form = rng.random()
        if form < 0.35 and abs(e.adjusted()) < 40:
            t = format(e, "f")
            if "." in t:
                t = t.rstrip("0").rstrip(".") if rng.random() < 0.7 else t
            return t or "0"
        if form < 0.6:
            return format(e.normalize(), "e") if e else "0e0"
        if form < 0.7:
            return "+" + format(e.normalize(), "E") if e >= 0 else format(e.normalize(), "E")
        try:
            f = float(e)
        except (OverflowError, ValueError):
            return format(e.normalize(), "e")
        if form < 0.8 and abs(f) < 1e17 and f == int(f):
            return str(int(f))       # the way an integer is written
        return repr(f)


def gen_leaf(rng, allow_float):
    if allow_float and rng.random() < 0.45:
        return gen_float_leaf(rng)
    r = rng.random()
    if r < 0.38:
        return ["s", rng.choice(["a", "b", "1", "ff", "AB", "255", "0x1a", "", "AB  ", " a", "1 ", " "])]
    if r < 0.58:
        return ["i", str(rng.choice([0, 1, 255, -1, 26, 7]))]
    if r < 0.70:
        return [rng.choice("yY"), rng.choice(BYTE_VALUES)]
    if r < 0.79:
        return ["dtc", rng.choice([26, 0, 0x123456, 255])]
    if r < 0.85:
        return ["b", rng.random() < 0.5]
    if r < 0.90:
        return ["n"]
    return ["s", rng.choice(["a", "b"])]


def render_expected(rng, leaf):
    """a text that the code considers equal to the leaf (a float leaf: a text near it, inside or outside the tolerance)"""
    t = leaf[0]
    v = L.py_of(leaf)
    if t in "yY":
        h = v.hex()
        return rng.choice([h, h.upper(), h.capitalize()])
    if t == "dtc":
        h = hex(v.trouble_code)
        return rng.choice([h, h.upper(), "0x" + h[2:].upper()])
    if t == "f":
        return render_float_expected(rng, v)
    return str(v)


# ---- byte fields. "Equal" for a byte field is: its hex representation is the expected text, case-insensitively -- so the LENGTH is part of
# the value (a1, a100 and 00a1 are three different part numbers). The pool is closed under appending / prepending a zero byte and under
# taking a prefix, so that values which a padding / numeric / prefix comparison would identify meet in one configuration.
BYTE_VALUES = ["ab", "ab00", "ab0000", "00ab", "ab12", "ab1200", "00ff", "ff", "ff00", "1a", "", "00", "0000"]
GEN_STATS = {}


def _stat(kind, what):
    GEN_STATS[(kind, what)] = GEN_STATS.get((kind, what), 0) + 1


def alias_expected(rng, leaf):
    """a text that some COARSER notion of equality than the property's would take for the value of the leaf (and the property's, as a
    rule, does not): another length (zero bytes / zero digits at either end, a prefix, an extension), another notation of the same number
    (decimal / hex / with 0x / with sign / as a float), another byte order, another case where case matters, the text of another type.
    Whether it IS equal is decided by the reference, not here."""
    t = leaf[0]
    v = L.py_of(leaf)
    if t in "yY":
        h = v.hex()
        alts = [("trailing-zero-bytes+", h + "00"), ("trailing-zero-bytes+", h + "0000"), ("leading-zero-bytes+", "00" + h), ("extension", h + "ff"),
                ("0x-prefix", "0x" + h), ("0x-prefix", "0X" + h.upper()), ("python-str", str(bytes(v))), ("odd-length", h + "0"), ("odd-length", "0" + h)]
        if h.endswith("00"):
            alts += [("trailing-zero-bytes-", h[:-2]), ("trailing-zero-bytes-", re.sub("(00)+$", "", h))] * 2
        if h.startswith("00"):
            alts += [("leading-zero-bytes-", h[2:]), ("leading-zero-digits-", h.lstrip("0"))] * 2
        elif h.startswith("0"):
            alts += [("leading-zero-digits-", h[1:])]
        if len(v) > 1:
            alts += [("prefix", h[:-2]), ("suffix", h[2:]), ("blank-separated", " ".join("%02x" % b for b in v)), ("byte-order", bytes(v)[::-1].hex())]
        if len(v) >= 1:
            alts += [("decimal", str(int.from_bytes(v, "big")))]
    elif t == "dtc":
        c = v.trouble_code
        alts = [("decimal", str(c)), ("no-0x", "%x" % c), ("leading-zero-digits+", "0x%06x" % c), ("leading-zero-digits+", "0x0%X" % c),
                ("trailing-zero-digits+", "0x%x00" % c), ("short-name", str(v.short_name)), ("hash-prefix", "#%x" % c)]
    elif t == "i":
        alts = [("sign", "%+d" % v), ("leading-zero-digits+", "0%d" % v if v >= 0 else "-0%d" % -v), ("as-float", "%d.0" % v), ("as-float", "%de0" % v),
                ("hex", hex(v)), ("no-0x", "%x" % v if v >= 0 else "-%x" % -v), ("trailing-zero-digits+", "%d0" % v)]
    elif t == "b":
        alts = [("case", str(v).lower()), ("case", str(v).upper()), ("as-int", str(int(v))), ("as-int", "%d.0" % v)]
    elif t == "n":
        alts = [("empty", ""), ("case", "none"), ("case", "NONE"), ("null", "null")]
    elif t == "s":
        alts = [("case", v.swapcase()), ("case", v.upper()), ("case", v.lower()), ("prefix", v[:-1]), ("extension", v + v[-1:]), ("hex-of-text", v.encode().hex()),
                ("python-repr", repr(v))]
        if v.strip().lstrip("+-").isdigit():
            alts += [("leading-zero-digits+", "0" + v), ("as-float", v + ".0"), ("hex", hex(int(v)))]
    else:
        return None
    alts = [a for a in alts if a[1] != (v.hex() if t in "yY" else None)]
    what, e = rng.choice(alts)
    _stat({"y": "bytes", "Y": "bytes"}.get(t, t), what)
    return e


PADS = [(" ", ""), ("", " "), ("  ", "  "), ("\t", ""), ("", "\n"), ("", "  ")]


def pad_expected(rng, exp):
    """a text that differs from exp only by white space at its ends (white space in an expected value is significant:
    it is neither equal to the unpadded text nor to a differently padded one)"""
    if exp != exp.strip() and rng.random() < 0.4:
        return rng.choice([exp.strip(), exp.lstrip(), exp.rstrip(), exp.strip() + " "])
    a, b = rng.choice(PADS)
    return a + exp + b


def gen_tree(rng, allow_float, odd):
    lf = lambda: gen_leaf(rng, allow_float)  # noqa
    kv = []
    if rng.random() < 0.85:
        kv.append(["id", lf()])
    if rng.random() < 0.6:
        info = [["type", lf()], ["sub", ["d", [["x", lf()]]]]]
        if rng.random() < 0.5:
            # (round 9) a FIELD below a structure: the remaining path handed to the items starts behind the field's own name, at any depth
            info.append(["mods", ["l", [["d", [["hw", lf()], ["deep", ["d", [["z", lf()]]]]]] for _ in range(rng.choice([0, 1, 2, 3]))]]])
        kv.append(["info", ["d", info]])
    if rng.random() < 0.5:
        n = rng.choice([0, 1, 2, 2, 3])
        items = [["d", [["type", lf()]]] for _ in range(n)]
        if odd and rng.random() < 0.3:
            items.insert(rng.randint(0, len(items)), rng.choice([lf(), ["l", [lf()]], ["t", [lf(), lf()]]]))
        kv.append(["items", ["l", items]])
    if rng.random() < 0.4:
        r = rng.random()
        if r < 0.45:
            tab = ["t", [["s", "row"], ["d", [["type", lf()]]]]]
        elif r < 0.65:
            tab = ["t", [["s", "row"], lf()]]
        elif r < 0.8:
            tab = ["t", [["s", "row"], ["l", [["d", [["type", lf()]]], ["d", [["type", lf()]]]]]]]
        elif r < 0.9:
            tab = ["t", [["s", "row"], ["n"]]]
        else:
            tab = ["t", [lf(), lf(), lf()]]
        kv.append(["tab", tab])
    if rng.random() < 0.15:
        kv.append(["nul", ["n"]])
    return ["d", kv]


PATHS = [("id",), ("info", "type"), ("info", "sub", "x"), ("items", "type"), ("tab", "type"), ("tab",), ("nrc",), ("info", "mods", "hw"), ("info", "mods", "deep", "z")]
ODD_PATHS = [("info",), ("id", "x"), ("items",), ("nul",), ("nul", "x"), ("tab", "type", "x"), ("nope",), ("", "id"), ("info", "", "type")]


# ---- short names. An ODX short name is any text over [a-zA-Z0-9_] (1..128 characters): it may start with a digit, be a
# python keyword or the name of an attribute of a python list / of odxtools' NamedItemList, and two short names of one layer
# may differ only by a leading underscore, a `_<n>` suffix or the case of a letter. A DIAG-COMM-SNREF / OUT-PARAM-IF-SNREF
# names exactly the object with that short name -- never one whose name is merely similar, and never nothing when the object exists.
CLASSIC_NAMES = ["S0", "S1", "S2"]
# triples whose members a lookup through some normalised/mangled form of the name would confuse with each other
CONFUSABLE_NAMES = [
    ["1x", "_1x", "_1x_2"], ["1", "_1", "1_"], ["22F190_ReadIdent", "_22F190_ReadIdent", "22f190_readident"],
    ["pass", "_pass", "Pass"], ["class", "in", "None"], ["lambda", "_lambda", "lambda_2"],
    ["index", "index_2", "_index"], ["count", "get", "keys"], ["append", "items", "values"], ["copy", "sort", "pop"],
    ["_item_dict", "_item_dict_2", "item_dict"], ["__len__", "__class__", "__dict__"],
    ["S0", "s0", "S0_2"], ["S", "S0", "S00"], ["S0", "_S0", "S0_"], ["_", "__", "_2"], ["identService", "IdentService", "identservice"],
    ["0", "00", "_0"], ["x" * 128, "x" * 127, "x" * 127 + "_"], ["True", "true", "_True"], ["S1", "S1_2", "S1_3"],
]
NAME_POOL = sorted({n for t in CONFUSABLE_NAMES for n in t} | {"ReadIdent", "Ident_Read", "2S", "def", "is", "remove", "insert",
                                                                  "extend", "clear", "reverse", "_get_item_key", "A", "a1", "Z_9"})
# response parameter / structure member names (object family): the names of `gen_tree` and what they may be renamed to
TREE_KEYS = ["id", "info", "type", "sub", "x", "items", "tab"]
ODD_KEYS = ["1d", "_1d", "1", "0x", "pass", "_pass", "class", "None", "index", "count", "get", "keys", "values", "pop", "Id", "ID",
            "id_2", "_id", "id_", "Type", "_type", "X", "_x", "__len__", "_item_dict", "2nd", "in"]


def pick_names(rng):
    """the three service short names of a configuration"""
    r = rng.random()
    if r < 0.4:
        return list(CLASSIC_NAMES)
    if r < 0.8:
        t = list(rng.choice(CONFUSABLE_NAMES))
        rng.shuffle(t)
        return t
    return rng.sample(NAME_POOL, 3)


def name_kind(n):
    import keyword
    if n[:1].isdigit():
        return "digit-first"
    if keyword.iskeyword(n):
        return "python-keyword"
    if hasattr(list, n) or n in ("keys", "values", "items", "get", "_item_dict", "_get_item_key", "_add_attribute_item"):
        return "list-attribute"
    if n.startswith("_"):
        return "underscore-first"
    if re.fullmatch(r".*_\d+", n):
        return "numeric-suffix"
    if len(n) > 64:
        return "long"
    return "plain"


def near_miss_names(rng, name):
    """texts similar to `name` (what a name-mangling / normalising look-up would treat like it)"""
    return [("_" + name)[:128], name + "_2", (name + "_")[:128], name.lower(), name.upper(), name.swapcase(), name[:-1], name[1:],
            name + "0", name.lstrip("_"), re.sub(r"_\d+$", "", name), " " + name, name + " "]


def pick_keymap(rng):
    """injective renaming of the member names used by gen_tree (identity for most configurations)"""
    if rng.random() < 0.7:
        return {}
    ks = rng.sample(TREE_KEYS, rng.choice([1, 1, 2, 3]))
    return dict(zip(ks, rng.sample(ODD_KEYS, len(ks))))


def rename_tree(j, m):
    if not m:
        return j
    if j[0] == "d":
        return ["d", [[m.get(k, k), rename_tree(v, m)] for k, v in j[1]]]
    if j[0] in "lt":
        return [j[0], [rename_tree(v, m) for v in j[1]]]
    return j


def rename_paths(paths, m):
    return [tuple(m.get(c, c) for c in p) for p in paths]


def gen_services(rng, vi, names, mode, alphabet, allow_float, malformed, shared_tables, names_all=CLASSIC_NAMES, keymap=None):
    svcs = []
    for n in names:
        k = names_all.index(n)
        if mode == "shared":
            req = "22%02x" % k
        elif mode == "distinct":
            req = "22%02x%02x" % (k, vi)
        else:  # collide: different names, same request bytes
            req = "22aa"
        if malformed and rng.random() < 0.04:
            req = rng.choice(["!odx", "!foreign"])
        if rng.random() < 0.03:
            req = ""          # a service without request: encode_request() == b''
        key = (n, req)
        if key in shared_tables and rng.random() < 0.6:
            pos, neg = shared_tables[key]
        else:
            pos, neg = [], []
            for _ in range(rng.choice([1, 1, 1, 2])):
                t = {}
                for h in alphabet:
                    if h.startswith("62"):
                        if rng.random() < 0.85:
                            t[h] = ["val", rename_tree(gen_tree(rng, allow_float, malformed), keymap)]
                    elif h == "":
                        if rng.random() < 0.05:
                            t[h] = ["val", rename_tree(gen_tree(rng, allow_float, malformed), keymap)]
                    elif rng.random() < 0.1:
                        t[h] = ["val", rename_tree(gen_tree(rng, allow_float, malformed), keymap)]
                    if malformed and rng.random() < 0.03:
                        t[h] = ["raise", rng.choice(["odx", "foreign"])]
                pos.append(t)
            for _ in range(rng.choice([0, 1, 1])):
                t = {}
                for h in alphabet:
                    if h.startswith("7f") and rng.random() < 0.9:
                        t[h] = ["val", ["d", [["sid", ["i", "127"]], ["nrc", gen_leaf(rng, False)]]]]
                neg.append(t)
            shared_tables[key] = (pos, neg)
        svcs.append({"name": n, "req": req, "pos": pos, "neg": neg, "ba": rng.random() < 0.8})
    return svcs


def candidate_targets(v, paths=None):
    """(service name, path, leaf) triples that occur in the decode tables of variant v"""
    paths = PATHS if paths is None else paths
    out = []
    for s in v["services"]:
        for t in list(s["pos"]) + list(s["neg"]) + list(v["gneg"]):
            for o in t.values():
                if o[0] != "val":
                    continue
                tree = L.py_of(o[1])
                for path in paths:
                    for leaf in L.ref_leaves(tree, list(path)):
                        if isinstance(leaf, L.IllTyped) or isinstance(leaf, (dict, list, tuple)):
                            continue
                        out.append((s["name"], path, L.json_of(leaf)))
    return out


def gen_param(rng, v, base, malformed, names, keymap=None):
    paths, odd_paths = rename_paths(PATHS, keymap or {}), rename_paths(ODD_PATHS, keymap or {})
    targets = candidate_targets(v, paths)
    if targets and rng.random() < 0.7:
        sn, path, leaf = rng.choice(targets)
        exp = render_expected(rng, leaf)
        if rng.random() < 0.22:
            exp = alias_expected(rng, leaf) or exp
    else:
        sn = rng.choice([s["name"] for s in v["services"]] or names)
        path = rng.choice(paths)
        exp = rng.choice(["a", "b", "1", "AB", "255", "0X1A", "None", "True"])
    if rng.random() < 0.08:
        exp = pad_expected(rng, exp)
    if malformed and rng.random() < 0.25:
        path = rng.choice(odd_paths)
    if malformed and rng.random() < 0.06:
        # a member name that is merely similar to the one the response has
        path = tuple(rng.choice(near_miss_names(rng, c)) if rng.random() < 0.6 else c for c in path)
        path = tuple(c for c in path if "." not in c) or ("nope",)
    if malformed and rng.random() < 0.08:
        # no such service in this layer: an unused name, the name of a service that only another candidate has, or a text that is
        # merely similar to the name of a service of this layer (what a mangled / normalised look-up would accept)
        have = {s["name"] for s in v["services"]}
        pool = ["S9"] + [n for n in names if n not in have]
        for n in sorted(have):
            pool += [m for m in near_miss_names(rng, n) if m not in have]
        sn = rng.choice(pool)
    if len(path) == 1 and rng.random() < 0.6:
        snref, pth = path[0], None
    else:
        snref, pth = None, ".".join(path)
    if malformed and len(path) > 1 and rng.random() < 0.12:
        snref, pth = ".".join(path), None       # a dotted SNREF is one (unresolvable) name, not a path
    if malformed and rng.random() < 0.03:
        snref = pth = None
    if malformed and rng.random() < 0.03:
        snref, pth = path[0], "nope.nope"       # both given: SNREF wins
    if base:
        phys = rng.choice(["none", True, False, False])
    else:
        phys = None if rng.random() < 0.95 else rng.choice(["none", True, False])
    return {"exp": exp, "svc": sn, "snref": snref, "path": pth, "phys": phys}


def gen_cfg(rng, malformed=False, allow_float=False):
    n = rng.choice([0, 1, 2, 2, 3, 3, 4])
    scenario = rng.choice(["ecu", "ecu", "base", "base", "mixed"])
    mode = rng.choice(["shared", "shared", "distinct", "collide"])
    alphabet = rng.choice([["6201", "6202"], ["6201", "6202", ""], ["6201", "7f2231", ""], ["6201", "6202", "7f2231"],
                           ["6201", "6202", "7f2231", ""], ["6201", ""]])
    names_all = pick_names(rng)
    keymap = pick_keymap(rng)
    shared_tables = {}
    cands = []
    for vi in range(n):
        kind = scenario if scenario != "mixed" else rng.choice(["ecu", "base"])
        if malformed and rng.random() < 0.06:
            cands.append({"kind": "other", "name": f"v{vi}", "patterns": [], "services": [], "gneg": []})
            continue
        names = rng.sample(names_all, rng.choice([1, 2, 2, 3]))      # any order: which of two similar names comes first matters
        gneg = []
        if rng.random() < 0.3:
            gneg.append({h: ["val", rename_tree(["d", [["sid", ["i", "127"]], ["nrc", gen_leaf(rng, False)], ["id", gen_leaf(rng, False)]]], keymap)]
                         for h in alphabet if h.startswith("7f")})
        v = {"kind": kind, "name": f"v{vi}", "patterns": [], "gneg": gneg,
             "services": gen_services(rng, vi, names, mode, alphabet, allow_float, malformed, shared_tables, names_all, keymap)}
        npat = rng.choice([0, 1, 1, 2, 3]) if kind == "ecu" else rng.choice([0, 1, 1, 1])
        for _ in range(npat):
            v["patterns"].append([gen_param(rng, v, kind == "base", malformed, names_all, keymap) for _ in range(rng.choice([1, 1, 2, 2, 3]))])
        cands.append(v)
    cfg = {"cands": cands}
    if n >= 2 and rng.random() < 0.05:
        i, j = sorted(rng.sample(range(n), 2))
        if cands[i]["kind"] != "other":
            cands[j] = json.loads(json.dumps(cands[i]))
            cfg["dup"] = [[j, i]]
    return cfg, alphabet


def ecu_tables(rng, keys, alphabet, limit):
    """ECU response tables over the alphabet for the given request keys: all of them if few, else a sample"""
    reqs = sorted({k[2:] for k in keys})
    total = len(alphabet) ** len(reqs)
    out = []
    if total <= limit:
        for combo in itertools.product(alphabet, repeat=len(reqs)):
            out.append({a + r: c for r, c in zip(reqs, combo) for a in ("p:", "f:")})
        exhaustive = True
    else:
        for _ in range(limit):
            out.append({a + r: c for r in reqs for a, c in zip(("p:", "f:"), [rng.choice(alphabet)] * 2)})
        exhaustive = False
    # answers that depend on the addressing mode
    for _ in range(max(2, len(out) // 4)):
        out.append({k: rng.choice(alphabet) for k in keys})
    return out, exhaustive


def gen_script(rng, alphabet):
    script = []
    for _ in range(rng.choice([1, 1, 2, 3])):
        if rng.random() < 0.25:
            script.append("ecu")
        else:
            script.append([None if rng.random() < 0.15 else rng.choice(alphabet) for _ in range(rng.choice([0, 1, 2, 3, 5, 8]))])
    if rng.random() < 0.5:
        script.append("ecu")
    return script


# ------------------------------------------------------------------ oracle
def key_of(cfg, ecu, strict, cache, script, buf="bytes", memo=None):
    if memo is not None:
        if "cfgkey" not in memo:
            memo["cfgkey"] = json.dumps(cfg, sort_keys=True)
        ck = memo["cfgkey"]
    else:
        ck = json.dumps(cfg, sort_keys=True)
    return ck + json.dumps([ecu, strict, cache, script] + ([buf] if buf != "bytes" else []), sort_keys=True)


def differs_by_addressing(ecu):
    return any(ecu.get("f:" + k[2:]) != v for k, v in ecu.items() if k.startswith("p:"))


def cfg_has_float(cfg0):
    return any(L.has_float(o[1]) for v in cfg0["cands"] for s in v.get("services", []) for t in s["pos"] + s["neg"]
               for o in t.values() if o[0] == "val")


_ROT = itertools.count()


def alt_bufs(ctx):
    """the ways of handing the responses over that a case is evaluated in besides plain `bytes` objects, in turn: one of them (quick) /
    two of them, one that re-uses the buffer and one that does not, one that scribbles and one that does not (thorough)"""
    alts = L.BUF_MODES[1:]
    k = next(_ROT)
    if ctx.tier == "thorough" and len(alts) == 4:
        return (alts[0], alts[3]) if k % 2 else (alts[1], alts[2])
    return (alts[k % len(alts)],)


def oracle(ctx, fam, cfg0, objs, ecu, strict, witness_extra, pending, alphabet, bufs=("bytes",), memo=None):
    """direct oracle on the implementation for one (configuration, ECU, strict mode): both cache modes, for every way `bufs` of
    handing the ECU's answers to evaluate() (the statement is about the answers, not about the objects that hold them)"""
    ref, hazard, idents = L.ref_first_match(cfg0, ecu)
    ctx.histo("spec_result", "none" if ref is None else "first" if ref == 0 else "later")
    for h in hazard:
        ctx.histo("hazard", h)
    floats = "float" in hazard
    model_free = floats or cfg_has_float(cfg0)
    plain_obs = None
    for buf in bufs:
        plain = buf == "bytes"
        obs = {}
        for cache in (True, False):
            cfg = dict(cfg0, strict=strict, cache=cache)
            o = L.run_script(cfg, objs, ["ecu"], ecu, buf=buf)
            obs[cache] = o
            ctx.case(key_of(cfg0, ecu, strict, cache, None, buf, memo), nontrivial=len(o.sessions[0]["trace"]) >= 1)
            ctx.histo("outcome", o.sessions[0]["outcome"])
            ctx.histo("response_handed_over_as", buf)
        w = {"family": fam, "cfg": cfg0, "ecu": ecu, "strict": strict, **witness_extra}
        bf = []
        if not plain:
            w["buf"] = buf
            bf = ["rx-" + buf]
        for cache in (True, False):
            s = obs[cache].sessions[0]
            f = obs[cache].final
            tag = "cache-on" if cache else "cache-off"
            out = s["outcome"]
            if out != "done":
                justified = ((out == "err-odx" and (("ill-typed" in hazard and strict) or ("no-service" in hazard and strict)
                                                    or ("other-kind" in hazard and strict) or "encode-raises" in hazard
                                                    or "decode-raises" in hazard))
                             or (out == "err-foreign" and (("no-service" in hazard and not strict) or "encode-raises" in hazard
                                                           or "decode-raises" in hazard)))
                if not justified:
                    feats = [out, tag] + bf
                    last = s["trace"][-1] if s["trace"] else None
                    if last is not None and ecu.get(L.ecu_key(last[0], bytes.fromhex(last[1]))) == "":
                        feats.append("empty-answer")
                    if out == "err-foreign" and not s["trace"]:
                        feats.append("before-first-request")
                    if "float" in hazard:
                        feats.append("float-leaf")
                    ctx.violate("reports-first-match-or-none", feats, out, dict(w, cache=cache),
                                f"request_loop raised ({out}) although nothing in the candidate descriptions can raise; the matcher stays pending")
                if f["pending"] is not True or f["has_match"] != "err-runtime" or f["match"] is not None:
                    ctx.violate("error-leaves-pending", [out, tag] + bf, json.dumps(f), dict(w, cache=cache),
                                "after an exception the matcher is not pending / reports a variant")
            else:
                exp_hm = "t" if ref is not None else "f"
                if f["match"] != ref or f["has_match"] != exp_hm or f["pending"] is not False:
                    m = f["match"]
                    kind = ("missed" if m is None else "unobservable" if not isinstance(m, int) else "spurious" if ref is None
                            else "later" if m > ref else "earlier" if m < ref else "state")
                    feats = [kind, tag] + bf + (["float-leaf"] if floats else [])
                    ctx.violate("reports-first-match-or-none", feats, kind, dict(w, cache=cache),
                                f"the matcher reports candidate {f['match']} (has_match={f['has_match']}) but the first candidate with a fully "
                                f"matching pattern is {ref}")
            for ph, r in s["trace"]:
                if (ph, r) not in idents:
                    ctx.violate("only-ident-requests", [tag] + bf, f"{'p' if ph else 'f'}:{r}", dict(w, cache=cache),
                                "a yielded request is not the identification request of any candidate's matching parameter")
                    break
            if cache and len({(ph, r) for ph, r in s["trace"]}) != len(s["trace"]):
                ctx.violate("no-repeat-with-cache", ["cache-on"] + bf, json.dumps(s["trace"]), dict(w, cache=True),
                            "with the cache a request was yielded twice")
        a, b = obs[True], obs[False]
        if (a.sessions[0]["outcome"], a.final["match"], a.final["has_match"]) != (b.sessions[0]["outcome"], b.final["match"], b.final["has_match"]):
            feats = ["addressing-dependent-ecu"] if differs_by_addressing(ecu) else ["addressing-independent-ecu"]
            if "err-foreign" in (a.sessions[0]["outcome"], b.sessions[0]["outcome"]):
                feats.append("err-foreign")
            ctx.violate("cache-irrelevant", feats + bf, f"cache:{a.sessions[0]['outcome']} nocache:{b.sessions[0]['outcome']}", w,
                        f"the outcome with the response cache ({a.sessions[0]['outcome']}, variant {a.final['match']}) differs from the "
                        f"outcome without it ({b.sessions[0]['outcome']}, variant {b.final['match']})")
        # correspondence lines (the model knows values only: the same line whatever object held the response)
        if model_free:
            ctx.count("float_cases_oracle_only")
            continue
        if plain:
            plain_obs = obs
        elif plain_obs is not None and all(obs[c].canon() == plain_obs[c].canon() for c in (True, False)):
            # observed exactly what was observed with `bytes` objects (traces, outcomes, state, cache content), and that is compared with the model
            ctx.count("rx_observations_identical_to_the_bytes_observation", 2)
            continue
        sxc = {c: L.sx_cfg(dict(cfg0, strict=strict, cache=c), alphabet, memo) for c in (True, False)}
        sxe = L.sx_ecu(ecu)
        for cache in (True, False):
            pending.append((fam if plain else fam + "/rx", dict(w, cache=cache, script=["ecu"]), f"(run {sxc[cache]} {sxe} (script (auto)))",
                            L.model_line_of_obs(obs[cache])))
        if plain:
            pending.append((fam + "/spec", w, f"(spec {sxc[True]} {sxe})",
                            f"(spec (match {'none' if ref is None else ref})"))


def misuse(ctx, fam, cfg0, objs, ecu, strict, cache, script, witness_extra, pending, alphabet, buf="bytes", memo=None):
    """arbitrary caller: correspondence + the 'only identification requests' clause"""
    cfg = dict(cfg0, strict=strict, cache=cache)
    o = L.run_script(cfg, objs, script, ecu, buf=buf)
    _, _, idents = L.ref_first_match(cfg0, ecu)
    ctx.case(key_of(cfg0, ecu, strict, cache, script, buf, memo), nontrivial=any(s["trace"] for s in o.sessions))
    ctx.histo("misuse_outcome", "/".join(str(s["outcome"]) for s in o.sessions)[:40])
    ctx.histo("misuse_response_handed_over_as", buf)
    w = {"family": fam, "cfg": cfg0, "ecu": ecu, "strict": strict, "cache": cache, "script": script, **witness_extra}
    bf = []
    if buf != "bytes":
        w["buf"] = buf
        bf = ["rx-" + buf]
    for s in o.sessions:
        for ph, r in s["trace"]:
            if (ph, r) not in idents:
                ctx.violate("only-ident-requests", ["misuse"] + bf, f"{'p' if ph else 'f'}:{r}", w,
                            "a yielded request is not the identification request of any candidate's matching parameter")
                break
    if cfg_has_float(cfg0):
        ctx.count("float_cases_oracle_only")
        return
    pending.append((fam + "/misuse", w, f"(run {L.sx_cfg(cfg, alphabet, memo)} {L.sx_ecu(ecu)} {L.sx_script(script)})", L.model_line_of_obs(o)))


def flush(ctx, pending):
    if not pending:
        return
    drv = ctx.driver("drv_variant")
    lines = list(dict.fromkeys(p[2] for p in pending))       # the same question (several ways of handing the responses over) is asked once
    answer = dict(zip(lines, drv.query(lines)))
    replies = [answer[p[2]] for p in pending]
    for (fam, w, line, impl), rep in zip(pending, replies):
        ctx.traces += 1
        for j, i in (w.get("cfg") or {}).get("dup", []):
            # the same object twice in the list: the implementation reports the object, i.e. its first position
            rep = rep.replace(f"(match {j})", f"(match {i})")
        ok = rep.startswith(impl) if fam.endswith("/spec") else rep == impl
        if not ok:
            ctx.disagree(fam, w, rep, impl)
        ctx.sample({"family": fam, "request": line[:300], "model": rep[:300], "impl": impl[:300]}, limit=6)
    pending.clear()


# ------------------------------------------------------------------ corpus: the defects of the pinned commit
def _svc(name, req, ba=True):
    val = lambda x: ["val", ["d", [["id", ["s", x]]]]]  # noqa
    return {"name": name, "req": req, "pos": [{"6201": val("a"), "6202": val("b")}], "neg": [], "ba": ba}


def _mp(svc, exp, phys=None):
    return {"exp": exp, "svc": svc, "snref": "id", "path": None, "phys": phys}


CORPUS = [
    # 1. an ECU that does not answer the first identification request (b'') -- was: RuntimeError "forgot evaluate()"
    ({"cands": [{"kind": "ecu", "name": "v0", "patterns": [[_mp("S1", "a")]], "services": [_svc("S1", "2201", False), _svc("S2", "2202", False)], "gneg": []},
                {"kind": "ecu", "name": "v1", "patterns": [[_mp("S2", "b")]], "services": [_svc("S1", "2201", False), _svc("S2", "2202", False)], "gneg": []}]},
     {"p:2201": "", "f:2201": "", "p:2202": "6202", "f:2202": "6202"}),
    # 2. the same request physically and functionally, answered differently -- was: cache keyed by the request bytes only
    ({"cands": [{"kind": "base", "name": "b0", "patterns": [[_mp("S1", "a", True), _mp("S1", "b", False)]], "services": [_svc("S1", "2201", False)], "gneg": []}]},
     {"p:2201": "6201", "f:2201": "6202"}),
    # 3. encode_request() returns a bytearray (as the real DiagService does) -- was: TypeError unhashable with the cache
    ({"cands": [{"kind": "ecu", "name": "v0", "patterns": [[_mp("S1", "b")]], "services": [_svc("S1", "2201", True)], "gneg": []}]},
     {"p:2201": "6202", "f:2201": "6202"}),
    # 4. a float leaf and an expected value that is not a number -- was: ValueError from float(expected_value)
    ({"cands": [{"kind": "ecu", "name": "v0", "patterns": [[_mp("S1", "AB")]], "gneg": [],
                 "services": [{"name": "S1", "req": "2201", "pos": [{"6201": ["val", ["d", [["id", ["f", "1.5"]]]]]}], "neg": [], "ba": False}]},
                {"kind": "ecu", "name": "v1", "patterns": [[_mp("S1", "1.5")]], "gneg": [],
                 "services": [{"name": "S1", "req": "2201", "pos": [{"6201": ["val", ["d", [["id", ["f", "1.5"]]]]]}], "neg": [], "ba": False}]}]},
     {"p:2201": "6201", "f:2201": "6201"}),
]


# ------------------------------------------------------------------ XML family
XML_ALPHA = ["620105" "07abcd" "000123", "620106" "08abcd" "000123" "0907", "620205" "07abcd" "000123", "620107" "0900ff" "000123" "05",
             "7f2231", "7f1011", ""]
XML_TARGETS = [("id", None), (None, "id"), (None, "info.type"), (None, "info.code"), ("dtc", None), (None, "items.type"), ("nrc", None),
               ("rsid", None), ("sid", None)]
XML_ODD = [("info", None), (None, "id.x"), ("nope", None), ("items", None)]
XML_EXP = ["5", "6", "7", "8", "9", "ABCD", "abcd", "00FF", "0x123", "0X123", "49", "17", "34", "16", "98", "127", "1", "x",
           "ABCD00", "00ABCD", "AB", "FF", "00FF00", "0xABCD", "0x7", "07", "+5", "0x000123", "123"]


def xml_no_such_service(rng, svcs, names_all):
    """a DIAG-COMM-SNREF that names no service of the layer: unused, only in another layer, or merely similar to one"""
    have = {n for n, _ in svcs}
    pool = ["S9"] + [n for n in names_all if n not in have]
    for n in sorted(have):
        pool += [m for m in near_miss_names(rng, n) if m and m not in have and re.fullmatch(r"[A-Za-z0-9_]+", m)]
    return rng.choice(pool)


def gen_xml_layers(rng, malformed):
    n = rng.choice([1, 2, 2, 3, 4])
    scenario = rng.choice(["ecu", "base", "mixed"])
    layers = []
    names_all = pick_names(rng)
    for i in range(n):
        kind = scenario if scenario != "mixed" else rng.choice(["ecu", "base"])
        svcs = [(names_all[k], k + 1) for k in rng.sample(range(2), rng.choice([1, 2]))]
        pats = []
        for _ in range(rng.choice([0, 1, 1, 2, 3]) if kind == "ecu" else rng.choice([0, 1, 1])):
            pat = []
            for _ in range(rng.choice([1, 1, 2, 3])):
                snref, path = rng.choice(XML_ODD if (malformed and rng.random() < 0.3) else XML_TARGETS)
                pat.append({"exp": rng.choice(XML_EXP), "svc": rng.choice(svcs)[0] if not (malformed and rng.random() < 0.08) else xml_no_such_service(rng, svcs, names_all),
                            "snref": snref, "path": path, "phys": (rng.choice(["none", True, False]) if kind == "base" else None)})
            pats.append(pat)
        layers.append((f"L{i}", kind, svcs, pats))
    return layers


# text identification (blank padded fixed-length ASCII) and expected values with white space at their ends, through the real
# loader: the expected values are derived from what the real decoder delivers for the responses of the alphabet
XMLT_ALPHA_NUM = XML_ALPHA[:4]
XMLT_ALPHA_STR = ["6203" + t.encode().hex() for t in ["AB  1 A  A", "  AB 1", "ABCDAB  ", " AB 1 AB", "ab  A ", "AB  AB1 ", "    1   "]]
XMLT_ALPHA_NEG = ["7f2231", "7f1011", ""]
XMLT_PATHS = [("id",), ("info", "type"), ("info", "code"), ("dtc",), ("items", "type"), ("nrc",), ("rsid",), ("sid",), ("did",),
              ("name",), ("sw", "ver"), ("tags", "t")]
XMLT_EXP = ["AB  ", "  AB", "AB", " AB ", "ABCD", "ab  ", "1 ", " 1", "1", "A ", " A", "A", "  ", " ", "", "5", " 5", "abcd "]


# floating point identification through the real loader and the real decoder: IEEE doubles / singles as sent by the ECU (a single
# widens to a double that is NOT the decimal it was written as: 0.1f = 0.10000000149011612), an integer scaled to a float, floats in
# a structure and in the items of a field; DIDs 4 and 5 answer alike (shared / distinct identification services)
def _fresp(did, stamp, ratio, raw, cal, cals):
    import struct
    return (bytes([0x62, did]) + struct.pack(">d", stamp) + struct.pack(">f", ratio) + struct.pack(">I", raw) + struct.pack(">d", cal)
            + b"".join(struct.pack(">d", c) for c in cals)).hex()


_INF, _NAN = float("inf"), float("nan")
XMLF_TUPLES = [(1700000000.5, 0.1, 3399999999, 2.25, [1.0, 1e15]), (1700000000.0, 1.5, 3400000000, 2.250000001, [1700000000.5]),
               (1700000001.0, 16777216.0, 0, 1e-9, []), (2.25, 3.4028234663852886e38, 4294967295, -1700000000.0, [255.0, 255.5, 256.0]),
               (9007199254740992.0, -0.0, 1, 65535.5, [0.1]), (_INF, _NAN, 2, -_INF, [_NAN, 1.0]), (26.000000001, 1e-9, 51, 1000000.25, [1e22]),
               (1700000000.5, 0.1, 3399999999, 2.25, [1e15, 1.0]), (-255.5, 255.0, 509, 10.5, [10.5, 9.5]), (0.0, 0.0, 0, 0.0, [0.0])]
XMLF_ALPHA = {did: [_fresp(did, *t) for t in XMLF_TUPLES] for did in (4, 5)}
XMLF_PATHS = [("stamp",), ("ratio",), ("scaled",), ("cal", "stamp"), ("cals", "stamp"), ("id",), ("info", "type"), ("dtc",), ("nrc",),
              ("sid",), ("did",)]
XMLF_EXP = ["1700000000.5", "1700000000", "1.7e9", "2.25", "0.1", "0.10000000149011612", "1", "1.0", "0", "-0.0", "inf", "nan", "x", "",
            "255", "5", "1e15", "1E+15"]


# byte field identification through the real loader and the real decoder: byte fields of variable length (length prefixed; in a structure;
# the rest of the message (MIN-MAX-LENGTH, END-OF-PDU); the items of a field). The responses hold values that differ only in their length
# (zero bytes at either end, prefixes), the empty byte field and all-zero byte fields.
def _bresp(did, lp, sn, tail):
    lpd = lambda h: "%02x" % (len(h) // 2) + h  # noqa
    return "62%02x" % did + lpd(lp) + lpd(sn) + ((tail[0] if tail else "") if did == 6 else "".join(lpd(h) for h in tail))


XMLB_TUPLES = [("a1", "a100", ["a10000", "a1"]), ("a100", "a1", ["a1"]), ("00a1", "a1", [""]), ("", "00", ["0000", "00"]), ("a1", "a1", ["a1", "00a1"]),
               ("ab12", "ab", ["ab1200"]), ("a10000", "00a1", ["a100", "a2"]), ("b2", "00b2", []), ("a2", "a1", ["a1b2", "b2"]),
               ("0102030405060708", "01020304050607", ["0102030405060700"]), ("ff", "ff00", ["00ff", "ff", "ff00"])]
XMLB_ALPHA = {did: [_bresp(did, *t) for t in XMLB_TUPLES] for did in (6, 7)}
XMLB_PATHS = [("lp",), ("hw", "sn"), ("pn",), ("parts", "sn"), ("id",), ("info", "code"), ("dtc",), ("nrc",), ("sid",), ("did",)]
XMLB_EXP = ["A1", "a1", "A100", "a10000", "00A1", "", "00", "0000", "AB12", "ab", "0xA1", "161", "B2", "00b2", "ff", "FF00", "5", "abcd", "ABCD00"]
XML_FLAVOURS = {
    # name index -> DID; the service sets a layer may have; extra alphabet by kind of DID; target paths; fallback expected values
    "text": ([1, 2, 3], [[2], [2], [0, 2], [1, 2], [0], [0, 1]]),
    "float": ([4, 2, 5], [[0], [0], [0, 1], [0, 2], [2], [2, 0], [1, 2]]),
    "bytes": ([6, 2, 7], [[0], [0], [0, 1], [0, 2], [2], [2], [2, 0], [1, 2]]),
}


def gen_xmltext(rng, malformed, flavour="text"):
    """-> (layers, alphabet) or raises if the skeleton cannot be loaded"""
    dids, ksets = XML_FLAVOURS[flavour]
    n = rng.choice([1, 2, 2, 3, 4])
    scenario = rng.choice(["ecu", "ecu", "base", "mixed"])
    skel = []
    names_all = pick_names(rng)
    for i in range(n):
        kind = scenario if scenario != "mixed" else rng.choice(["ecu", "base"])
        ks = list(rng.choice(ksets))
        rng.shuffle(ks)
        skel.append((f"L{i}", kind, [(names_all[k], dids[k]) for k in ks], []))
    have = {d for l in skel for _, d in l[2]}
    pool = (XMLT_ALPHA_STR if 3 in have else []) + (XMLT_ALPHA_NUM if have & {1, 2} else [])
    for d in (4, 5):
        if d in have:
            pool = pool + XMLF_ALPHA[d]
        if d + 2 in have:
            pool = pool + XMLB_ALPHA[d + 2]
    if flavour in ("float", "bytes"):
        # responses that differ in a float only by a little / in a byte field only by its length (the same DID) must meet in one alphabet
        alpha = rng.sample(pool, min(len(pool), rng.choice([2, 3, 3, 4])))
        paths, fallback = (XMLF_PATHS, XMLF_EXP) if flavour == "float" else (XMLB_PATHS, XMLB_EXP)
    else:
        alpha = rng.sample(pool, rng.choice([2, 2, 3]))
        paths, fallback = XMLT_PATHS, XMLT_EXP
    alpha = alpha + ([rng.choice(XMLT_ALPHA_NEG)] if rng.random() < 0.4 else [])
    _, objs = L.xml_load(skel)
    probe = L.cfg_from_objects(objs, False, True, alpha)
    layers = []
    for (name, kind, svcs, _), v in zip(skel, probe["cands"]):
        # a text leaf that cannot be written into an XML 1.0 document (control characters; \r is normalised by the XML
        # parser) cannot be an EXPECTED-VALUE
        targets = [t for t in candidate_targets(v, paths)
                   if not (t[2][0] == "s" and not L.xml_text_ok(t[2][1]))]
        if flavour == "float":
            fl = [t for t in targets if t[2][0] == "f"]
            if fl:
                targets = fl * 3 + targets       # mostly the float leaves
        if flavour == "bytes":
            fl = [t for t in targets if t[2][0] in "yY"]
            targets = fl * 3 + targets           # mostly the byte fields
        pats = []
        for _ in range(rng.choice([0, 1, 1, 2, 3]) if kind == "ecu" else rng.choice([0, 1, 1, 1])):
            pat = []
            for _ in range(rng.choice([1, 1, 2, 3])):
                if targets and rng.random() < 0.75:
                    sn, path, leaf = rng.choice(targets)
                    exp = render_expected(rng, leaf)
                    if rng.random() < (0.35 if flavour == "bytes" else 0.15):
                        a = alias_expected(rng, leaf)
                        if a is not None and L.xml_text_ok(a):
                            exp = a
                else:
                    sn, path, exp = rng.choice(svcs)[0], rng.choice(paths), rng.choice(fallback)
                if rng.random() < (0.4 if flavour == "text" else 0.05):
                    exp = pad_expected(rng, exp)
                if malformed and rng.random() < 0.3:
                    snref, pth = rng.choice(XML_ODD + [("name.x", None), (None, "sw"), (None, "tags"), (None, "cal"), (None, "cals"), ("cal.stamp", None),
                                                       (None, "hw"), (None, "parts"), ("hw.sn", None)])
                elif len(path) == 1 and rng.random() < 0.6:
                    snref, pth = path[0], None
                else:
                    snref, pth = None, ".".join(path)
                if malformed and rng.random() < 0.08:
                    sn = xml_no_such_service(rng, svcs, names_all)
                pat.append({"exp": exp, "svc": sn, "snref": snref, "path": pth,
                            "phys": (rng.choice(["none", True, False]) if kind == "base" else None)})
            pats.append(pat)
        layers.append((name, kind, svcs, pats))
    return layers, alpha


# ------------------------------------------------------------------ run
def float_stats(ctx, cfg0):
    """where the expected values lie relative to the float leaves they are compared with (one count per parameter x leaf)"""
    for v in cfg0["cands"]:
        svcs = {}
        for s in v.get("services", []):
            svcs.setdefault(s["name"], s)
        for pat in v["patterns"]:
            for p in pat:
                s = svcs.get(p["svc"])
                path = [p["snref"]] if p["snref"] is not None else (p["path"].split(".") if p["path"] is not None else None)
                if s is None or path is None:
                    continue
                for t in list(s["pos"]) + list(s["neg"]) + list(v.get("gneg", [])):
                    for o in t.values():
                        if o[0] != "val" or not L.has_float(o[1]):
                            continue
                        for leaf in L.ref_leaves(L.py_of(o[1]), path):
                            if not isinstance(leaf, float):
                                continue
                            try:
                                e = float(p["exp"])
                            except ValueError:
                                ctx.histo("float_expected_value", "not-a-number")
                                continue
                            d = abs(e - leaf)
                            if d != d or d == float("inf"):
                                k = "non-finite"
                            elif d == 0:
                                k = "exact"
                            elif d == 1e-8:
                                k = "exactly-at-the-tolerance"
                            elif d < 1e-8:
                                k = "inside-the-tolerance"
                            elif d <= 1e-6 * max(abs(e), abs(leaf)):
                                k = "outside-the-tolerance-but-relatively-close(<=1e-6)"
                            elif d <= 2:
                                k = "outside-the-tolerance-near(<=2)"
                            else:
                                k = "far"
                            ctx.histo("float_expected_value", k)
                            m = abs(leaf)
                            ctx.histo("float_leaf_magnitude", "0" if m == 0 else "<1e-8" if m < 1e-8 else "<=10" if m <= 10 else "<=1e6" if m <= 1e6
                                      else "<=2**32" if m <= 2 ** 32 else "<=2**53" if m <= 2 ** 53 else "finite-beyond" if m < float("inf") else "non-finite")


def run_cfg(ctx, rng, fam, cfg0, objs, alphabet, witness_extra, pending, table_limit, n_misuse, stricts):
    if "float" in fam:
        try:
            float_stats(ctx, cfg0)
        except Exception as e:  # noqa
            ctx.count("float_stats_failed")
    keys = L.all_ident_keys(cfg0)
    tables, exhaustive = ecu_tables(rng, keys, alphabet, table_limit)
    ctx.histo("ecu_tables", "exhaustive" if exhaustive else "sampled")
    ctx.histo("candidates", len(cfg0["cands"]))
    for v in cfg0["cands"]:
        ctx.histo("kind", v["kind"])
        ctx.histo("patterns", len(v["patterns"]))
        have = {s["name"] for s in v["services"]}
        for n in have:
            ctx.histo("service_short_name", name_kind(n))
        for pat in v["patterns"]:
            ctx.histo("params", len(pat))
            for p in pat:
                ctx.histo("diag_comm_snref", name_kind(p["svc"]) if p["svc"] in have else "no-such-service")
                ctx.histo("target", "snref" if p["snref"] is not None else "snpathref" if p["path"] is not None else "none")
    memo = {}
    for ecu in tables:
        for strict in stricts:
            oracle(ctx, fam, cfg0, objs, ecu, strict, witness_extra, pending, alphabet, ("bytes",) + alt_bufs(ctx), memo)
    for _ in range(n_misuse):
        ecu = rng.choice(tables)
        misuse(ctx, fam, cfg0, objs, ecu, rng.choice(stricts), rng.random() < 0.6, gen_script(rng, alphabet), witness_extra, pending, alphabet,
               rng.choice(L.BUF_MODES), memo)


def run(ctx):
    warnings.simplefilter("ignore")
    logging.disable(logging.CRITICAL)      # non-strict odxraise() logs a warning per call
    big = ctx.tier == "thorough"
    rng = ctx.rng
    pending = []
    global _ROT
    _ROT = itertools.count()
    GEN_STATS.clear()
    # (a) corpus
    for cfg0, ecu in CORPUS:
        try:
            objs = L.build_candidates(cfg0)
        except Exception as e:  # noqa
            ctx.disagree("corpus/build", cfg0, "-", "foreign:" + type(e).__name__)
            continue
        alphabet = L.resp_alphabet(cfg0, ecu)
        for strict in (True, False):
            oracle(ctx, "corpus", cfg0, objs, ecu, strict, {}, pending, alphabet, tuple(L.BUF_MODES))
        for buf in L.BUF_MODES:
            misuse(ctx, "corpus", cfg0, objs, ecu, True, True, [[None]], {}, pending, alphabet, buf)
            misuse(ctx, "corpus", cfg0, objs, ecu, True, True, [[], "ecu", "ecu"], {}, pending, alphabet, buf)
    flush(ctx, pending)
    # (b)+(c) object family: mostly-valid stream, malformed stream, float stream
    streams = [("obj", False, False, 4000 if big else 520), ("obj-malformed", True, False, 1600 if big else 210),
               ("obj-float", False, True, 1500 if big else 160)]
    only = [f for f in os.environ.get("C14_FAMILIES", "").split(",") if f]      # diagnosis only: restrict the exploration to some families
    streams = [x for x in streams if not only or x[0] in only]
    for fam, malformed, allow_float, count in streams:
        r = ctx.sub_rng(fam)
        for n in range(count):
            cfg0, alphabet = gen_cfg(r, malformed, allow_float)
            try:
                objs = L.build_candidates(cfg0)
            except Exception as e:  # noqa
                ctx.disagree(fam + "/build", cfg0, "-", "foreign:" + type(e).__name__)
                continue
            run_cfg(ctx, r, fam, cfg0, objs, alphabet, {}, pending, 81 if big else 16, 2, (True, False))
            if len(pending) > 4000:
                flush(ctx, pending)
    flush(ctx, pending)
    # XML family: real parser, real encode_request (bytearray!) and decode. The reference and the model get the matching
    # parameters *as written in the document*, the real matcher the loaded objects: the loader is part of the checked system
    xml_streams = [("xml", False, 900 if big else 110), ("xml-malformed", True, 350 if big else 45),
                   ("xml-text", False, 700 if big else 90), ("xml-text-malformed", True, 200 if big else 25),
                   ("xml-float", False, 500 if big else 60), ("xml-float-malformed", True, 150 if big else 15),
                   ("xml-bytes", False, 300 if big else 60), ("xml-bytes-malformed", True, 80 if big else 15)]
    xml_streams = [x for x in xml_streams if not only or x[0] in only]
    for fam, malformed, count in xml_streams:
        r = ctx.sub_rng(fam)
        for n in range(count):
            layers = None
            try:
                if fam.startswith(("xml-text", "xml-float", "xml-bytes")):
                    layers, alpha = gen_xmltext(r, malformed, fam.split("-")[1])
                else:
                    layers = gen_xml_layers(r, malformed)
                    alpha = None
                _, objs = L.xml_load(layers)
            except Exception as e:  # noqa
                ctx.disagree(fam + "/load", layers, "-", "foreign:" + type(e).__name__)
                continue
            if alpha is None:
                alpha = r.sample(XML_ALPHA, r.choice([2, 3, 3]))
            for strict in (True, False):
                try:
                    cfg0 = L.cfg_from_objects(objs, strict, True, alpha)
                    cfg0, differ = L.with_document_patterns(cfg0, layers)
                except Exception as e:  # noqa
                    ctx.disagree(fam + "/cfg", layers, "-", "foreign:" + type(e).__name__)
                    continue
                if differ:
                    ctx.count("xml_layers_whose_loaded_patterns_differ_from_the_document", differ)
                for v in cfg0["cands"]:
                    for pat in v["patterns"]:
                        for p in pat:
                            ctx.histo("xml_expected_value", "blank-at-end" if p["exp"] != p["exp"].strip() else "plain")
                cfg0 = {"cands": cfg0["cands"]}
                run_cfg(ctx, r, fam, cfg0, objs, alpha, {"layers": layers, "alphabet": alpha}, pending, 27 if big else 9, 1, (strict,))
            if len(pending) > 4000:
                flush(ctx, pending)
    flush(ctx, pending)
    for (kind, what), k in sorted(GEN_STATS.items()):
        ctx.histo("alias_expected_value", f"{kind}:{what}", k)


def replay(ctx, data):
    warnings.simplefilter("ignore")
    w = data["witness"]
    sub = type(ctx)(ctx.pid, ctx.tier, ctx.seed)
    if w["family"].startswith("xml"):
        _, objs = L.xml_load([tuple(l) for l in w["layers"]])
    else:
        objs = L.build_candidates(w["cfg"])
    alphabet = w.get("alphabet") or L.resp_alphabet(w["cfg"], w["ecu"])
    buf = w.get("buf", "bytes")
    pending = []
    if "script" in w and w["script"] != ["ecu"]:
        misuse(sub, "replay", w["cfg"], objs, w["ecu"], w["strict"], w["cache"], w["script"], {}, pending, alphabet, buf)
    else:
        oracle(sub, "replay", w["cfg"], objs, w["ecu"], w["strict"], {}, pending, alphabet, tuple(dict.fromkeys(["bytes", buf])))
    return not sub.violations
