"""C05 — decoding arbitrary bytes is total: it returns or raises a DecodeError; it never invents values."""
import logging
import random
import signal
import warnings

import c05_lib as C5
import codec_oracles as O
import common
import compudop_lib as CD
import malformed as M
from odxgen import desc as D
from odxgen import gen as G
from odxgen import refpdu, sexp
from odxgen import values as V

ID = "C05"
LEAN_TARGETS = ["OdxVerif.Props.C05"]
DRIVERS = ["drv_codec"]
THEOREMS = ["OdxVerif.Codec." + t for t in ["C05_error_classes", "C05_never_foreign", "C05_no_invention", "C05_truncated_rejected", "C05_truncated_rejected_struct", "C05_unfit_rejected_struct", "C05_no_invention_struct"]]
RULE = ("direct oracle (model-free fuzz): for every generated description (odxgen, through the XML loader) and for every layer of the shipped "
        "examples/somersault.pdx (DiagLayer.decode, decode_response, every Request/Response.decode, DiagService.decode_message): byte strings = "
        "own encodings, every proper prefix of them, single-byte mutations, deletions, extensions, all strings of length <= 2 (quick) / 3 "
        "(thorough) over {00,01,7f,80,ff} + the constants of the description, random strings; static fields whose items have an "
        "input-dependent size (leading-length / min-max / param-length) and length keys behind identical / signed / LINEAR DOPs are enumerated "
        "with every byte position mutated; a DOP behind a compu method of every category (IDENTICAL, LINEAR, SCALE-LINEAR, TAB-INTP, RAT-FUNC, "
        "SCALE-RAT-FUNC, TEXTTABLE, COMPUCODE; all 16 pairs of numeric internal / physical types) as a parameter of a request / response, inside a "
        "structure, an END-OF-PDU-FIELD item and as DTC-DOP: the enumerated small scope of rational functions (15 denominators x 3 numerators x 7 "
        "placements of the scale limits against the pole, resp. 4 splits into two scales: 6 084 descriptions; quick 160 sampled) plus generated ones "
        "(compu_lib; 160 / 1 200) plus LINEAR with COMPU-DENOMINATOR 0 (30 / 90; the codec model follows these: also correspondence inputs), each decoded at every coded value that matters for it (every zero of a denominator inside the window of the coded "
        "type, every scale limit, their neighbours, the extremes of the coded type, NaN / infinities / extreme magnitudes for float objects; "
        "thorough: the whole 8-bit window for 240 of them) and at the truncations of such PDUs; objects of a size fixed by the description "
        "(RESERVED, unsigned / signed / low-high integers, CODED-CONST, byte fields, ASCII / UCS-2 strings, MATCHING-REQUEST-PARAM) of 20 widths "
        "1 ... 520 bits around and beyond the 64 bits of the extraction routine x bit position 0/3/7 x 9 placements (last object, in front of a "
        "byte / an END-OF-PDU field / an END-OF-PDU byte field, in a structure, in a response, as static-field item, as END-OF-PDU-field item: "
        "2 619 descriptions, quick one placement per (kind, width)) with every prefix of complete PDUs; a TABLE behind 18 kinds of KEY-DOP "
        "(integers, LINEAR to int / float, TEXTTABLE, ASCII / UTF-8 / UCS-2 strings, byte fields, floats, LEADING-LENGTH, MIN-MAX) x 7 "
        "arrangements of TABLE-KEY / TABLE-STRUCT (126 descriptions) on PDUs whose key is a row's key, a valid value of the KEY-DOP without a "
        "row, the key of two rows, or no value of the KEY-DOP, their prefixes and every single-byte mutation; these two families and the corpus "
        "also through the public entry points of the generated document (Request/Response.decode, DiagService.decode_message, "
        "DiagLayer.decode, DiagLayer.decode_response); an ENV-DATA-DESC behind 14 kinds of DTC parameter (DTC-DOPs, ordinary DOPs incl. LINEAR with "
        "limits / TEXTTABLE, CODED-CONST, PHYS-CONST) x 5 arrangements of ENV-DATAs x 7 placements (490 descriptions; quick one placement per pair = 70) "
        "on PDUs whose DTC is 0, 1, a code with / without environment data, the largest code, a code the DTC-DOP does not know: every proper "
        "prefix of such a PDU (its described length follows from the selected ENV-DATAs) must be rejected; corpus, enumerated families and every second random document (all in the thorough tier) are decoded "
        "in strict mode and again in lenient mode (strict_mode = False; termination and exception class only). Failing input = any exception not derived from "
        "DecodeError, a hang (5 s alarm), a proper prefix that cuts a described object of a static layout -- or of the static prefix of a layout that "
        "ends in objects which tolerate an exhausted PDU -- and is not rejected, or a result "
        "whose re-encoding needs bytes the input did not have. distinct = distinct (description or layer entry point, byte string); "
        "non-trivial = the byte string is not an unmodified own encoding")
TRUSTED = ["positions of described objects in static layouts: harness/odxgen/refpdu.py (written from the ODX positional rules)",
           "the 5 s wall-clock guard (SIGALRM) decides 'does not terminate'; a hang is re-run once"]
ASSUMPTIONS = ["model totality by construction (Lean functions are total; loops carry fuel; a loop that runs out of fuel is `unmodelled` and is decided "
               "by the 5 s guard on the real code); C05_error_classes / C05_never_foreign hold for the whole modelled description language, "
               "C05_no_invention / C05_truncated_rejected for the atomic tier — the composite tier of 'no invented values' is decided by the "
               "direct oracle (static layouts, re-encoding criterion) and the correspondence with `(decode …)` of drv_codec",
               "'the library's decode error' = DecodeError and its subclass DecodeMismatch; a plain OdxError or EncodeError escaping from decode is a violation",
               "trailing bytes behind the last described object may be ignored by a Request/Response/Structure decode (the statement does not forbid it)",
               "descriptions are well-formed (odxgen envelope): field items have positive length except in the corpus witnesses; a CODED-CONST of an "
               "integer type wider than 64 bits is ill-formed (odxtools can never encode it: every coded_const_prefix(), hence every "
               "DiagService.decode_message, raises EncodeError) and is not generated -- integer *value* objects and RESERVED areas wider than 64 bits are "
               "(decoding them raises the decode error)",
               "compu methods are well-formed (compudop_lib.well_formed): scales carry their coefficients / constants, a limit without value is "
               "INFINITE, a constant COMPU-DENOMINATOR is not 0; a denominator *polynomial* may vanish at coded values inside the limits of its "
               "scale (e.g. rpm = 60000 / period without a lower limit) -- such a coded value has to be rejected with the decode error; a DTC-DOP "
               "may use any numeric compu method with an unsigned coded type and physical type A_UINT32",
               "OdxWarnings/DecodeError *warnings* (coded constant mismatch) are not exceptions",
               "lenient mode (strict_mode = False) is meant to complete damaged PDUs with substitute values: there only 'terminates' and 'no other "
               "exception type escapes' are evaluated; PARAM-LENGTH-INFO objects of a float base type are not generated (a key other than 32/64 "
               "is reported as a plain OdxError, classified as ill-formed description)"]

logging.getLogger("odxtools").setLevel(logging.CRITICAL)
DEC_OK = ("ok", "decode", "mismatch")


def canon05(reply: str) -> str:
    reply = reply.strip()
    if reply.startswith("(err "):
        if "foreign" in reply:
            return "(err foreign)"
        return "(err decodeerror)" if ("decode" in reply or "mismatch" in reply) else "(err other-odxerror)"
    return reply


# ------------------------------------------------------------------ oracle on one (description, bytes)
def required_length(comp):
    """number of bytes a PDU must have so that every described object of a *static* layout exists (None = dynamic)"""
    try:
        if G.params_extent(comp.params) is None:
            return None
        sl, length = refpdu.slots(comp)
    except Exception:  # noqa
        return None
    return max([s.pos + s.nbytes for s in sl] or [0])


def has_padding(comp):
    """True if the re-encoding criterion is not applicable: padding bytes are claimed by the encoder (BYTE-SIZE, static field
    items) or an object may legitimately be ended by the end of the PDU and gets a terminator when re-encoded (MIN-MAX-LENGTH)"""
    if getattr(comp, "bytesize", None) is not None:
        return True
    for p, _ in D.walk_params(comp.params):
        for dct in [p.dct] + [d.dct for d in [p.dop] + ([r.dop for r in p.table.rows] if p.table else []) if isinstance(d, (D.SimpleDop, D.DtcDop))]:
            if isinstance(dct, D.MinMax):
                return True
        for d in [p.dop] + ([r.struct for r in p.table.rows] if p.table else []):
            if d is None:
                continue
            if isinstance(d, D.Struct) and d.bytesize is not None:
                return True
            if isinstance(d, D.StaticField):
                return True
            for _, st in D.sub_structs(d):
                if st.bytesize is not None:
                    return True
    return False


def last_claimed(used: bytes) -> int:
    n = len(used)
    while n > 0 and used[n - 1] == 0:
        n -= 1
    return n


def decode_in_mode(obj, msg, strict=True):
    """O.impl_decode under odxtools.exceptions.strict_mode = strict (restored afterwards)"""
    if strict:
        return O.impl_decode(obj, msg)
    import odxtools.exceptions as E
    old = getattr(E, "strict_mode", True)
    E.strict_mode = False
    try:
        return O.impl_decode(obj, msg)
    finally:
        E.strict_mode = old


def c05_eval(comp, obj, msg, need=None, trig=None, padding=True, check_invention=True, strict=True):
    """(failure | None, dec); failure = (clause, observed, detail).  strict=False: the same byte string decoded in lenient mode
    (odxtools.exceptions.strict_mode = False): termination and 'no other exception type escapes' only -- lenient mode is
    *meant* to complete damaged PDUs with substitute values, so the two rejection clauses are evaluated in strict mode"""
    dec = decode_in_mode(obj, msg, strict)
    if dec.status == "hang":
        dec = decode_in_mode(obj, msg, strict)          # rule out machine load
        if dec.status == "hang":
            return ("terminates", "hang", {"error": dec.msg}), dec
    if dec.status not in DEC_OK:
        return ("only-decode-errors", dec.status, {"error": dec.msg}), dec
    if not strict:
        return None, dec
    if dec.ok:
        if need is not None and len(msg) < need:
            return ("truncated-pdu-rejected", "accepted", {"required_bytes": need, "length": len(msg), "decoded": V.jsonable(dec.value)}), dec
        if check_invention and not padding and isinstance(dec.value, dict):
            try:
                enc = O.impl_encode(obj, O.strip_for_reencode(comp.params, dec.value), trig)
            except Exception:  # noqa
                enc = None
            if enc is not None and enc.ok and not enc.warns and last_claimed(enc.used) > len(msg):
                return ("no-invented-values", "re-encoding-needs-more-bytes",
                        {"length": len(msg), "reencoded": enc.pdu.hex(), "claimed_bytes": last_claimed(enc.used), "decoded": V.jsonable(dec.value)}), dec
    return None, dec


def slot_need(comp):
    """bytes a PDU must have: the end of the last described object of a static layout, resp. of the static *prefix* of a layout
    that ends in objects which tolerate an exhausted PDU (round 6: c05_lib.static_prefix_need)"""
    try:
        return C5.static_prefix_need(comp)[0]
    except Exception:  # noqa
        return None


def c05_failing(clause, observed, maxlen=2, strict=True):
    """shrinker predicate: some byte string reproduces (clause, observed) on the candidate description"""
    def f(cand):
        L, err = O.safe_load(cand)
        if L is None:
            return None
        obj = L[cand.name]
        rng = random.Random(0)
        own, trigs = own_encodings(rng, cand, obj, 2)
        need = slot_need(cand)
        pad = has_padding(cand)
        alpha = sorted(set(M.BASE_ALPHABET + M.constants_of(cand)))[:8]
        for fam, b, k in M.byte_strings(rng, own, alpha, maxlen=maxlen, n_random=12, n_mut=8):
            r, dec = c05_eval(cand, obj, b, need, trigs[k] if k is not None else None, pad, check_invention=k is not None, strict=strict)
            if r and r[0] == clause and r[1] == observed:
                return ({"pdu": b.hex(), "strict": strict}, None, (r[0], r[1], {**r[2], "pdu": b.hex(), "family": fam, "strict": strict}))
        return None
    return f


def own_encodings(rng, comp, obj, n):
    own, trigs = [], []
    for _ in range(n):
        try:
            v, t = V.gen_value(rng, comp), V.gen_trigger(rng, comp)
        except Exception:  # noqa
            continue
        enc = O.impl_encode(obj, v, t)
        if enc.ok and not enc.warns:
            own.append(enc.pdu)
            trigs.append(t)
    return own, trigs


class Run:
    def __init__(self, ctx):
        self.ctx = ctx
        self.rep = O.Reporter(ctx, max_shrinks=8)
        M.guarded(ctx)
        self.corr = M.CoarseCorrespondence(ctx, canon=canon05)
        self._sx = {}
        self._dg = {}

    def digest(self, comp):
        """short identification of a description (for the distinctness count of the entry-point cases)"""
        import hashlib
        d = self._dg.get(id(comp))
        if d is None or d[0] is not comp:
            if len(self._dg) > 256:
                self._dg.clear()
            d = self._dg[id(comp)] = (comp, hashlib.blake2b(self.sx(comp)[0].encode(), digest_size=8).hexdigest())
        return d[1]

    def sx(self, comp):
        """(s-expression of the description, is it sent to the model) -- computed once per description object (a description is
        decoded at hundreds of byte strings; it is never changed in place)"""
        e = self._sx.get(id(comp))
        if e is None or e[0] is not comp:
            if len(self._sx) > 256:
                self._sx.clear()
            s = sexp.composite(comp)
            e = self._sx[id(comp)] = (comp, s, "(other)" not in s)
        return e[1], e[2]

    def entry_points(self, comp, obj, entries, msg, family, need, fixed_features=None, what=None, lenient=True):
        """the same byte string at the public entry points of the document (Request/Response.decode, DiagService.decode_message,
        DiagLayer.decode, DiagLayer.decode_response): termination, exception class, rejection of a PDU that ends inside the
        static prefix; lenient mode: termination and exception class"""
        ctx = self.ctx
        key = self.digest(comp)
        msg = bytes(msg)
        try:
            import odxtools.exceptions as E
        except Exception:  # noqa
            return
        old = getattr(E, "strict_mode", True)
        try:
            for strict in ((True, False) if lenient else (True,)):
                E.strict_mode = strict
                for entry, f, extra in entries:
                    r, st = C5.entry_eval(entry, f, extra, obj, msg, need if strict else None)
                    ctx.case((key, msg, entry, strict), nontrivial=family != "own")
                    ctx.histo("entry_point", entry)
                    ctx.histo("entry_outcome" if strict else "entry_outcome_lenient", st.split(":")[0])
                    if r:
                        E.strict_mode = old
                        # (the entry point is part of the witness, not of the signature: one kind of failure usually shows at all of them)
                        ff = (list(fixed_features) if fixed_features is not None else O.narrow_features(comp) + ["entry:" + entry]) + ([] if strict else ["lenient"])
                        self.rep.report(r[0], r[1], comp, {"pdu": msg.hex(), "strict": strict}, None,
                                        {**r[2], "pdu": msg.hex(), "family": family, "entry": entry, "strict": strict}, fixed_features=ff,
                                        what=(what or f"{r[0]}: {r[1]} when decoding {msg.hex() or '-'} ({family})") + f" through {entry}"
                                        + ("" if strict else " in lenient mode (strict_mode = False)"))
                        E.strict_mode = strict
        finally:
            E.strict_mode = old

    def case(self, comp, obj, msg, family, need=None, trig=None, padding=True, invention=True, fixed_features=None, what=None, shrink=True, corr=True,
             lenient=True, entries=None, entries_lenient=None):
        ctx = self.ctx
        if entries:
            self.entry_points(comp, obj, entries, msg, family, need, fixed_features, what, lenient if entries_lenient is None else entries_lenient)
        r, dec = c05_eval(comp, obj, msg, need, trig, padding, invention)
        sx, modelled = self.sx(comp)
        ctx.case((sx, bytes(msg)), nontrivial=family != "own")
        ctx.histo("bytes_family", family)
        ctx.histo("outcome", dec.status.split(":")[0])
        ctx.histo("length", len(msg) if len(msg) < 8 else "8+")
        if corr and modelled:
            # = sexp.decode_line(comp, msg), with the description's text taken from the cache
            self.corr.add(family, None, f"(decode {sx} {sexp.hx(msg)} (strict {sexp._b(True)}))", O.reply_decode(dec) if dec.status != "hang" else "(err foreign)")
        elif corr and self.corr.enabled:
            ctx.count("corr_not_forwarded(other-compu)")
        if r:
            self.rep.report(r[0], r[1], comp, {"pdu": bytes(msg).hex()}, None, {**r[2], "pdu": bytes(msg).hex(), "family": family},
                            failing=c05_failing(r[0], r[1]) if shrink else None, fixed_features=fixed_features,
                            what=what or f"{r[0]}: {r[1]} when decoding {bytes(msg).hex() or '-'} ({family})")
        if lenient:
            # the same byte string in lenient mode: "no other exception type escapes" holds for every mode of the library
            r2, dec2 = c05_eval(comp, obj, msg, strict=False)
            ctx.case((sx, bytes(msg), "lenient"), nontrivial=family != "own")
            ctx.histo("outcome_lenient", dec2.status.split(":")[0])
            if r2:
                ff = None if fixed_features is None else list(fixed_features) + ["lenient"]
                self.rep.report(r2[0], r2[1], comp, {"pdu": bytes(msg).hex(), "strict": False}, None,
                                {**r2[2], "pdu": bytes(msg).hex(), "family": family, "strict": False},
                                failing=c05_failing(r2[0], r2[1], strict=False) if shrink else None, fixed_features=ff, extra_features=["lenient"],
                                what=(what or f"{r2[0]}: {r2[1]} when decoding {bytes(msg).hex() or '-'} ({family})") + " in lenient mode (strict_mode = False)")
        return r, dec


# ------------------------------------------------------------------ corpus
def rq(*params, name="RQ", kind="request"):
    return D.Composite(name, kind, [D.sid()] + list(params))


def corpus():
    """(tag, composite, [byte strings], signature features)"""
    val, u8 = D.value, D.u8
    out = []
    out.append(("invalid-utf8", rq(val("s", D.SimpleDop(D.Std("A_UTF8STRING", 16), "A_UTF8STRING"))), ["22fffe", "22c328", "22ff"], ["undecodable-string"]))
    out.append(("invalid-utf16", rq(val("s", D.SimpleDop(D.Std("A_UNICODE2STRING", 16), "A_UNICODE2STRING"))), ["22d800", "2200d8", "22dc00"], ["undecodable-string"]))
    out.append(("eop-field-empty-item", rq(val("f", D.EopField(D.Struct([])))), ["2201", "22", "220102"], ["eop-field", "item-consumes-nothing"]))
    out.append(("end-marker-field-empty-item", rq(val("f", D.EndMarkerField(255, u8(), D.Struct([]))), val("y", u8())), ["2201", "22ff01", "22"],
                ["end-marker-field", "item-consumes-nothing"]))
    tt = D.SimpleDop(D.Std("A_UINT32", 8), "A_UNICODE2STRING", D.TextTable([(0, 0, "off"), (1, 1, "on")]))
    out.append(("texttable-unknown-value", rq(val("b", tt)), ["22ff", "2202", "2200"], ["could-not-convert"]))
    lin = D.SimpleDop(D.Std("A_UINT32", 8), "A_UINT32", D.Linear(0, 1, 1, (4, "CLOSED"), (14, "CLOSED")))
    out.append(("linear-outside-limits", rq(val("x", lin)), ["2200", "22ff", "2204"], ["could-not-convert"]))
    k32 = D.SimpleDop(D.Std("A_INT32", 8), "A_INT32")
    out.append(("negative-length-key", rq(D.length_key("k", k32), val("x", D.SimpleDop(D.ParamLen("A_BYTEFIELD", "k"), "A_BYTEFIELD")), val("y", u8())),
                ["22f80102", "22ff", "2280"], ["paramlen", "negative-length"]))
    out.append(("length-key-int-over-64", rq(D.length_key("k", u8()), val("x", D.SimpleDop(D.ParamLen("A_UINT32", "k"), "A_UINT32")), val("y", u8())),
                ["2248" + "00" * 10, "22ff" + "00" * 40, "2241" + "00" * 10], ["paramlen", "int-over-64-bits"]))
    out.append(("length-key-partial-bytes", rq(D.length_key("k", u8()), val("x", D.SimpleDop(D.ParamLen("A_BYTEFIELD", "k"), "A_BYTEFIELD")), val("y", u8())),
                ["220c010203", "2201ff00", "2207ffff"], ["paramlen", "raw-not-multiple-of-8"]))
    out.append(("length-key-partial-string", rq(D.length_key("k", u8()), val("x", D.SimpleDop(D.ParamLen("A_UTF8STRING", "k"), "A_UTF8STRING")), val("y", u8())),
                ["220c616263", "2203610000"], ["paramlen", "raw-not-multiple-of-8"]))
    t = D.Table(u8(), [D.TableRow("r1", 1, struct=D.Struct([val("a", u8())])), D.TableRow("r2", 2, dop=u8(16))])
    out.append(("table-unknown-key", rq(D.table_key("tk", t), D.table_struct("ts", "tk")), ["2203", "220300", "22ff0000", "2202"], ["table-key", "unknown-key"]))
    mux = D.Mux(1, 0, None, u8(), [D.MuxCase("c1", 1, 1, D.Struct([val("a", u8())]))])
    out.append(("mux-no-case", rq(val("m", mux)), ["2200", "2202ff", "22ff"], ["mux", "no-applicable-case"]))
    dl = D.DynLenField(1, 0, None, u8(), D.Struct([val("a", u8(16))]))
    out.append(("dyn-length-huge-count", rq(val("f", dl)), ["22ff", "22ff0001", "2280" + "00" * 8], ["dyn-length-field", "count-beyond-pdu"]))
    for bt in ("A_UINT32", "A_BYTEFIELD"):
        # well-formed condensed BIT-MASKs (all mask bits inside BIT-LENGTH) decode; a mask wider than the object is a malformed
        # description (e.g. 8 bit, mask 0x180: OverflowError in __unapply_mask) and outside the envelope, see design_notes/C05.md
        cm = D.SimpleDop(D.Std(bt, 16, None, None, mask=0x0F0F, condensed=True), bt)
        out.append((f"condensed-bit-mask-{bt}", rq(val("c", cm), val("y", u8())), ["22030405", "22ffff05", "2203", "22"], ["condensed-bit-mask"]))
    # reported by an independent agent, confirmed: float internal type, integer physical type, NaN/Inf bit patterns
    for bt, n, pats in (("A_FLOAT32", 32, ["7fc00000", "7f800000", "ff800000", "3f800000", "7f7fffff", "00000001"]),
                        ("A_FLOAT64", 64, ["7ff8000000000000", "7ff0000000000000", "fff0000000000000", "7fefffffffffffff", "3ff0000000000000"])):
        for phys, cm in (("A_INT32", D.Linear(0, 1, 1)), ("A_UINT32", D.Linear(0, 2, 1)), ("A_INT32", D.Linear(1, 3, 2, (0, "CLOSED"), (100, "CLOSED")))):
            fl = D.SimpleDop(D.Std(bt, n), phys, cm)
            out.append((f"float-internal-int-physical-{bt}-{phys}-{cm.num1}", rq(val("x", fl), val("y", u8())), ["22" + x + "01" for x in pats] + ["22" + pats[0]],
                        ["float-internal", "non-finite"]))
    # and a counted field whose items consume nothing: the count comes from the PDU
    dl0 = D.DynLenField(4, 0, None, u8(32), D.Struct([]))
    out.append(("dyn-length-field-empty-item", rq(val("f", dl0)), ["22ffffffff", "2200100000", "2200000003", "2200000000", "22000000"],
                ["dyn-length-field", "item-consumes-nothing"]))
    # a coded value at which the compu method is not defined: the zero of the denominator of a rational function, inside the
    # limits of its scale (round 5; in a DATA-OBJECT-PROP and in a DTC-DOP -- the latter was a defect: ZeroDivisionError)
    inv = {"cat": "RAT-FUNC", "ity": "A_UINT32", "pty": "A_UINT32", "p2i": None,
           "i2p": {"scales": [{"lo": None, "hi": None, "num": [["i", 60000]], "den": [["i", 0], ["i", 1]]}], "default": None}}
    for context in ("param", "dtc-dop"):
        c, _info = CD.composite_of(inv, "RQ", context, width=16)
        out.append((f"ratfunc-pole-{context}", c, ["22000001", "22000101", "2200ff01", "220000", "22"], ["compu-dop", "context:" + context]))
    lead = D.SimpleDop(D.Leading("A_BYTEFIELD", 16), "A_BYTEFIELD")
    out.append(("leading-length-beyond-pdu", rq(val("b", lead)), ["22ffff", "22ffff00", "220001"], ["leading", "length-beyond-pdu"]))
    return out


# ------------------------------------------------------------------ somersault
def guarded_call(f, *a, timeout=5):
    old = signal.signal(signal.SIGALRM, O._alarm)
    signal.alarm(timeout)
    try:
        with warnings.catch_warnings():
            warnings.simplefilter("ignore")
            f(*a)
        return "ok", ""
    except O.Hang:
        return "hang", ""
    except Exception as e:  # noqa
        return O.err_class(e), str(e)[:160]
    finally:
        signal.alarm(0)
        signal.signal(signal.SIGALRM, old)


def sample_value(rng, dop):
    """a plausible physical value for a parameter of the example database (None = cannot guess)"""
    try:
        from odxtools.dataobjectproperty import DataObjectProperty
        if not isinstance(dop, DataObjectProperty):
            return None
        cm = dop.compu_method
        scales = getattr(getattr(cm, "compu_internal_to_phys", None), "compu_scales", None) or []
        texts = [s.compu_const.vt for s in scales if s.compu_const is not None and s.compu_const.vt is not None]
        if texts:
            return rng.choice(texts)
        pt = dop.physical_type.base_data_type.value
        if pt in ("A_INT32", "A_UINT32"):
            return rng.choice([0, 1, 2, 3, 10, 100])
        if pt in ("A_FLOAT32", "A_FLOAT64"):
            return rng.choice([0.0, 1.0, 2.5])
        if pt == "A_BYTEFIELD":
            return bytes(rng.getrandbits(8) for _ in range(rng.randint(0, 3)))
        return rng.choice(["", "a", "abc"])
    except Exception:  # noqa
        return None


def somersault_own(rng, dl):
    """own encodings of the layer's requests and responses: (pdu, request pdu or None)"""
    out = []
    for s in dl.services:
        rq_pdu = None
        try:
            if s.request is None:
                continue
            for _ in range(3):
                kw = {}
                for p in s.request.free_parameters:
                    v = sample_value(rng, getattr(p, "dop", None))
                    if v is not None:
                        kw[p.short_name] = v
                st, _m = guarded_call(lambda: out.append((bytes(s.request.encode(**kw)), None)))
                if st == "ok":
                    rq_pdu = out[-1][0]
                    break
            if rq_pdu is None:
                rq_pdu = bytes(s.request.coded_const_prefix())
                out.append((rq_pdu, None))
            for r in list(s.positive_responses) + list(s.negative_responses):
                for _ in range(3):
                    kw = {}
                    for p in r.free_parameters:
                        v = sample_value(rng, getattr(p, "dop", None))
                        if v is not None:
                            kw[p.short_name] = v
                    st, _m = guarded_call(lambda: out.append((bytes(r.encode(coded_request=rq_pdu, **kw)), rq_pdu)))
                    if st == "ok":
                        break
                else:
                    out.append((bytes(r.coded_const_prefix(request_prefix=rq_pdu)), rq_pdu))
        except Exception:  # noqa
            continue
    return out


def somersault_family(ctx, big):
    try:
        import odxtools
        with warnings.catch_warnings():
            warnings.simplefilter("ignore")
            db = odxtools.load_pdx_file(str(common.REPO / "examples" / "somersault.pdx"))
    except Exception as e:  # noqa
        ctx.violate("loads", ["somersault"], O.err_class(e), {"file": "examples/somersault.pdx"}, f"the shipped example database does not load: {e!r}"[:300])
        return
    rng = ctx.sub_rng("somersault")
    seen_sig = set()

    def check(layer, entry, name, f, args, msg):
        st, m = guarded_call(f, *args)
        if st == "hang":
            st, m = guarded_call(f, *args)
        ctx.case((layer, entry, name, bytes(msg)), nontrivial=True)
        ctx.histo("somersault_entry", entry)
        ctx.histo("somersault_outcome", st.split(":")[0])
        if st not in DEC_OK:
            clause = "terminates" if st == "hang" else "only-decode-errors"
            sig = (clause, st, entry)
            if sig in seen_sig:
                ctx.count(f"violations_duplicate[{clause}/{st}]")
                return
            seen_sig.add(sig)
            ctx.violate(clause, ["somersault", entry], st, {"database": "examples/somersault.pdx", "layer": layer, "entry": entry, "object": name,
                                                            "pdu": bytes(msg).hex(), "request": args[1].hex() if len(args) > 1 else None, "error": m},
                        f"{layer}.{name} ({entry}) on {bytes(msg).hex() or '-'}: {st} {m}")

    for dl in db.diag_layers:
        own = somersault_own(rng, dl)
        pdus = sorted({p for p, _ in own})
        consts = set()
        for p in pdus:
            consts |= set(p[:3])
        alpha = sorted(set(M.BASE_ALPHABET) | consts)[:14 if big else 10]
        strs = [b for _, b, _ in M.byte_strings(rng, pdus, alpha, maxlen=3 if big else 2, n_random=600 if big else 120, n_mut=12,
                                                small_cap=6000 if big else 400)]
        ctx.histo("somersault_layer_strings", dl.short_name, len(strs))
        requests = sorted({r for _, r in own if r is not None} | {b"", b"\x22", b"\xff"})
        for b in strs:
            check(dl.short_name, "DiagLayer.decode", "decode", dl.decode, (b,), b)
            rqs = requests if big else [rng.choice(requests)]
            for r in rqs[:6]:
                check(dl.short_name, "DiagLayer.decode_response", "decode_response", dl.decode_response, (b, r), b)
        sub = strs if big else rng.sample(strs, min(len(strs), 160))
        for s in dl.services:
            objs = [("DiagService.decode_message", s.short_name, s.decode_message)]
            if s.request is not None:
                objs.append(("Request.decode", s.request.short_name, s.request.decode))
            for r in list(s.positive_responses) + list(s.negative_responses):
                objs.append(("Response.decode", r.short_name, r.decode))
            mine = sub if big else rng.sample(sub, min(len(sub), 60))
            for b in mine:
                for entry, name, f in objs:
                    check(dl.short_name, entry, name, f, (b,), b)
        for gnr in getattr(dl, "global_negative_responses", []):
            for b in sub[:200]:
                check(dl.short_name, "Response.decode", gnr.short_name, gnr.decode, (b,), b)


# ------------------------------------------------------------------ DOPs behind every compu category
def compu_dop_family(run_, ctx, big):
    """a DOP whose compu method is of any of the eight categories (compudop_lib: the enumerated small scope of rational functions
    with their poles placed against the scale limits + compu_lib's generators), inside a request / response / structure /
    end-of-PDU field / DTC-DOP, decoded at every coded value that matters for the description: each zero of a denominator,
    each scale limit, their neighbours, the extremes of the coded type, the non-finite float patterns -- and the truncations
    of such PDUs.  Strict and lenient mode; direct oracle only (the codec model calls these compu methods `(other)`)."""
    rng = ctx.sub_rng("compu-dop")
    work = [("enum-compu-pole", d) for d in CD.pole_descs()]
    ctx.count("compu_dop_pole_descriptions_enumerated", len(work))
    if not big:
        # (a DTC-DOP needs an unsigned coded type and the physical type A_UINT32, 1/16 of the family: keep its share)
        cap = [w for w in work if CD.dtc_capable(w[1])]
        work = rng.sample(cap, 32) + rng.sample([w for w in work if not CD.dtc_capable(w[1])], 128)
    n_random, k = (1200 if big else 160), 0
    while n_random > 0 and k < 20000:
        cat = CD.RANDOM_CATEGORIES[k % len(CD.RANDOM_CATEGORIES)]
        k += 1
        d = CD.random_desc(rng, cat, rng.choice(CD.NUM_TYPES), rng.choice(CD.NUM_TYPES))
        if d is None:
            ctx.count("compu_dop_draws_not_well_formed")
            continue
        work.append(("compu-dop-random", d))
        n_random -= 1
    full_window = set(rng.sample(range(len(work)), 240)) if big else set()      # decoded at all 256 values of an 8-bit coded type
    items = []
    for i, (family, d) in enumerate(work):
        context = "dtc-dop" if CD.dtc_capable(d) and i % 3 != 2 else CD.CONTEXTS[i % 4]
        comp, info = CD.composite_of(d, f"K{i}", context, width=8 if i % 3 else 16, hl=None if i % 2 else False)
        items.append((family, d, comp, info, i, False))
    # LINEAR with COMPU-DENOMINATOR 0 (every coded value is a pole) in every context: followed by the codec model, so also compared
    zd = [(d, lin, c) for d, lin in CD.zero_denominator_descs() for c in CD.CONTEXTS]
    for n, (d, lin, context) in enumerate(zd if big else rng.sample(zd, 30)):
        i = len(work) + n
        comp, info = CD.composite_of(d, f"K{i}", context, width=8 if n % 2 else 16, compu=lin)
        items.append(("enum-linear-zero-denominator", d, comp, info, i, True))
    for j in range(0, len(items), 32):
        chunk = items[j:j + 32]
        L, err = O.safe_load([c for _, _, c, _, _, _ in chunk])
        loaded = {}
        if L is not None:
            loaded = {c.name: L[c.name] for _, _, c, _, _, _ in chunk}
        else:
            for _, _, c, _, _, _ in chunk:          # one description the loader rejects must not hide the others
                L1, err1 = O.safe_load(c)
                if L1 is None:
                    ctx.count("documents_rejected_by_loader")
                    ctx.histo("compu_dop_rejected", err1[:60])
                else:
                    loaded[c.name] = L1[c.name]
        for family, d, comp, info, i, followed in chunk:
            obj = loaded.get(comp.name)
            if obj is None:
                continue
            ctx.count("documents_loaded")
            ctx.histo("family", family)
            ctx.histo("compu_dop_category", d["cat"])
            ctx.histo("compu_dop_context", info["context"])
            ctx.histo("compu_dop_types", f"{d['ity']}->{d['pty']}")
            need = slot_need(comp)
            feats = ["compu-dop", "context:" + info["context"]]
            for fam, b in CD.byte_strings(rng, d, info, i in full_window):
                ctx.histo("compu_dop_bytes", fam)
                run_.case(comp, obj, b, fam, need, None, True, invention=False, fixed_features=feats, shrink=False, corr=followed,
                          lenient=big or fam.startswith("coded-"),
                          what=f"{family}: DOP behind a {d['cat']} compu method ({d.get('family') or 'generated'}; {d['ity']} -> {d['pty']}, "
                               f"{info['context']}) on {b.hex() or '-'} ({fam})")
        if j % 256 == 224:
            run_.corr.flush()
    run_.corr.flush()


# ------------------------------------------------------------------ round 6: enumerated small scopes (c05_lib)
def load_alone(ctx, comp):
    """one document per description: its layer has exactly the service of this coding object"""
    L, err = O.safe_load(comp)
    if L is None:
        ctx.count("documents_rejected_by_loader")
        ctx.histo("rejected_by_loader", (err or "")[:60])
        return None, None, []
    ctx.count("documents_loaded")
    return L, L[comp.name], C5.public_entries(L, comp)


def wide_family(run_, ctx, big):
    """enum-wide-objects: objects of a size fixed by the description, 1 ... 520 bits wide (the extraction routine handles integers
    up to 64 bits; everything wider takes another path), at bit positions 0 / 3 / 7, as the last object, in front of objects that
    tolerate an exhausted PDU, inside structures and field items. Byte strings: complete PDUs written by hand (random / ff / 00
    content) and the library's own encodings, EVERY proper prefix of them (static prefix: must be rejected), mutations,
    extensions. Strict and lenient mode, decode_from_pdu (compared with the model) and the public entry points."""
    rng = ctx.sub_rng("wide-objects")
    n = 0
    for comp, info in C5.enum_wide(None if big else rng):
        n += 1
        if big and n % 3 != ctx.seed % 3 and not (info["width"] in (64, 65, 72) and info["placement"] in ("last", "then-eop-field", "then-eop-bytes")):
            continue        # thorough: a third of the cross product per seed; the boundary widths in the tolerant placements always
        L, obj, entries = load_alone(ctx, comp)
        if L is None:
            continue
        O.record_features(ctx, comp)
        ctx.histo("family", "enum-wide-objects")
        ctx.histo("wide_kind", info["kind"])
        ctx.histo("wide_width", info["width"])
        ctx.histo("wide_placement", info["placement"])
        need = slot_need(comp)
        own, trigs = own_encodings(rng, comp, obj, 1)
        hand = C5.wide_pdus(rng, comp, info, need)
        feats = ["wide-object", "kind:" + info["kind"], "width" + ("<=64" if info["width"] <= 64 else ">64")]
        what = f"enum-wide-objects: {info['kind']} of {info['width']} bits at bit position {info['bitpos']} ({info['placement']})"
        strs = list(M.byte_strings(rng, own + hand[:1], M.BASE_ALPHABET + [0x22], maxlen=1, n_random=4, n_mut=6))
        for h in hand[1:]:
            strs += [("prefix", h[:k], None) for k in sorted({0, 1, 2, len(h) // 2, len(h) - 9, len(h) - 8, len(h) - 3, len(h) - 2, len(h) - 1}) if 0 <= k < len(h)]
            strs.append(("hand", h, None))
        seen = set()
        for fam, b, k in strs:
            if (fam, b) in seen:
                continue
            seen.add((fam, b))
            core = big or fam in ("own", "prefix", "hand")
            # all entry points for the complete PDUs and the prefixes that end in the last 9 bytes; the coding object's decode() and the
            # layer for the shorter prefixes (thorough: also for mutations, extensions, small and random strings)
            ents = entries if fam in ("own", "hand") or (fam == "prefix" and len(b) >= (need or 0) - 9) else [e for e in entries if e[0] in C5.LITE_ENTRIES]
            run_.case(comp, obj, b, fam, need, None, True, invention=False, fixed_features=feats, shrink=False, what=what + f" on {b.hex() or '-'} ({fam})",
                      corr=True, lenient=core, entries=ents if core else None, entries_lenient=fam in ("own", "hand"))
        if n % 40 == 0:
            run_.corr.flush()
    run_.corr.flush()


def table_key_family(run_, ctx, big):
    """enum-table-key-dops: a TABLE behind every kind of KEY-DOP (18) in every arrangement of TABLE-KEY / TABLE-STRUCT (7); PDUs
    whose key is a row's key, a valid value of the KEY-DOP without a row, the key of two rows, no value of the KEY-DOP at all;
    their prefixes and single-byte mutations (every position). The model does not follow tables: direct oracle only."""
    rng = ctx.sub_rng("table-key-dops")
    for comp, info in C5.enum_table_keys():
        L, obj, entries = load_alone(ctx, comp)
        if L is None:
            continue
        O.record_features(ctx, comp)
        ctx.histo("family", "enum-table-key-dops")
        ctx.histo("table_key_dop", info["key-dop"])
        ctx.histo("table_key_shape", info["shape"])
        need = slot_need(comp)
        own, trigs = own_encodings(rng, comp, obj, 3)
        hand = [p for _w, p in info["pdus"]]
        for w, _p in info["pdus"]:
            ctx.histo("table_key_on_the_wire", w)
        feats = ["table-key", "key-dop:" + info["key-dop"]]
        for fam, b in C5.key_strings(rng, hand, own, [w for w, _p in info["pdus"]]):
            # quick: all entry points for the PDUs and their prefixes, the coding object's decode() and the layer for the mutations
            ents = entries if big or fam in ("hand", "own", "prefix") else [e for e in entries if e[0] in C5.LITE_ENTRIES] if fam == "mutation" else None
            run_.case(comp, obj, b, fam, need, None, True, invention=False, fixed_features=feats, shrink=False, corr=False,
                      what=f"enum-table-key-dops: KEY-DOP {info['key-dop']}, {info['shape']} on {b.hex() or '-'} ({fam})",
                      lenient=True, entries=ents, entries_lenient=big or fam in ("hand", "own"))


def env_data_family(run_, ctx, big):
    """enum-env-data-descs (round 7): an ENV-DATA-DESC behind every kind of DTC parameter (14) x every arrangement of ENV-DATAs (5) x
    7 placements; PDUs whose DTC is 0, 1, a code with / without environment data of its own, the largest code, a code unknown to
    the DTC-DOP (resp. the constant / not the constant). The number of bytes the description describes for each hand-written PDU
    follows from the selected ENV-DATAs: every proper prefix has to be rejected. The model does not follow ENV-DATA-DESCs:
    direct oracle only."""
    rng = ctx.sub_rng("env-data-descs")
    idx = 0
    for comp, info in C5.enum_env_data_descs(None if big else rng):
        idx += 1
        if big and info["placement"] != "direct" and idx % 3 != ctx.seed % 3:
            continue        # thorough: every (DTC parameter, ENV-DATAs) in the placement `direct` + a third of the other placements per seed
        L, obj, entries = load_alone(ctx, comp)
        if L is None:
            continue
        O.record_features(ctx, comp)
        ctx.histo("family", "enum-env-data-descs")
        ctx.histo("env_dtc_param", info["dtc-param"])
        ctx.histo("env_sets", info["envs"])
        ctx.histo("env_placement", info["placement"])
        static_need = slot_need(comp)
        own, trigs = own_encodings(rng, comp, obj, 2)
        hand = [p for _w, p, _n in info["pdus"]]
        needs = {}
        for w, p, n in info["pdus"]:
            ctx.histo("env_dtc_on_the_wire", w)
            for k in range(len(p) + 1):
                # (a prefix that belongs to several PDUs does not hold the whole DTC: the smallest claim is right for it)
                needs[p[:k]] = min(needs.get(p[:k], n or 0), n or 0)
        feats = ["env-data-desc", "dtc-param:" + info["dtc-param"]]
        for fam, b in C5.key_strings(rng, hand, own, [w for w, _p, _n in info["pdus"]]):
            need = max(needs.get(b, 0), static_need or 0) if fam in ("hand", "prefix") else static_need
            ents = entries if big or fam in ("hand", "own", "prefix") else [e for e in entries if e[0] in C5.LITE_ENTRIES] if fam == "mutation" else None
            run_.case(comp, obj, b, fam, need, None, True, invention=False, fixed_features=feats, shrink=False, corr=False,
                      what=f"enum-env-data-descs: DTC parameter {info['dtc-param']}, ENV-DATAs {info['envs']}, {info['placement']} on {b.hex() or '-'} ({fam})",
                      lenient=True, entries=ents, entries_lenient=big or fam in ("hand", "own"))


# ------------------------------------------------------------------ generated descriptions
def run_doc(run, comp, family, rng, big, lenient=True, with_entries=False):
    ctx = run.ctx
    L, err = O.safe_load(comp)
    if L is None:
        ctx.count("documents_rejected_by_loader")
        return
    ctx.count("documents_loaded")
    obj = L[comp.name]
    entries = C5.public_entries(L, comp) if with_entries else []
    lite = [e for e in entries if e[0] in C5.LITE_ENTRIES]
    if entries:
        ctx.count("documents_decoded_through_public_entry_points")
    O.record_features(ctx, comp)
    ctx.histo("family", family)
    own, trigs = own_encodings(rng, comp, obj, 3 if big else 2)
    need = slot_need(comp)
    pad = has_padding(comp)
    ctx.histo("layout", "static" if required_length(comp) is not None else "dynamic" if need is None else "dynamic-with-static-prefix")
    alpha = sorted(set(M.BASE_ALPHABET + M.constants_of(comp)))[:9 if big else 7]
    for fam, b, k in M.byte_strings(rng, own, alpha, maxlen=3 if big else 2, n_random=30 if big else 10, n_mut=16 if big else 8,
                                    small_cap=700 if big else None):
        # (round 6) a share of the documents also through their public entry points: every one for the own encodings, their prefixes,
        # deletions and extensions; the coding object's decode() and the layer for the mutations (thorough: also for the other strings)
        ents = entries if fam in ("own", "prefix", "deletion", "extension") else lite if fam == "mutation" or big else None
        run.case(comp, obj, b, fam, need, trigs[k] if k is not None else None, pad, invention=(k is not None and fam in ("own", "prefix", "mutation", "deletion")),
                 lenient=lenient, entries=ents, entries_lenient=lenient and fam == "own")


def run(ctx):
    big = ctx.tier == "thorough"
    rng = ctx.rng
    run_ = Run(ctx)
    import time
    clock = [time.time()]

    def phase(name):
        """seconds spent per family (evidence: histogram phase_seconds) -- the quick tier has a budget"""
        now = time.time()
        ctx.histo("phase_seconds", name, round(now - clock[0], 1))
        clock[0] = now
    # (a) corpus
    for tag, c, msgs, feats in corpus():
        L, err = O.safe_load(c)
        if L is None:
            ctx.violate("loads", [tag], err.split(":")[0], O.witness(c), f"corpus description {tag} is rejected by the loader: {err}")
            continue
        O.record_features(ctx, c)
        ctx.histo("family", "corpus")
        own, trigs = own_encodings(ctx.sub_rng("corpus", tag), c, L[c.name], 2)
        entries = C5.public_entries(L, c)
        for m in [bytes.fromhex(x) for x in msgs] + [p[:n] for p in own for n in range(len(p) + 1)]:
            run_.case(c, L[c.name], m, "corpus", None, None, True, False, fixed_features=feats, shrink=False,
                      what=f"corpus witness '{tag}' fails again on {m.hex() or '-'}", entries=entries)
    run_.corr.flush()
    phase("corpus")
    # (b) the shipped database
    somersault_family(ctx, big)
    phase("somersault")
    # (c) enumerated standard-length objects (static layouts: every truncation must be rejected)
    bitlens = sorted(set(V.BIAS_LENGTHS + [2, 12, 24, 48])) if not big else list(range(1, 65))
    comps = list(G.enum_std_numeric(bitlens, bitposs=(0, 5) if not big else (0, 3, 7))) + list(G.enum_std_other((0,)))
    if not big:
        comps = rng.sample(comps, 220)
    for i in range(0, len(comps), 48):
        chunk = comps[i:i + 48]
        L, err = O.safe_load(chunk)
        if L is None:
            ctx.count("documents_rejected_by_loader")
            continue
        for c in chunk:
            ctx.histo("family", "enum-std")
            own, trigs = own_encodings(rng, c, L[c.name], 1)
            need = slot_need(c)
            for fam, b, k in M.byte_strings(rng, own, M.BASE_ALPHABET + [0x22], maxlen=1, n_random=4, n_mut=4):
                run_.case(c, L[c.name], b, fam, need, None, False, invention=k is not None, shrink=False, corr=(fam in ("own", "prefix", "random") or big))
        run_.corr.flush()
    phase("enum-std")
    # (c') static fields whose items have an input-dependent size (an item can be larger than ITEM-BYTE-SIZE); length keys behind
    # every kind of DOP (identical, signed, LINEAR: the bit length may come out negative) used by PARAM-LENGTH-INFO objects
    comps, keys = list(G.enum_dynamic_static_fields()), list(G.enum_length_keys())
    if not big:
        comps, keys = rng.sample(comps, 60), rng.sample(keys, 60)
    for c in comps + keys:
        L, err = O.safe_load(c)
        if L is None:
            ctx.count("documents_rejected_by_loader")
            continue
        O.record_features(ctx, c)
        ctx.histo("family", "enum-dynamic-static-field" if c.name.startswith("F") else "enum-length-key")
        own, trigs = own_encodings(rng, c, L[c.name], 3)
        alpha = sorted(set(M.BASE_ALPHABET + [0x22, 0x02, 0x03, 0x05, 0x08, 0x10, 0x18]))
        for fam, b, k in M.byte_strings(rng, own, alpha, maxlen=2, n_random=12, n_mut=48, small_cap=60):
            run_.case(c, L[c.name], b, fam, None, None, True, invention=False)
    run_.corr.flush()
    phase("enum-dynamic-static-field+length-key")
    # (c'') DOPs behind every compu category (rational functions with poles, piecewise and interpolated functions, float objects)
    compu_dop_family(run_, ctx, big)
    phase("compu-dop")
    # (c3) round 6: objects of every width (beyond the 64 bits of the extraction routine), tables behind every kind of KEY-DOP
    wide_family(run_, ctx, big)
    phase("enum-wide-objects")
    table_key_family(run_, ctx, big)
    phase("enum-table-key-dops")
    # (c4) round 7: ENV-DATA-DESCs behind every kind of DTC parameter, every numerical DTC that matters (0, 1, with / without
    # environment data, the largest, unknown)
    env_data_family(run_, ctx, big)
    phase("enum-env-data-descs")
    # (d) random composites
    n_docs = 4100 if big else 960          # (round 7: 4200 -> 4100, 1000 -> 960: makes room for enum-env-data-descs)
    for i in range(n_docs):
        prof = (G.THOROUGH if big else G.QUICK) if i % 3 else (G.SIMPLE_DEEP if big else G.SIMPLE)
        try:
            c = G.gen_composite(rng, profile=prof, name="C", depth=rng.choice([0, 1, 1, 2, prof.max_depth]))
        except Exception as e:  # noqa
            ctx.count("generator_error:" + type(e).__name__)
            continue
        run_doc(run_, c, "random-" + prof.tier, rng, big, lenient=big or i % 2 == 0 or G.params_extent(c.params) is None and i % 4 != 1,
                with_entries=i % (10 if big else 5) == 2)
        if i % 60 == 59:
            run_.corr.flush()
    run_.corr.flush()
    phase("random")


def replay(ctx, data):
    w = data["witness"]
    if "database" in w:
        import odxtools
        with warnings.catch_warnings():
            warnings.simplefilter("ignore")
            db = odxtools.load_pdx_file(str(common.REPO / "examples" / "somersault.pdx"))
        dl = db.diag_layers[w["layer"]]
        msg = bytes.fromhex(w["pdu"])
        e = w["entry"]
        if e == "DiagLayer.decode":
            st, _ = guarded_call(dl.decode, msg)
        elif e == "DiagLayer.decode_response":
            st, _ = guarded_call(dl.decode_response, msg, bytes.fromhex(w.get("request") or ""))
        else:
            st = "ok"
            for s in dl.services:
                objs = {("DiagService.decode_message", s.short_name): s.decode_message}
                if s.request is not None:
                    objs[("Request.decode", s.request.short_name)] = s.request.decode
                for r in list(s.positive_responses) + list(s.negative_responses):
                    objs[("Response.decode", r.short_name)] = r.decode
                f = objs.get((e, w["object"]))
                if f is not None:
                    st, _ = guarded_call(f, msg)
                    if st not in DEC_OK:
                        break
        return st in DEC_OK
    c = D.from_json(w["desc"])
    L, err = O.safe_load(c)
    if L is None:
        return False
    msg = bytes.fromhex(w["pdu"]) if isinstance(w.get("pdu"), str) else bytes.fromhex(V.from_jsonable(w["value"])["pdu"])
    strict = w.get("strict", True) is not False and not (isinstance(w.get("value"), dict) and V.from_jsonable(w["value"]).get("strict") is False)
    if w.get("entry"):
        # a failing input observed at a public entry point of the generated document (round 6)
        import odxtools.exceptions as E
        old = getattr(E, "strict_mode", True)
        try:
            E.strict_mode = strict
            for entry, f, extra in C5.public_entries(L, c):
                if entry == w["entry"]:
                    r, _st = C5.entry_eval(entry, f, extra, L[c.name], msg, slot_need(c) if strict else None)
                    return r is None
        finally:
            E.strict_mode = old
        return False
    r, dec = c05_eval(c, L[c.name], msg, slot_need(c), None, has_padding(c), False, strict=strict)
    return r is None


# --- W19 (nested tier): truncated PDUs are rejected / nothing is invented, for every description of the model -------------------
LEAN_TARGETS = LEAN_TARGETS + ["OdxVerif.Props.C05Nested"]
THEOREMS = THEOREMS + ["OdxVerif.Codec." + t for t in [
    "C05_truncated_rejected_nested", "C05_no_invention_nested", "C05_truncated_rejected_site", "C05_nested_result_classes",
    "C05_jump_is_not_a_read", "C05_truncated_rejected_comps", "C05_truncated_rejected_described", "C05_truncated_rejected_described2",
    "C05_truncated_leaf_described",
    "C05_truncated_leaf_described_example", "Comps.reads_prefix", "Reads.rejected", "Reads.msg", "keeps_decode_all", "c5Req_reads"]]


# --- W24 (compu-method / DTC leaves in the nested tier: Described3) — appended
LEAN_TARGETS = LEAN_TARGETS + ["OdxVerif.Props.C05Nested3"]
THEOREMS = THEOREMS + ["OdxVerif.Codec." + t for t in [
    "C05_truncated_rejected_described3", "C05_truncated_compu_leaf", "C05_truncated_dtc_leaf", "Reads.ofConvValue", "Reads.ofDtcValue",
    "Described3.decOk"]]
