"""C08 — static descriptions of a message (static bit length, constant prefix, required / free parameters) agree
with its actual encoding."""
import codec_oracles as O
from odxgen import desc as D
from odxgen import gen as G
from odxgen import sexp
from odxgen import values as V

ID = "C08"
# LEAN_TARGETS / THEOREMS: filled in by the author of the Lean codec model (planned: OdxVerif.Props.C08 with
# C08_static_length, C08_prefix, C08_required, C08_free + the regenerated is_required/is_settable table)
LEAN_TARGETS = ['OdxVerif.Props.C08', 'OdxVerif.Props.C08Struct']
DRIVERS = ["drv_codec"]
THEOREMS = ["OdxVerif.Codec." + t for t in ['C08_static_length_partial', 'C08_required_omission_fails', 'C08_condensed_counterexample', 'C08_nested_cursor_counterexample', 'staticLen_encAll', 'encodeParams_missing',
                                             'C08_static_length_struct_partial', 'C08_static_value_struct', 'C08_required_struct_partial', 'C08_const_not_required_partial', 'C08_empty_struct_counterexample',
                                             'static_length_tree', 'Trees.enc_length', 'Trees.static_eq']]
RULE = ("well-formed descriptions (harness/odxgen/gen.py: corpus, every BYTE-SIZE structure size x offset, enumerated standard-length DOPs at every "
        "bit position, condensed/plain bit masks, random composites of the full envelope) x accepted value assignments: static length of the "
        "request/response/structure, of every parameter and every nested structure against stand-alone encodings; coded_const_prefix() against "
        "every PDU (responses with and without triggering request); all subsets of supplied parameters for composites with <= 5 suppliable "
        "parameters against required_parameters; two assignments differing in one parameter against free_parameters. "
        "distinct = distinct (description, value, trigger); non-trivial = a static length or a non-empty prefix exists or >= 2 subsets were evaluated")
TRUSTED = ["direct oracle harness/codec_oracles.py (c08_*): compares the static answers of odxtools with its own encodings",
           "value generation odxgen/values.py (validity of the assignments that are expected to be accepted)"]
ASSUMPTIONS = ["a static bit length n of a parameter is checked as: the parameter, encoded alone, advances the cursor by ceil((BIT-POSITION + n) / 8) bytes and "
               "(atomic, unmasked objects) claims exactly n bits of the used-mask; for requests/responses/structures as 8 * len(PDU) == n",
               "'required = exactly those whose omission fails': for every subset S of a full valid assignment, encode(S) succeeds iff S contains all "
               "required parameters (keys that are derived from their users count as non-required and omittable)",
               "'free = exactly those whose value the caller can set': two accepted assignments differing only in a free parameter give different PDUs "
               "(skipped, and counted, where only one value is acceptable: keys bound to a user, single-valued DOPs); a value supplied for a non-free "
               "parameter is either rejected or ignored",
               "SYSTEM parameters with a predefined SYSPARAM are generated with a DOP that can hold the implicit value (they are 'not required')"]


# --- tie of kind (1) (task W7): Gen/CodecStaticLen.lean is regenerated from composite_codec_get_static_bit_length of the current
# source by the Python->Lean translator and proved equal to the hand-written paramsStaticLen (Proofs/CodecStaticLenGenEq.lean)
LEAN_TARGETS = LEAN_TARGETS + ["OdxVerif.Props.C08Gen"]
THEOREMS = THEOREMS + ["OdxVerif.Codec." + t for t in ["gen_staticLen_eq", "gen_staticLen_struct", "C08_gen_static_length"]]
TRUSTED = TRUSTED + ["translator harness/extract/py2lean.py + primitives lean/OdxVerif/Model/PyRt.lean for composite_codec_get_static_bit_length "
                     "(Param.get_static_bit_length / byte_position / bit_position are an abstract record interface of the rendering)"]


def regen_static_len(ctx):
    """Unsupported (source left the translator's subset) = broken obligation"""
    import common
    from extract import py2lean
    py2lean.regenerate_staticlen(common.REPO, common.VERIF)


GENERATORS = list(globals().get("GENERATORS", [])) + [regen_static_len]


# --- tie of kind (1) (task W20): Gen/CodecRequired.lean is regenerated from the `is_required` properties of the seven parameter classes
# the codec model knows and from composite_codec_get_required_parameters, and proved equal to the hand-written PKind.required / its
# filter (Proofs/CodecRequiredGenEq.lean)
LEAN_TARGETS = LEAN_TARGETS + ["OdxVerif.Props.C08GenRequired"]
THEOREMS = THEOREMS + ["OdxVerif.Codec." + t for t in ["gen_isRequired_eq", "gen_required_eq", "gen_required_eq_all", "gen_required_raises",
                                                       "C08_gen_required", "C08_gen_required_omission_fails"]]
TRUSTED = TRUSTED + ["translator harness/extract/py2lean.py + primitives lean/OdxVerif/Model/PyRt.lean for <Class>.is_required (CodedConst, "
                     "PhysicalConstant, Value, Reserved, MatchingRequest, NrcConst, LengthKey) and composite_codec_get_required_parameters; "
                     "the dispatch of p.is_required on the class of p is the hand-written table Gen.isRequiredE (class <-> constructor of PKind; "
                     "classes outside the model are a parameter of the rendering); ValueParameter._physical_default_value = the default of PKind.value"]


def regen_required(ctx):
    """Gen/CodecRequired.lean from the current source; Unsupported (source left the translator's subset) = broken obligation"""
    import common
    from extract import py2lean
    py2lean.regenerate_required(common.REPO, common.VERIF)


GENERATORS = list(globals().get("GENERATORS", [])) + [regen_required]


def corpus():
    u8, val, C = D.u8, D.value, D.Composite
    out = []
    s1 = D.Struct([val("a", u8())], bytesize=3)
    out.append(("byte-size-struct-offset", C("RQ", "request", [D.sid(), val("x", u8()), val("s", s1), val("y", u8())]),
                {"x": 1, "s": {"a": 2}, "y": 3}, None, None))
    # ledger row 5: condensed bit mask - static length is the popcount, the encoder uses BIT-LENGTH (open known finding)
    cm = D.SimpleDop(D.Std("A_UINT32", 16, None, None, mask=0x00FF, condensed=True), "A_UINT32")
    out.append(("condensed-bit-mask", C("RQ", "request", [D.sid(), val("c", cm, bitpos=1), val("y", u8())]), {"c": 0xAB, "y": 1}, None,
                ["condensed-bit-mask"]))
    lk = D.Struct([D.length_key("k", u8()), val("b", D.SimpleDop(D.ParamLen("A_BYTEFIELD", "k"), "A_BYTEFIELD"))])
    out.append(("length-key-in-nested-struct", C("RQ", "request", [D.sid(), val("s", lk), val("y", u8())]), {"s": {"b": b"\x01\x02"}, "y": 3}, None, None))
    out.append(("prefix-matching-request", C("PR", "pos-response", [D.sid(0x62), D.matching_request("echo", 1, 2), D.coded_const("c", D.Std("A_UINT32", 8), 7),
                                                                    val("v", u8(16))]), {"v": 0x1234}, bytes.fromhex("22f190"), None))
    out.append(("explicit-positions", C("RQ", "request", [val("b", u8(), bytepos=3), val("a", u8(12), bytepos=0, bitpos=2), D.reserved("r", 7, bytepos=2)]),
                {"a": 0x123, "b": 9}, None, None))
    # nested structure whose last *listed* parameter is not the one that extends furthest, followed by an implicitly positioned
    # sibling: encoder and decoder leave the cursor behind the last listed inner parameter, the static length assumes the
    # structure's full extent (open known finding; Lean: C08_nested_cursor_counterexample)
    inner = D.Struct([val("a", u8(), bytepos=2), val("b", u8(), bytepos=0)])
    out.append(("nested-struct-cursor", C("RQ", "request", [val("s", inner), val("x", u8())]), {"s": {"a": 1, "b": 2}, "x": 3}, None,
                ["nested-structure-cursor-behind-last-listed-parameter"]))
    # found while lifting the static-length theorem to nested structures (C08_empty_struct_counterexample): an EMPTY structure at an
    # explicit BYTE-POSITION behind the end of the PDU counts for the static length but the encoder emplaces nothing there
    out.append(("empty-struct-at-position", C("RQ", "request", [val("a", u8()), val("s", D.Struct([]), bytepos=5)]), {"a": 1, "s": {}}, None,
                ["empty-nested-structure-static-length"]))
    return out


WHAT = {"empty-nested-structure-static-length":
            "static bit length counts the BYTE-POSITION of an empty nested STRUCTURE, the encoder emplaces nothing there (the PDU ends before it)",
        "condensed-bit-mask": "static bit length of a description with a condensed BIT-MASK differs from the length of its encoding",
        "nested-structure-cursor-behind-last-listed-parameter":
            "static bit length assumes that the parameter after a nested STRUCTURE starts behind the structure's full extent; encoder and "
            "decoder place it behind the structure's last *listed* parameter"}


def condensed_family(rng, n):
    """STANDARD-LENGTH types with BIT-MASK, plain and condensed, at all bit positions"""
    for i in range(n):
        bl = rng.choice([8, 12, 16, 16, 24, 32])
        mask = rng.getrandbits(bl) or 1
        cond = rng.random() < 0.6
        dop = D.SimpleDop(D.Std("A_UINT32", bl, None, rng.choice([None, False]), mask=mask, condensed=cond or None), "A_UINT32")
        yield D.Composite(f"M{i}", "request", [D.sid(), D.value("c", dop, bitpos=rng.choice([None, 0, 1, 3, 7])), D.value("y", D.u8())]), cond


def one_case(ctx, rep, corr, c, obj, v, trig, family, rng, fixed_features=None, subsets=True):
    enc = O.impl_encode(obj, v, trig)
    sl = O.c08_static_length(ctx, rep, c, obj, enc, v, trig, fixed_features=fixed_features,
                             what=WHAT.get(fixed_features[0]) if fixed_features else None)
    pre = O.c08_prefix(ctx, rep, c, obj, enc, v, trig)
    if c.kind not in ("request", "structure") and trig is not None and enc.ok:
        # the prefix without knowledge of the request is a prefix as well
        try:
            p0 = bytes(obj.coded_const_prefix())
            if not enc.pdu.startswith(p0):
                rep.report("const-prefix", "not-a-prefix", c, v, trig, {"prefix": p0.hex(), "pdu": enc.pdu.hex(), "request_prefix": ""})
        except Exception as e:  # noqa
            rep.report("const-prefix", O.err_class(e), c, v, trig, {"error": str(e)[:200]})
    ctx.case((sexp.composite(c), sexp.pval(v), trig), nontrivial=enc.ok and (sl is not None or bool(pre)))
    ctx.count("c08_" + ("encoded" if enc.ok else "encoder-rejected:" + enc.status))
    if corr is not None:
        corr.add(family, c, sexp.encode_line(c, v, trig), O.reply_encode(enc))
    if enc.ok and not enc.warns and fixed_features is None:
        O.c08_parts(ctx, rep, c, obj, v, trig)
        if subsets:
            O.c08_required_free(ctx, rep, c, obj, v, trig, rng)


def static_lines(ctx, corr, c, obj, trig, family):
    if corr is None or not corr.enabled:
        return
    try:
        sl = obj.get_static_bit_length()
        corr.add(family, c, sexp.staticlen_line(c), "(none)" if sl is None else f"(some {sl})")
    except Exception as e:  # noqa
        corr.add(family, c, sexp.staticlen_line(c), f"(err {O.model_err(O.err_class(e))})")
    if hasattr(obj, "coded_const_prefix"):
        try:
            pre = bytes(obj.coded_const_prefix(request_prefix=trig or b""))
            corr.add(family, c, sexp.prefix_line(c, trig), f"(ok {sexp.hx(pre)})")
        except Exception as e:  # noqa
            corr.add(family, c, sexp.prefix_line(c, trig), f"(err {O.model_err(O.err_class(e))})")


def run_doc(ctx, rep, corr, comps, family, rng, n_values, values_of=None, subsets=True):
    L, err = O.safe_load(comps)
    if L is None:
        if len(comps) > 1:
            for c in comps:
                run_doc(ctx, rep, corr, [c], family, rng, n_values, values_of, subsets)
        else:
            ctx.count("documents_rejected_by_loader")
        return
    ctx.count("documents_loaded")
    for c in comps:
        obj = L[c.name]
        O.record_features(ctx, c)
        ctx.histo("family", family)
        vals = values_of(c) if values_of else None
        first = True
        for k in range(len(vals) if vals is not None else n_values):
            try:
                v = vals[k] if vals is not None else V.gen_value(rng, c)
                trig = V.gen_trigger(rng, c)
            except V.Unsupported:
                ctx.count("value_generation_unsupported")
                continue
            except Exception as e:  # noqa
                ctx.count("value_generation_error:" + type(e).__name__)
                continue
            if first:
                static_lines(ctx, corr, c, obj, trig, family)
                first = False
            one_case(ctx, rep, corr, c, obj, v, trig, family, rng, subsets=subsets and k < 2)


def batches(it, n):
    buf = []
    for x in it:
        buf.append(x)
        if len(buf) == n:
            yield buf
            buf = []
    if buf:
        yield buf


def run(ctx):
    big = ctx.tier == "thorough"
    rng = ctx.rng
    rep = O.Reporter(ctx)
    corr = O.Correspondence(ctx)
    for tag, c, v, trig, ff in corpus():
        L, err = O.safe_load(c)
        if L is None:
            ctx.violate("loads", [tag], err.split(":")[0], O.witness(c, v, trig), f"corpus description {tag} rejected by the loader: {err}")
            continue
        ctx.histo("family", "corpus")
        static_lines(ctx, corr, c, L[c.name], trig, "corpus")
        one_case(ctx, rep, corr, c, L[c.name], v, trig, "corpus", rng, fixed_features=ff)
    for comps in batches(G.enum_struct_offsets(), 24):
        run_doc(ctx, rep, corr, comps, "enum-struct-offsets", rng, 2)
    # TABLE-KEYs in every arrangement (row from the PDU / static row = no bits; with / without TABLE-STRUCT; neighbours), fixed values
    tk_vals, tk_comps = {}, []
    for c, v in G.enum_table_keys():
        tk_vals[c.name] = [v]
        tk_comps.append(c)
    for comps in batches(iter(tk_comps), 24):
        run_doc(ctx, rep, corr, comps, "enum-table-keys", rng, 0, values_of=lambda c: tk_vals[c.name])
    vrng = ctx.sub_rng("enum")
    bitlens = range(1, 65) if big else sorted(set(V.BIAS_LENGTHS + [2, 3, 5, 12, 24, 40]))
    for comps in batches(G.enum_std_numeric(bitlens, range(8), types=("A_UINT32", "A_INT32") if big else ("A_UINT32",)), 64):
        run_doc(ctx, rep, corr, comps, "enum-std-integer", rng, 0, subsets=False,
                values_of=lambda c: [{"x": x, "y": 1} for x in V.boundary_values(vrng, c.params[1].dop, 1, 3)])
    # bit masks: plain ones must agree, condensed ones are the open known finding (fixed signature)
    for c, cond in condensed_family(rng, 1500 if big else 150):
        L, err = O.safe_load(c)
        if L is None:
            ctx.count("documents_rejected_by_loader")
            continue
        ctx.histo("family", "bit-mask")
        O.record_features(ctx, c)
        m = c.params[1].dop.dct.mask
        v = {"c": (rng.getrandbits(c.params[1].dop.dct.bitlen) & m), "y": 1}
        one_case(ctx, rep, None, c, L[c.name], v, None, "bit-mask", rng, fixed_features=["condensed-bit-mask"] if cond else None, subsets=False)
    corr.flush()
    for i in range(30000 if big else 3000):
        prof = (G.THOROUGH if big else G.QUICK) if i % 3 else (G.SIMPLE_DEEP if big else G.SIMPLE)
        try:
            c = G.gen_composite(rng, profile=prof, name="C")
        except Exception as e:  # noqa
            ctx.count("generator_error:" + type(e).__name__)
            continue
        run_doc(ctx, rep, corr, [c], "random-" + prof.tier, rng, 3)
        if i % 500 == 499:
            corr.flush()
    corr.flush()


def replay(ctx, data):
    w = data["witness"]
    c = D.from_json(w["desc"])
    L, err = O.safe_load(c)
    if L is None:
        return False
    v = V.from_jsonable(w.get("value"))
    trig = bytes.fromhex(w["trig"]) if w.get("trig") else None
    sub = type(ctx)(ctx.pid, ctx.tier, ctx.seed)
    rep = O.Reporter(sub, max_shrinks=0)
    one_case(sub, rep, None, c, L[c.name], v, trig, "replay", sub.rng)
    return not sub.violations


# --- nested compositional tier (task W14): OdxVerif.Props.C08Nested rests on Proofs/FieldTierPure.lean, which cannot be imported into
# the same environment as Proofs/StructStatic.lean (Props/C08Struct.lean): both define `Trees.enc_cursor`.  The module is therefore built
# and audited on its own (own audit file lean/Audit/C08Nested.lean); every theorem is recorded as an obligation of C08 like the others.
NESTED_TARGET = "OdxVerif.Props.C08Nested"
EXTRA_LEAN_TARGETS = [NESTED_TARGET]      # built by setup.sh (harness/targets.py), audited by audit_nested below
NESTED_THEOREMS = ["OdxVerif.Codec." + t for t in ["C08_static_length_nested_partial", "C08_static_value_nested", "C08_fields_no_static_length",
                                                    "C08_field_kinds_none", "C08_required_iff_not_omittable", "C08_required_nested",
                                                    "C08_required_nested_depth", "C08_not_required_nested", "static_length_nested",
                                                    "StaticP.sound", "DescribedP.fill_none"]]


def audit_nested(ctx):
    """build + `#print axioms` of the nested-tier module in an environment of its own"""
    import re
    import common
    rc, out = common.sh(["lake", "build", NESTED_TARGET], cwd=common.LEAN)
    if rc != 0:
        for t in NESTED_THEOREMS:
            ctx.obligation(t, False, "build of %s failed" % NESTED_TARGET)
        raise RuntimeError("lake build %s failed: %s" % (NESTED_TARGET, " | ".join([l for l in out.splitlines() if "error" in l][:5])))
    audit = common.LEAN / "Audit" / "C08Nested.lean"
    audit.parent.mkdir(parents=True, exist_ok=True)
    audit.write_text("import %s\n" % NESTED_TARGET + "\n".join("#print axioms %s" % t for t in NESTED_THEOREMS) + "\n")
    rc, out = common.sh(["lake", "env", "lean", str(audit)], cwd=common.LEAN)
    text = out.replace("\n  ", " ")
    axioms = {}
    for m in re.finditer(r"'([^']+)' (depends on axioms: \[([^\]]*)\]|does not depend on any axioms)", text):
        axioms[m.group(1)] = set(a.strip() for a in (m.group(3) or "").split(",") if a.strip())
    for t in NESTED_THEOREMS:
        if t in axioms and axioms[t] <= common.STD_AXIOMS:
            ctx.obligation(t, True, "axioms: " + ",".join(sorted(axioms[t])))
        elif t in axioms:
            ctx.obligation(t, False, "non-standard axioms: " + ",".join(sorted(axioms[t] - common.STD_AXIOMS)))
        else:
            ctx.obligation(t, False, "theorem not found in compiled environment")


GENERATORS = list(globals().get("GENERATORS", [])) + [audit_nested]


# --- W18 (nested tier, second part): OdxVerif.Props.C08Nested2 imports Props.C08Nested (same name clash with Proofs/StructStatic.lean),
# so it takes its place as the separately built + audited module: audit_nested builds it (which builds C08Nested) and prints the
# axioms of the theorems of both in that one environment.
NESTED_TARGET = "OdxVerif.Props.C08Nested2"
EXTRA_LEAN_TARGETS = EXTRA_LEAN_TARGETS + [NESTED_TARGET]
NESTED_THEOREMS = NESTED_THEOREMS + ["OdxVerif.Codec." + t for t in [
    "C08_static_length_bytesize", "C08_dynamic_kinds_none", "C08_required_iff_not_omittable2", "C08_required_nested2",
    "C08_required_nested_depth2", "C08_not_required_nested2", "DDesc.structBS_cursor", "DDesc.structBS_okW", "DescribedP2.fill_none"]]


# --- W24 (compu-method / DTC leaves: DescribedP3, StaticP3): OdxVerif.Props.C08Nested3 imports Props.C08Nested2, so it takes its place as
# the separately built + audited module (audit_nested builds it, which builds C08Nested and C08Nested2, and prints the axioms of all).
NESTED_TARGET = "OdxVerif.Props.C08Nested3"
EXTRA_LEAN_TARGETS = EXTRA_LEAN_TARGETS + [NESTED_TARGET]
NESTED_THEOREMS = NESTED_THEOREMS + ["OdxVerif.Codec." + t for t in [
    "C08_static_length_nested3_partial", "C08_compu_leaf_static_length", "C08_dtc_no_static_length", "C08_required_iff_not_omittable3",
    "C08_conv_leaf_required", "C08_required_nested3", "C08_not_required_nested3", "static_length_nested3", "StaticP3.sound",
    "PDesc.ofConv_static", "DescribedP3.fill_none", "CompuShape.static", "tDesc_static"]]
# --- W20: the GENERATED is_required family against PKind.required of the nested tier. OdxVerif.Props.C08GenRequiredNested imports
# Props.C08Nested2 (and Proofs/CodecRequiredGenEq.lean), so it cannot be imported next to Props/C08Struct.lean either; it is built and
# audited on its own (lean/Audit/C08GenRequiredNested.lean) and NOT chained into NESTED_TARGET: when the source of an is_required
# property changes and this tie breaks, the nested-tier theorems above stay audited. The generator regen_required (earlier in
# GENERATORS) has rewritten Gen/CodecRequired.lean from the current source before this build.
GEN_NESTED_TARGET = "OdxVerif.Props.C08GenRequiredNested"
EXTRA_LEAN_TARGETS = EXTRA_LEAN_TARGETS + [GEN_NESTED_TARGET]
GEN_NESTED_THEOREMS = ["OdxVerif.Codec." + t for t in ["PKind.isRequired_eq_required", "C08_gen_required_nested", "C08_gen_required_iff_not_omittable"]]


def audit_gen_required_nested(ctx):
    """build + `#print axioms` of Props/C08GenRequiredNested.lean in an environment of its own"""
    import re
    import common
    rc, out = common.sh(["lake", "build", GEN_NESTED_TARGET], cwd=common.LEAN)
    if rc != 0:
        for t in GEN_NESTED_THEOREMS:
            ctx.obligation(t, False, "build of %s failed" % GEN_NESTED_TARGET)
        raise RuntimeError("lake build %s failed: %s" % (GEN_NESTED_TARGET, " | ".join([l for l in out.splitlines() if "error" in l][:5])))
    audit = common.LEAN / "Audit" / "C08GenRequiredNested.lean"
    audit.parent.mkdir(parents=True, exist_ok=True)
    audit.write_text("import %s\n" % GEN_NESTED_TARGET + "\n".join("#print axioms %s" % t for t in GEN_NESTED_THEOREMS) + "\n")
    rc, out = common.sh(["lake", "env", "lean", str(audit)], cwd=common.LEAN)
    text = out.replace("\n  ", " ")
    axioms = {}
    for m in re.finditer(r"'([^']+)' (depends on axioms: \[([^\]]*)\]|does not depend on any axioms)", text):
        axioms[m.group(1)] = set(a.strip() for a in (m.group(3) or "").split(",") if a.strip())
    for t in GEN_NESTED_THEOREMS:
        if t in axioms and axioms[t] <= common.STD_AXIOMS:
            ctx.obligation(t, True, "axioms: " + ",".join(sorted(axioms[t])))
        elif t in axioms:
            ctx.obligation(t, False, "non-standard axioms: " + ",".join(sorted(axioms[t] - common.STD_AXIOMS)))
        else:
            ctx.obligation(t, False, "theorem not found in compiled environment")


GENERATORS = list(globals().get("GENERATORS", [])) + [audit_gen_required_nested]


# --- W30 (message-level static length with BYTE-SIZE structures: length law on descriptions): OdxVerif.Props.C08Nested2b imports
# Props.C08Nested3, so it takes its place as the separately built + audited module (audit_nested builds it, which builds the whole chain).
NESTED_TARGET = "OdxVerif.Props.C08Nested2b"
EXTRA_LEAN_TARGETS = EXTRA_LEAN_TARGETS + [NESTED_TARGET]
NESTED_THEOREMS = NESTED_THEOREMS + ["OdxVerif.Codec." + t for t in [
    "C08_static_length_bytesize_msg_partial", "static_length_lenPs", "PDesc.structBS_lenP", "PDesc.Static.lenP", "LenPs.enc_length",
    "LenPs.static_eq", "StaticTop.sound", "StaticTops.sound", "zDesc_static"]]
