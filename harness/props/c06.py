"""C06 — messages are attributed to exactly the matching services."""
import json

import common
import dispatch_lib as D

ID = "C06"
LEAN_TARGETS = ["OdxVerif.Props.C06"]
DRIVERS = ["drv_dispatch"]
P = "OdxVerif.Dispatch."
THEOREMS = [P + t for t in [
    "C06_attribution_partial", "C06_attribution_general", "C06_attribution_sound", "C06_attribution_counterexample",
    "C06_prefix_tree_complete_partial", "C06_prefix_tree_complete_counterexample", "C06_own_encoding",
    "C06_response_via_request", "C06_response_only_via_request", "C06_service_groups",
    "C06_service_groups_leading_constant", "C06_lenient_eq_strict",
    "C06_lenient_general", "C06_lenient_attribution"]]
RULE = ("service sets of 1-5 services loaded from generated ODX XML (shared, nested, empty and distinct constant prefixes; "
        "PHYS-CONST and multi-byte constants of 8/16/24/32 bit in either byte order (IS-HIGHLOW-BYTE-ORDER absent / true / false), "
        "unsigned or two's complement; NRC-CONST alternatives of 8 bit and of 16 bit low-high; requests of differing lengths; MATCHING-REQUEST-PARAM inside / across / beyond the "
        "request prefix; NRC-CONST alternatives; shared and doubly referenced responses; 0-2 global negative responses) x messages "
        "(own encodings through the real encoder and written down from the description, every byte string of length <= 3 over the "
        "prefix alphabet + {00, ff} (quick: length 3 sampled when the alphabet is large), single-byte mutations, truncations, "
        "extensions) x {decode, decode_response} x {strict, non-strict}; every (coding object of the layer, message, mode) is also "
        "checked against the parameter-match verdict read off the description; x call histories on one layer object (per layer 4 "
        "(thorough: 8 for every 10th layer) probe calls, mostly own encodings walking through the same first byte: first call on a freshly "
        "loaded layer = reference, then the same call again, every other probe interleaved, the same call once more, and the same call "
        "inside the main loop after hundreds of earlier calls); x layers with parents (quick 80, thorough 500 hierarchies + 2 corpus "
        "hierarchies: ECU variant under a base variant, 25 % under a further functional group; every layer with services and global "
        "negative responses of its own, local ones overriding inherited ones of the same short name, every PARENT-REF with independent "
        "NOT-INHERITED-DIAG-COMMS / NOT-INHERITED-GLOBAL-NEG-RESPONSES lists incl. names of the other kind and unknown names; the ECU "
        "variant is decoded on, messages additionally: the excluded / overridden global negative responses as answers to the requests "
        "of every service, requests and responses of excluded / overridden services); "
        "x enumerated family enum-leading-constant (quick 384 / thorough 960 requests in layers of five services: EVERY coding of the "
        "constant a request starts with — 8/16/24/32 bit x CODED-CONST/PHYS-CONST x byte order absent/true/false x A_UINT32/A_INT32 x "
        "byte patterns (distinct ascending, top bit in the first / last wire byte, all equal), 16 bit also with BYTE-/BIT-POSITION "
        "spelled out as 0 — x follower none / 16 bit constant in the other byte order (thorough: / 8 bit / 16 bit PHYS-CONST / 24 bit "
        "low-high); messages: own requests and responses (description and real encoder), the request with the bytes of its constant "
        "prefix reversed / rotated / first byte exchanged / nibbles swapped, truncations, responses against the reversed request) "
        "x enumerated family enum-positioned-constant (70 services in 14 layers, OUTSIDE the model's envelope, decided from the "
        "description without the Lean driver: first byte as two nibbles / 3+4+1 bits in every listing order and CODED-/PHYS-CONST "
        "mix, constant nibble next to a VALUE nibble, whole-byte constants of either byte order at explicit BYTE-POSITIONs listed in "
        "and against wire order, constants behind a gap filled by a later VALUE); "
        "distinct = distinct (layer description, message, request, mode); "
        "non-trivial = the tree walk of the model returns at least one candidate service")
TRUSTED = ["model lean/OdxVerif/Model/Dispatch.lean is hand-written; tied to diaglayer.py/diagservice.py/codec.py/servicebinner.py by "
           "comparing candidate lists, reported (service, coding object) lists incl. order and duplicates, error classes, constant "
           "prefixes and service groups on every generated case",
           "the decoding of ONE coding object is an oracle taken from the real code (request.decode / response.decode): ok | DecodeMismatch | "
           "DecodeError | other; the bytes one constant parameter encodes to are taken from param.encode_into_pdu on an empty state",
           "that oracle is itself checked, for every coding object x message x mode, against dispatch_lib.desc_verdict (hand-written, "
           "description level: message long enough for every parameter, NRC-CONST bytes one of the alternatives in both modes, "
           "PHYS-CONST value equal in strict mode): 'ok' iff the verdict is 'matches' (clause coding-object-match)",
           "layers with parents: which services and global negative responses apply to the layer under test is computed from the "
           "description by dispatch_lib.effective_owned (hand-written: along the chain of parents everything the PARENT-REF does not "
           "exclude by short name is inherited, a local object replaces the inherited one of the same short name, the other local objects "
           "follow); the model, the Spec and every oracle are fed with THAT list (objects looked up among the locally defined objects of "
           "the layers), not with layer.services / layer.global_negative_responses; the two are also compared directly (clause "
           "layer-contents); inheritance itself (all object kinds, several parents, priorities) is C09's subject",
           "which bytes a constant parameter puts on the wire, the constant prefix of every coding object and the first byte of every "
           "request are ALSO written down from the JSON description alone (dispatch_lib.const_bytes / layout / desc_prefix, hand-written: "
           "value modulo 2^n in the byte order of the coding, parameters at their BYTE-/BIT-POSITION or behind the preceding one, leading "
           "run of constants, leading completely determined bytes) and compared with param.encode_into_pdu (the model's input; clause "
           "constant-prefix/constant-bytes), with coded_const_prefix (constant-prefix/differs-from-description) and with the service "
           "groups (service-groups/misfiled), so that no oracle of the service-group and own-encoding clauses rests on the implementation's "
           "own notion of the constant bytes; dispatch_lib.desc_reply evaluates the Spec relations (attributed, unambiguous, found) on the "
           "description; it is compared with the Lean Spec on every case of enum-leading-constant (family spec-vs-description) and "
           "replaces the driver for layers outside the model's envelope (enum-positioned-constant)",
           "history-independence is a model-free metamorphic oracle on the real code: the result list (order and duplicates included) of a "
           "call after other calls on the same layer object must equal the result of the same call as the first call on a freshly loaded "
           "layer; a main-loop violation is reported with the single-call witness only after it was reproduced as a first call"]
ASSUMPTIONS = ["envelope of the Lean model: byte-aligned constant parameters without explicit BYTE-POSITION (a constant contributes the bytes "
               "it encodes to on its own, in whatever byte order / base type); layers with positioned or sub-byte constants (family "
               "enum-positioned-constant) are not sent to the model: service groups, constant prefixes, attribution, own encodings and "
               "response-via-request are decided for them by the description-level oracles on the real code only",
               "service group of a request whose first byte is not completely determined by its leading constants (e.g. a constant nibble "
               "next to a VALUE nibble): None",
               "Unambiguous: the main theorem assumes no service has two own coding objects matching the message (strict mode reports "
               "'cannot uniquely decode'); ambiguous cases are covered by C06_attribution_general and by the correspondence runs only",
               "NoEmptyPrefix: open finding c06-empty-prefix (a coding object with an empty constant prefix does not make its service a "
               "candidate); the fix contradicts four odxtools unit tests (somersault 'schroedinger' service), so the model follows the code",
               "non-strict mode differs from strict mode only for ambiguous services (first matching coding object instead of 'cannot "
               "uniquely decode'): C06_lenient_eq_strict / C06_lenient_general / C06_lenient_attribution; the direct oracle checks the "
               "attribution in non-strict mode for ambiguous input as well",
               "a PHYS-CONST behind the constant prefix whose value differs makes the coding object not match in strict mode only "
               "(odxraise: tolerated in non-strict mode by design, like a CODED-CONST mismatch which is a warning in both modes); "
               "an NRC-CONST whose alternatives do not contain the message byte makes it not match in both modes"]

KNOWN_LOCAL = common.VERIF / "fixes" / "known_C06.jsonl"


# ---------------------------------------------------------------- reporting (with the local known-findings workaround)
class Reporter:
    """ctx.violate, except for signatures listed in fixes/known_C06.jsonl that common code does not know yet
    (known_findings.jsonl is common property; until the line is merged there the finding is handled here)"""

    def __init__(self, ctx, raw=False):
        self.ctx, self.raw = ctx, raw
        self.local = []
        if not raw and KNOWN_LOCAL.exists():
            merged = {k["id"] for k in common.load_known(ID)}
            for line in KNOWN_LOCAL.read_text().splitlines():
                if line.strip() and not line.startswith("#"):
                    e = json.loads(line)
                    if e.get("status") == "open" and e["id"] not in merged:
                        self.local.append(e)
        self.hit = {}
        self.open = list(self.local) if raw else self.local + [k for k in common.load_known(ID) if k.get("status") == "open"]

    def is_known(self, clause, features, observed):
        sig = {"clause": clause, "features": sorted(features), "observed": observed}
        return any(common.sig_matches(e["signature"], sig) for e in self.open)

    def violate(self, clause, features, observed, witness, what):
        sig = {"clause": clause, "features": sorted(features), "observed": observed}
        for e in self.local:
            if common.sig_matches(e["signature"], sig):
                self.hit[e["id"]] = e
                self.ctx.count("known_finding_local:" + e["id"])
                return
        # hits of an open known finding which common code knows: common.finish needs one of them; every further one is only
        # counted (common.Ctx.violate rescans all stored violations every 256th call, which is quadratic in their number)
        for e in self.open:
            if e not in self.local and common.sig_matches(e["signature"], sig):
                self.ctx.count("known_finding_hits:" + e["id"])
                if self.ctx.counters.get("known_finding_hits:" + e["id"], 0) > 64:
                    return
                break
        self.ctx.violate(clause, features, observed, witness, what)

    def finish(self):
        for e in self.hit.values():
            print(f"KNOWN-FINDING: property={ID} {e['what']}")
            self.ctx.notes.append(f"known finding {e['id']} matched from fixes/known_C06.jsonl (not yet in known_findings.jsonl)")


# ---------------------------------------------------------------- one layer
# --- tie of kind (1) (task W20): Gen/DispatchWalk.lean is regenerated from DiagLayer._find_services_for_uds of the current source by the
# Python->Lean translator and proved equal to the hand-written Trie.walk (Proofs/DispatchWalkGenEq.lean)
LEAN_TARGETS = LEAN_TARGETS + ["OdxVerif.Props.C06Gen"]
THEOREMS = THEOREMS + [P + t for t in ["gen_findServices_eq", "C06_gen_walk_eq", "C06_gen_prefix_tree_complete_partial"]]
TRUSTED = TRUSTED + ["translator harness/extract/py2lean.py + primitives lean/OdxVerif/Model/PyRt.lean for DiagLayer._find_services_for_uds (the prefix "
                     "tree dict is the model's Trie: b in tree / tree[b] = Trie.find?, -1 in tree / tree[-1] = Trie.leaf with [] = key absent; "
                     "self._prefix_tree is an abstract attribute of the rendering; odxassert(isinstance(tree[b], dict)) is a typing assertion)"]


def regen_dispatch_walk(ctx):
    """Gen/DispatchWalk.lean from the current source; Unsupported (source left the translator's subset) = broken obligation"""
    from extract import py2lean
    py2lean.regenerate_findsvc(common.REPO, common.VERIF)


GENERATORS = list(globals().get("GENERATORS", [])) + [regen_dispatch_walk]


def messages_for(desc, view, rng, big):
    """[(msg, tag)] and [(response, request, expected (service no, coding no) | None)]"""
    msgs, pairs, own_of = {}, [], {}

    def add(m, tag, who=None):
        m = bytes(m)
        if len(m) <= 12 and m not in msgs:
            msgs[m] = tag
        if len(m) <= 12 and who is not None and who not in own_of.setdefault(m, []):
            own_of[m].append(who)       # m is an encoding of coding object `who[1]` of service `who[0]`

    svc_by_name = {s.short_name: s for s in view.services}
    own = []
    for sd in desc["services"]:
        s = svc_by_name[sd["name"]]
        sn = view.sno[id(s)]
        reqs = [D.plain_bytes(sd["req"], rng=rng)]
        try:   # through the real encoder
            vals = {f"p{i}": rng.getrandbits(p["bl"]) for i, p in enumerate(sd["req"]["params"]) if p["k"] == "val"}
            reqs.append(bytes(s.request.encode(**vals)))
        except Exception:
            pass
        for rq in reqs:
            add(rq, "own-request", (sn, view.cno[id(s.request)]))
            own.append(rq)
        rq = reqs[-1]
        robjs = list(s.positive_responses) + list(s.negative_responses)
        rdescs = [D.resolve(desc, c) for c in sd["pos"] + sd["neg"]]
        for ro, rd in zip(robjs, rdescs):
            encs = []
            nvals = max([len(p["vals"]) for p in rd["params"] if p["k"] == "nrc"] + [1])
            for j in range(min(nvals, 2)):
                encs.append(D.plain_bytes(rd, rq, rng, nrc_pick=j))
            if not any(p["k"] == "nrc" for p in rd["params"]):
                try:
                    vals = {f"p{i}": rng.getrandbits(p["bl"]) for i, p in enumerate(rd["params"]) if p["k"] == "val"}
                    encs.append(bytes(ro.encode(coded_request=rq, **vals)))
                except Exception:
                    pass
            for e in encs:
                add(e, "own-response", (sn, view.cno[id(ro)]))
                own.append(e)
                pairs.append((e, rq, (sn, view.cno[id(ro)])))
        for gd in desc["gnrs"]:
            e = D.plain_bytes(gd, rq, rng)
            add(e, "own-gnr")
            pairs.append((e, rq, None))
        # layers with parents: the global negative responses which do NOT apply to the layer (excluded by its PARENT-REF or
        # overridden), written down as answers to the requests of its services
        for gd in desc.get("ghost_gnrs", []):
            e = D.plain_bytes(gd, rq, rng)
            add(e, "not-applicable-gnr")
            pairs.append((e, rq, None))
    # ... and the requests / responses of the services which do not apply to it
    for sd in desc.get("ghost_services", []):
        rq = D.plain_bytes(sd["req"], rng=rng)
        add(rq, "not-applicable-request")
        for c in sd["pos"] + sd["neg"]:
            e = D.plain_bytes(D.resolve(desc, c), rq, rng)
            add(e, "not-applicable-response")
            pairs.append((e, rq, None))
    # every byte string of length <= 3 over the prefix alphabet + {00, ff}
    freq = {}
    for sd in desc["services"]:
        for c in [sd["req"]] + [D.resolve(desc, x) for x in sd["pos"] + sd["neg"]] + desc["gnrs"]:
            for b in D.const_run(c["params"])[:3]:
                freq[b] = freq.get(b, 0) + 1
    alpha = sorted(freq, key=lambda b: (-freq[b], b))[:(8 if big else 5)] + [0x00, 0xFF]
    alpha = sorted(set(alpha))
    for a in alpha:
        add([a], "short")
        for b in alpha:
            add([a, b], "short")
    triples = [[a, b, c] for a in alpha for b in alpha for c in alpha]
    if not big and len(triples) > 130:
        triples = rng.sample(triples, 130)
    for t in triples:
        add(t, "short")
    add(b"", "empty")
    # single-byte mutations, truncations, extensions of own encodings
    base = own if big else rng.sample(own, min(len(own), 8))
    for m in base:
        for k in range(len(m)):
            add(m[:k], "truncated")
            add(m[:k] + bytes([(m[k] + 1) & 0xFF]) + m[k + 1:], "mutated")
            add(m[:k] + bytes([rng.choice(alpha)]) + m[k + 1:], "mutated")
        add(m + b"\x00", "extended")
        add(m + bytes([rng.getrandbits(8)]), "extended")
    # responses against foreign / mutated requests
    extra = []
    for (e, rq, exp) in (pairs if big else rng.sample(pairs, min(len(pairs), 10))):
        other = rng.choice(own) if own else rq     # (a layer all of whose inherited services are excluded has no own encodings)
        extra.append((e, other, None))
        if rq:
            k = rng.randrange(len(rq))
            extra.append((e, rq[:k] + bytes([(rq[k] + 1) & 0xFF]) + rq[k + 1:], None))
            extra.append((e, rq[:k], None))
    return [(m, tag, own_of.get(m)) for m, tag in msgs.items()], pairs + extra


# ---------------------------------------------------------------- history: decoding is a function of (layer, message)
def fresh_view(desc):
    try:
        return D.make_view(desc)
    except Exception:
        return None


def main_step(view, msg, req, strict):
    """one step of the main loop: every coding object on its own (the oracle), the public call, the tree walk"""
    old = D.set_strict(strict)
    try:
        outs = {n: D.outcome(co, msg) for n, co in view.cobj.items()}
        res = D.run_decode(view, msg, req)
        cands = D.run_candidates(view, msg if req is None else req)
    finally:
        D.set_strict(old)
    return outs, res, cands


def mk_call(msg, req, strict, main=False):
    """a call as JSON: decode(msg) / decode_response(msg, req) in a mode; main = the whole main-loop step around it"""
    c = {"msg": msg.hex(), "req": None if req is None else req.hex(), "strict": bool(strict)}
    if main:
        c["main"] = True
    return c


def public(c):
    return {"msg": c["msg"], "req": c["req"], "strict": c["strict"]}


def do_call(view, c):
    if c.get("info"):
        D.run_prefixes(view)
        D.run_groups(view)
        return None
    msg = bytes.fromhex(c["msg"])
    req = None if c["req"] is None else bytes.fromhex(c["req"])
    if c.get("main"):
        return main_step(view, msg, req, c["strict"])[1]
    old = D.set_strict(c["strict"])
    try:
        return D.run_decode(view, msg, req)
    finally:
        D.set_strict(old)


def replay_sequence(desc, calls):
    """the calls one after the other on a freshly loaded layer → their results (None: the layer does not load)"""
    v = fresh_view(desc)
    if v is None:
        return None
    return [do_call(v, c) for c in calls]


def diff_kind(got, ref):
    if got is None or ref is None or got[0] != "ok" or ref[0] != "ok":
        return "error-vs-result"
    a, b = got[1], ref[1]
    sa, sb = {x for x, _ in a}, {x for x, _ in b}
    if sa - sb:
        return "service-extra"
    if sb - sa:
        return "service-missing"
    if set(a) == set(b):
        return "duplicates" if sorted(a, key=str) != sorted(b, key=str) else "order"
    return "different-coding-object"


def history_violation(ctx, rep, desc, history, c, got, ref, scenario):
    op = "decode" if c["req"] is None else "decode_response"
    kind = diff_kind(got, ref)
    ctx.histo("history_violation", f"{scenario}/{op}/{kind}")
    call = f"{op}({c['msg']}" + ("" if c["req"] is None else f", {c['req']}") + ")"
    rep.violate("history-independence", [op, kind], "differs-from-first-call",
                {"layer": desc, **c, "history": history, "got": str(got), "first_call": str(ref)},
                f"{call} reports {got} after {len(history)} earlier call(s) on the same layer object, but {ref} as the first "
                f"call on the freshly loaded layer ({kind})")


def shrink_history(desc, hist, c, ref):
    """a short call sequence after which the call c does not give its first-call result: c itself, one earlier public
    call (those walking through the same first byte first), else everything that happened (main-loop steps)"""
    cp = public(c)
    wb = (c["req"] if c["req"] is not None else c["msg"])[:2]
    singles, seen = [], set()
    for h in hist:
        if h.get("info"):
            continue
        k = (h["msg"], h["req"], h["strict"])
        if k not in seen:
            seen.add(k)
            singles.append(public(h))
    singles.sort(key=lambda h: (h["req"] if h["req"] is not None else h["msg"])[:2] != wb)
    for hs in [[cp]] + [[h] for h in singles[:40]]:
        r = replay_sequence(desc, hs + [cp])
        if r is not None and r[-1] != ref:
            return hs, cp, r[-1]
    r = replay_sequence(desc, hist + [c])
    return hist, c, (r[-1] if r else None)


def pick_probes(cases, rng, k):
    """the calls of the history scenarios: mostly own encodings whose walk starts with the same byte (services sharing
    or nesting a constant prefix), one arbitrary case"""
    own = [c for c in cases if c[3].startswith("own") or (c[3] == "pair" and c[4] is not None)] or list(cases)
    if not own:
        return []
    walk = lambda c: (c[1] if c[2] is None else c[2])[:1]
    c0 = rng.choice(own)
    group = [c for c in own if walk(c) == walk(c0)]
    chosen = rng.sample(group, min(len(group), k - 1))
    rest = [c for c in cases if c not in chosen]
    chosen += rng.sample(rest, min(len(rest), k - len(chosen)))
    out, seen = [], set()
    for c in chosen:
        pc = mk_call(c[1], c[2], rng.random() < 0.7)
        key = json.dumps(pc, sort_keys=True)
        if key not in seen:
            seen.add(key)
            out.append(pc)
    return out


def history_phase(ctx, rep, desc, probes):
    """every probe as the FIRST call on its own freshly loaded layer (the reference); then, on that layer object: the same
    call again, every other probe (interleaving services which share a prefix), the same call once more — each result must
    be the reference of its call.  Returns {call key: reference}."""
    refs, views = [], []
    for c in probes:
        v = fresh_view(desc)
        if v is None:
            return {}
        views.append(v)
        refs.append(do_call(v, c))
    for i, v in enumerate(views):
        hist = [probes[i]]
        seq = [i] + [j for j in range(len(probes)) if j != i] + [i]
        ctx.case(("history", json.dumps(desc, sort_keys=True), json.dumps([probes[j] for j in [i] + seq], sort_keys=True)),
                 nontrivial=any(r is not None and r[0] == "ok" for r in refs))
        for j in seq:
            got = do_call(v, probes[j])
            ctx.count("history_calls")
            if got != refs[j]:
                history_violation(ctx, rep, desc, list(hist), probes[j], got, refs[j], "repeat" if j == i and len(hist) == 1 else "interleaved")
                break
            hist.append(probes[j])
    return {(c["msg"], c["req"], c["strict"]): r for c, r in zip(probes, refs)}


def eval_layer(ctx, rep, desc, rng, big, pending, corpus=None, hrng=None, nprobes=16, crosscheck=False, lenient=1.0):
    """run the implementation on one layer; queue driver lines; returns nothing (see flush).
    A layer with positioned / sub-byte parameters is outside the envelope of the Lean model: no driver line is queued for it,
    the Spec answers (attributed services, unambiguity, services found through the walk) are computed from the description
    (`D.desc_reply`).  crosscheck: compute them for a model-fed layer as well and compare them with the Lean Spec."""
    try:
        view = D.make_view(desc)
        view.modelfree = D.positioned(desc)
        view.crosscheck = crosscheck and not view.modelfree
    except Exception as e:
        ctx.count("layer_load_failed:" + type(e).__name__)
        if "base" in desc:      # the flat layers load (0 failures measured); a hierarchy which does not is a finding
            rep.violate("layer-contents", ["exception", type(e).__name__], "foreign:" + type(e).__name__,
                        {"layer": desc, "msg": "", "req": None, "strict": True, "info": True},
                        f"a layer with parents cannot be loaded / its locally defined objects are not found: {e!r}"[:300])
        return
    if view.expected is not None:
        ctx.count("layers_with_parents")
        ctx.histo("hierarchy", f"levels={len(D.chain(desc))} gnrs={len(view.gnrs)} not-applicable-gnrs={len(view.ghost_gnrs)} "
                               f"not-applicable-services={len(view.ghost_services)}")
        # what the layer says it contains against the services / global negative responses which apply to it according to the
        # description (the model and the Spec are fed with the latter)
        for kind, how, names in D.impl_contents(view):
            if how == "order":
                ctx.disagree("layer-contents", {"layer": desc, "kind": kind}, "order of the description", names)
                continue
            ctx.histo("layer_contents_violation", f"{kind}/{how}")
            rep.violate("layer-contents", [kind, how], "differs-from-description",
                        {"layer": desc, "msg": "", "req": None, "strict": True, "info": True, "kind": kind, "names": names},
                        f"the layer {'lists' if how == 'extra' else 'does not list'} the {kind}(s) {names} although the description "
                        f"(parents, exclusion lists of the PARENT-REFs, overriding) says they {'do not apply' if how == 'extra' else 'apply'} to it")
    view.dkey = json.dumps(desc, sort_keys=True)
    view.hist = [{"info": True}]          # everything that is done with this layer object, in order
    ctx.count("layers")
    ctx.histo("services_per_layer", len(view.services))
    ctx.histo("gnrs_per_layer", len(view.gnrs))
    if view.modelfree:
        ctx.count("layers_outside_model_envelope")
    # static part: prefixes and service groups
    static = (D.run_prefixes(view), D.run_groups(view))
    check_static(ctx, rep, desc, view, static)
    pending.append(("info", desc, view, None, None if view.modelfree else f"(info {view.layer_sexp({})})", static))
    if callable(corpus):
        try:
            cases = corpus(view)          # an enumerated family: its messages depend on the loaded layer (real encoder)
        except Exception as e:
            ctx.count("enum_cases_failed:" + type(e).__name__)
            cases = []
        for c in cases:
            ctx.histo("enum_case_kind", c[3])
    elif corpus is not None:
        cases = corpus
    else:
        msgs, pairs = messages_for(view.eff, view, rng, big)
        cases = [("decode", m, None, tag, who) for m, tag, who in msgs] + [("response", e, rq, "pair", exp) for e, rq, exp in pairs]
    # history scenarios on fresh layer objects (before the main loop, which has a long history of its own)
    if callable(corpus):     # the own requests of the services of the layer (they share / nest their prefixes by construction)
        probes = [mk_call(m, rq, True) for (_, m, rq, tag, _) in cases if tag == "own-request"][::2][:nprobes]
    elif corpus is not None:
        probes = [mk_call(m, rq, st) for (_, m, rq, _, _) in cases for st in (True, False)][:nprobes]
    else:
        probes = pick_probes(cases, hrng or rng, 8 if big else 4)
    refs = history_phase(ctx, rep, desc, probes) if probes else {}
    for (op, msg, req, tag, exp) in cases:
        modes = [True] if ((corpus is None and rng.random() < 0.7) or (corpus is not None and lenient < 1.0 and rng.random() >= lenient)) else [True, False]
        for strict in modes:
            outs, res, cands = main_step(view, msg, req, strict)
            hi = len(view.hist)
            view.hist.append(mk_call(msg, req, strict, main=True))
            line = None if view.modelfree else (
                f"(decode (strict {'t' if strict else 'f'}) (msg {common.hexa(msg)}) "
                f"(walk {common.hexa(msg if req is None else req)}) {view.layer_sexp(outs)})")
            pending.append((op, desc, view, (msg, req, strict, tag, exp, outs, hi), line, (res, cands)))
            ctx.histo("message_kind", tag)
            ctx.histo("mode", ("strict" if strict else "lenient") + "/" + op)
            # the same call deep inside the main loop's history against its first-call reference
            ref = refs.get((msg.hex(), None if req is None else req.hex(), strict)) if refs else None
            if ref is not None:
                ctx.count("history_main_loop_compared")
                if res != ref:
                    hs, c, got = shrink_history(desc, view.hist[:hi], view.hist[hi], ref)
                    history_violation(ctx, rep, desc, hs, c, got if got is not None else res, ref, "main-loop")


def witness(desc, msg, req, strict):
    return {"layer": desc, "msg": msg.hex(), "req": None if req is None else req.hex(), "strict": strict}


def flush(ctx, rep, pending):
    drv = ctx.driver("drv_dispatch")
    if not pending:
        return
    try:
        replies = iter(drv.query([p[4] for p in pending if p[4] is not None]))
    except Exception as e:
        ctx.disagree("driver", "batch", repr(e), "")
        pending.clear()
        return
    for (op, desc, view, info, line, impl) in pending:
        reply = next(replies) if line is not None else None      # None: layer outside the model's envelope
        if op == "info":
            check_info(ctx, rep, desc, view, line, impl, reply)
        else:
            check_decode(ctx, rep, op, desc, view, info, line, impl, reply)
    pending.clear()


def first_param(s):
    return type(s.request.parameters[0]).__name__ if s.request is not None and len(s.request.parameters) else "none"


def check_static(ctx, rep, desc, view, impl):
    """direct oracles which need neither the model nor the Lean Spec: what the layer says about its constants against the
    JSON description (`D.const_bytes`, `D.desc_prefix`: byte order, base type, listing order and positions of the leading
    constants are taken from the description, not from the implementation)"""
    (iprefix, (igroups, igetitem)) = impl
    w = {"layer": desc, "msg": "", "req": None, "strict": True, "info": True}
    # (a) the bytes ONE constant parameter encodes to on its own (the model's input) are the bytes of its value in its coding
    for n, cb in view.cbytes.items():
        cd = view.cdesc.get(n)
        if cd is None or len(cd["params"]) != len(cb):
            continue
        for p, b in zip(cd["params"], cb):
            if p["k"] in ("cc", "pc") and p["bl"] % 8 == 0 and not p.get("bit") and not p.get("bp"):
                ctx.count("constant_bytes_checked")
                want = D.const_bytes(p)
                if b != want:
                    kind = {"cc": "coded-const", "pc": "phys-const"}[p["k"]]
                    rep.violate("constant-prefix", ["constant-bytes", kind], b if isinstance(b, str) else "differs-from-description",
                                {**w, "coding": cd["name"], "param": p, "expected": want.hex(), "got": b if isinstance(b, str) else b.hex()},
                                f"the {kind} parameter {p} of {cd['name']} encodes to {b if isinstance(b, str) else b.hex()}, "
                                f"its value in its coding is {want.hex()}")
                    return
    # (b) coded_const_prefix of every coding object (relative to every service) is the constant prefix of the description
    rps = {}
    for s in view.services:
        sn = view.sno[id(s)]
        rq = view.cdesc.get(view.cno.get(id(s.request))) if s.request is not None else None
        if s.request is not None and rq is None:
            continue
        rps[sn] = D.desc_prefix(rq["params"]) if rq is not None else b""
        row = iprefix.get(sn)
        if isinstance(row, str):
            continue           # reported by check_info (exception)
        for cn, got in row or []:
            cd = view.cdesc.get(cn)
            if cd is None or (isinstance(got, str) and got.startswith("foreign")):
                continue
            ctx.count("constant_prefix_checked")
            want = D.desc_prefix(cd["params"], rps[sn]).hex() or "-"
            if got != want:
                ctx.histo("constant_prefix_violation", view.kind(cn))
                rep.violate("constant-prefix", ["differs-from-description", "request" if view.is_request(cn) else "response"], "differs-from-description",
                            {**w, "coding": cd["name"], "service": view.sname[sn], "expected": want, "got": got},
                            f"coded_const_prefix of {cd['name']} (for service {view.sname[sn]}) is {got}, the leading constants of "
                            f"its description give {want}")
                return
    # (c) every service is filed under the first byte of its request's constant prefix (None if there is none), only there
    if isinstance(igroups, str):
        return                 # reported by check_info / below
    for s in view.services:
        sn = view.sno[id(s)]
        if sn not in rps:
            continue
        sid = rps[sn][0] if rps[sn] else None
        ctx.count("service_group_checked_by_description")
        where = sorted((k is None, k) for k, v in igetitem.items() if sn in v)
        if where != [(sid is None, sid)]:
            first = first_param(s)
            ctx.histo("group_violation_first_param", first)
            rep.violate("service-groups", ["misfiled", first], str([k for _, k in where]),
                        {**w, "service": view.sname[sn], "expected": sid, "request_prefix": rps[sn].hex()},
                        f"service {view.sname[sn]} whose requests start with the constant byte(s) {rps[sn].hex() or '-'} is filed under "
                        f"{[k for _, k in where]} instead of {sid}")
            return


def check_info(ctx, rep, desc, view, line, impl, reply):
    ctx.traces += 1
    if reply is None:          # layer outside the model's envelope: check_static has said everything
        ctx.case(("info", view.dkey), nontrivial=True)
        (_, (igroups, _)) = impl
        if isinstance(igroups, str):
            rep.violate("service-groups", ["exception"], igroups, {"layer": desc, "msg": "", "req": None, "strict": True, "info": True},
                        "ServiceBinner raises")
        return
    r = D.parse_info_reply(reply)
    ctx.case(("info", view.dkey), nontrivial=True)
    (iprefix, (igroups, igetitem)) = impl
    if r is None:
        ctx.disagree("info", line, reply, "")
        return
    ctx.sample({"op": "info", "reply": reply[:300]})
    # correspondence: constant prefixes and the group dictionary
    for sn, row in r["prefixes"].items():
        if iprefix.get(sn) != row:
            ctx.disagree("prefix", {"layer": desc, "service": view.sname[sn]}, row, iprefix.get(sn))
            bad = iprefix.get(sn)
            if isinstance(bad, str) or any(isinstance(p, str) and p.startswith("foreign") for _, p in (bad or [])):
                rep.violate("constant-prefix", ["exception", "coded_const_prefix"], str(bad if isinstance(bad, str) else
                            [p for _, p in bad if p.startswith("foreign")][0]),
                            {"layer": desc, "msg": "", "req": None, "strict": True, "info": True},
                            "coded_const_prefix raises for a coding object of the layer, so no message can be decoded on it")
            break
    if igroups != r["groups"]:
        ctx.disagree("groups", {"layer": desc}, r["groups"], igroups)
    # direct oracle: every service is filed under the first (constant) byte of its request, and only there
    if isinstance(igroups, str):
        rep.violate("service-groups", ["exception"], igroups, {"layer": desc, "msg": "", "req": None, "strict": True, "info": True},
                    "ServiceBinner raises")
        return
    for sn, sid in r["sids"].items():
        where = sorted((k is None, k) for k, v in igetitem.items() if sn in v)
        if where != [(sid is None, sid)]:
            first = first_param(view.services[sn - 1])
            ctx.histo("group_violation_first_param", first)
            rep.violate("service-groups", ["misfiled", first], str([k for _, k in where]),
                        {"layer": desc, "msg": "", "req": None, "strict": True, "info": True, "service": view.sname[sn], "expected": sid},
                        f"service whose request starts with the constant byte {sid} is filed under {[k for _, k in where]}")
            break


class HistoryGuard:
    """The main loop makes thousands of calls on one layer object, so a failing call is reported with the witness (layer,
    message, request, mode) only if it gives the same result as the first call on a freshly loaded layer; otherwise the
    result depends on the calls made before, and *that* is reported (clause history-independence, witness = call sequence)."""

    def __init__(self, ctx, rep, desc, view, hi, res):
        self.ctx, self.rep, self.desc, self.view, self.hi, self.res = ctx, rep, desc, view, hi, res
        self.dependent = None

    def violate(self, clause, features, observed, w, what):
        if self.dependent is None and self.rep.is_known(clause, features, observed):
            self.rep.violate(clause, features, observed, w, what)     # an open known finding: nothing to confirm
            return
        if self.dependent is None:
            self.dependent = False
            hist = getattr(self.view, "hist", None)
            if hist is not None and 0 < self.hi < len(hist):
                c = hist[self.hi]
                ref = replay_sequence(self.desc, [public(c)])
                self.ctx.count("violation_confirmed_on_fresh_layer")
                if ref is not None and ref[-1] != self.res:
                    self.dependent = True
                    hs, c2, got = shrink_history(self.desc, hist[:self.hi], c, ref[-1])
                    history_violation(self.ctx, self.rep, self.desc, hs, c2, got if got is not None else self.res, ref[-1], "main-loop")
        if not self.dependent:
            self.rep.violate(clause, features, observed, w, what)


def norm_res(res):
    if res[0] == "err":
        return ("err", "foreign" if res[1].startswith("foreign") else res[1])
    return res


def check_decode(ctx, rep, op, desc, view, info, line, impl, reply):
    (msg, req, strict, tag, exp, outs, hi) = info
    (res, cands) = impl
    ctx.traces += 1
    w = witness(desc, msg, req, strict)
    walk = msg if req is None else req
    if reply is None:
        # layer outside the model's envelope: the Spec answers come from the description
        r = D.desc_reply(view, msg, walk, strict)
        if r is None:
            ctx.count("description_incomplete")
            return
        ctx.case((op, view.dkey, msg, req, strict), nontrivial=bool(r["cands"]))
        ctx.count("cases_decided_by_description")
        ctx.histo("envelope", "unambiguous" if r["unamb"] else "ambiguous")
    else:
        r = D.parse_decode_reply(reply)
        if r is None:
            ctx.disagree(op, line, reply, "")
            return
        ctx.case((op, view.dkey, msg, req, strict), nontrivial=bool(r["cands"]))
        ctx.sample({"line": line[:400], "model": reply[:300], "impl": str(res)[:200]})
        # ---- correspondence
        if cands != r["cands"]:
            ctx.disagree("candidates", w, r["cands"], cands)
        if norm_res(res) != r["res"]:
            ctx.disagree(op, w, r["res"], res)
        ctx.histo("model_outcome", r["res"][0] if r["res"][0] == "ok" else "err:" + r["res"][1])
        ctx.histo("envelope", "unambiguous" if r["unamb"] else "ambiguous")
        if view.crosscheck:
            # the Lean Spec (fed with the implementation's per-coding-object outcomes and constant bytes) against the same
            # relation evaluated on the JSON description
            dr = D.desc_reply(view, msg, walk, strict)
            if dr is not None:
                ctx.count("spec_vs_description_compared")
                a = {k: sorted(v) for k, v in r["attr"].items()}
                b = {k: sorted(v) for k, v in dr["attr"].items()}
                if a != b or r["unamb"] != dr["unamb"] or sorted(set(r["cands"])) != dr["cands"]:
                    ctx.disagree("spec-vs-description", w, (a, r["unamb"], sorted(set(r["cands"]))), (b, dr["unamb"], dr["cands"]))
    # ---- direct oracle on the per-coding-object decoding the model takes as given: "parameters match M" read off the
    #      description alone (message long enough, NRC-CONST value one of the alternatives, PHYS-CONST value in strict
    #      mode) against request.decode / response.decode in this mode, for every coding object of the layer
    dcod = getattr(view, "cdesc", {})
    for n, co in view.cobj.items():
        o = outs.get(n)
        cd = dcod.get(n)
        if cd is None or o is None or o == "foreign":
            continue
        why = D.desc_verdict(cd, msg, strict)
        ctx.histo("coding_object_verdict", why or "matches")
        if (o == "ok") != (why is None):
            how = "accepted" if o == "ok" else "rejected"
            ctx.histo("coding_object_violation", f"{how}/{why or 'matches'}/{'strict' if strict else 'lenient'}")
            rep.violate("coding-object-match", [how, why or "matches", "strict" if strict else "lenient"], o,
                        {**w, "coding": cd["name"], "expected": why or "ok"},
                        f"{'request' if view.is_request(n) else 'response'} {cd['name']} {'decodes' if o == 'ok' else 'does not decode'} "
                        f"{msg.hex()} in {'strict' if strict else 'non-strict'} mode ({o}) although its parameters "
                        f"{'do not match (' + why + ')' if why else 'match'}")
            break
    # ---- direct oracle: the Lean *Spec* (attributed services) against the implementation
    rep = HistoryGuard(ctx, rep, desc, view, hi, res)
    attr = r["attr"]
    if any(o == "foreign" for o in outs.values()):
        ctx.count("oracle_foreign_outcome")     # C05's business
        return
    if res[0] == "err" and res[1] != "decode":
        rep.violate("only-decode-errors", ["exception", res[1].split(":")[1]], res[1], w,
                    f"{'decode' if op == 'decode' else 'decode_response'} raised {res[1]}")
        return
    reported = {} if res[0] == "err" else {}
    if res[0] == "ok":
        for sn, cn in res[1]:
            if cn is not None:
                reported.setdefault(sn, set()).add(cn)
    names = lambda ss: sorted(view.sname.get(s, "?") for s in ss)
    if op == "decode":
        if strict and not r["unamb"]:
            ctx.count("oracle_skipped_ambiguous")
        else:
            ctx.count("oracle_attribution_checked" if strict else "oracle_attribution_checked_lenient")
            missing = set(attr) - set(reported)
            extra = set(reported) - set(attr)
            for sn in sorted(missing):
                if all(p == "-" for _, p in attr[sn]):
                    cause = "empty-prefix"
                elif res[0] == "err":
                    cause = "decode-aborted"
                elif isinstance(cands, list) and sn in cands:
                    cause = "candidate-dropped"
                else:
                    cause = "not-a-candidate"
                ctx.histo("attribution_violation", "missing/" + cause)
                rep.violate("attribution", ["service-missing", cause], "not-reported",
                            {**w, "missing": view.sname[sn], "attributed": names(attr), "reported": names(reported),
                             "impl": str(res)},
                            f"message {msg.hex()} matches a coding object of service {view.sname[sn]} but decode() does not report it ({cause})")
            for sn in sorted(extra):
                kinds = sorted({view.kind(c) for c in reported[sn]})
                ctx.histo("attribution_violation", "extra/" + "+".join(kinds))
                rep.violate("attribution", ["service-extra"] + ["via-" + k for k in kinds], "reported",
                            {**w, "extra": view.sname[sn], "attributed": names(attr), "reported": names(reported)},
                            f"decode() attributes {msg.hex()} to service {view.sname[sn]} although none of its coding objects matches")
            if not missing and not extra:
                # the coding object reported for a service is one that matches
                for sn, cs in reported.items():
                    ok = {c for c, _ in attr[sn]}
                    if not cs <= ok:
                        rep.violate("attribution", ["wrong-coding-object"], "reported", {**w, "service": view.sname[sn]},
                                    "decode() reports a coding object which does not match the message")
                        break
            if tag.startswith("own") and attr:
                ctx.count("own_encoding_attributed")
        # the encodings of a service's own request / responses (through the real encoder and written down from the description)
        # are attributed to that service — decided from the description alone (constant prefix, parameter verdict), no Spec
        for sn, cn in (exp or []):
            cd = dcod.get(cn)
            s = view.services[sn - 1] if 0 < sn <= len(view.services) else None
            rqd = dcod.get(view.cno.get(id(s.request))) if s is not None and s.request is not None else None
            if cd is None or rqd is None:
                continue
            pre = view.dprefix(s, cn)
            if msg[:len(pre)] != pre or D.desc_verdict(cd, msg, strict) is not None:
                ctx.count("own_encoding_not_matching_its_description")    # e.g. an echo of request bytes which do not exist
                continue
            if not pre:
                ctx.count("own_encoding_skipped_empty_prefix")            # open finding c06-empty-prefix (reported above)
                continue
            if strict and not r["unamb"]:
                continue
            ctx.count("own_encoding_checked")
            what = "request" if view.is_request(cn) else "response"
            if sn not in reported:
                rep.violate("own-encoding", [what, "service-missing"], "not-reported" if res[0] == "ok" else "decode-error",
                            {**w, "service": view.sname[sn], "coding": cd["name"], "reported": names(reported)},
                            f"{msg.hex()} is an encoding of the {what} {cd['name']} of service {view.sname[sn]} (constant prefix {pre.hex()}), "
                            f"but decode() {'reports only ' + str(names(reported)) if res[0] == 'ok' else 'raises a DecodeError'}")
            elif strict and cn not in reported[sn]:
                rep.violate("own-encoding", [what, "other-coding-object"], "reported",
                            {**w, "service": view.sname[sn], "coding": cd["name"]},
                            f"{msg.hex()} is an encoding of the {what} {cd['name']} of service {view.sname[sn]}, but decode() reports "
                            f"another coding object of that service")
    elif op == "response":
        # soundness: only services found through the request (Spec `Found` = the model's walk, C06_prefix_tree_complete_partial) ...
        found = set(r["cands"])
        for sn in sorted(set(reported) - found):
            rep.violate("response-via-request", ["service-extra", "request-does-not-match"], "reported",
                        {**w, "service": view.sname.get(sn)},
                        f"decode_response() attributes {msg.hex()} to service {view.sname.get(sn)} although the request "
                        f"{req.hex()} does not start with a constant prefix of that service")
            break
        # ... reported ⊆ attributed for the response; completeness for the service that was asked
        for sn, cs in reported.items():
            ok = {c for c, _ in attr.get(sn, [])}
            if not cs <= ok:
                kinds = sorted({view.kind(c) for c in cs - ok})
                rep.violate("response-via-request", ["service-extra"] + ["via-" + k for k in kinds], "reported",
                            {**w, "service": view.sname.get(sn)},
                            "decode_response() reports a coding object which does not match the response")
                break
        if exp is not None and r["unamb"]:
            sn, cn = exp
            s = view.services[sn - 1]
            pfx = dict(attr.get(sn, []))
            try:
                rp = bytes(s.request.coded_const_prefix())
            except Exception:
                rp = None
            if cn in pfx and rp:   # the response object matches (oracle ok + prefix) and the request prefix is not empty
                ctx.count("oracle_response_checked")
                if cn not in reported.get(sn, set()):
                    cause = "decode-aborted" if res[0] == "err" else "dropped"
                    rep.violate("response-via-request", ["service-missing", cause], "not-reported", {**w, "service": view.sname[sn]},
                                f"the response {msg.hex()} of service {view.sname[sn]} is not found through its request {req.hex()}")
            elif cn in pfx:
                ctx.count("oracle_response_skipped_empty_request_prefix")


# ---------------------------------------------------------------- corpus: the defects of the pinned commit
def cc(v, bl=8):
    return {"k": "cc", "v": v, "bl": bl}


VAL8, VAL16 = {"k": "val", "bl": 8}, {"k": "val", "bl": 16}
CORPUS = [
    # ledger row 10: `22 01 x` fails with "expected a longer message" and aborted the decode although `22 y` matches
    ({"services": [{"name": "A", "req": {"name": "rqA", "params": [cc(0x22), cc(1), VAL8]}, "pos": [], "neg": []},
                   {"name": "B", "req": {"name": "rqB", "params": [cc(0x22), VAL8]}, "pos": [], "neg": []}], "gnrs": []},
     [("decode", "2201", None), ("decode", "220105", None)]),
    # the same inside one service: two positive responses of different length
    ({"services": [{"name": "A", "req": {"name": "rqA", "params": [cc(0x22), VAL8]},
                    "pos": [{"name": "prLong", "params": [cc(0x62), VAL16]}, {"name": "prShort", "params": [cc(0x62), VAL8]}], "neg": []}],
      "gnrs": []},
     [("decode", "6205", None), ("response", "6205", "2201")]),
    # ledger row 11 (open finding): empty constant prefix
    ({"services": [{"name": "C", "req": {"name": "rqC", "params": [VAL8]}, "pos": [], "neg": []},
                   {"name": "B", "req": {"name": "rqB", "params": [cc(0x22), VAL8]}, "pos": [], "neg": []}], "gnrs": []},
     [("decode", "33", None), ("decode", "2205", None)]),
    # a global negative response was applied without looking at its constant prefix
    ({"services": [{"name": "A", "req": {"name": "rqA", "params": [cc(0x22), cc(1), VAL8, VAL8]}, "pos": [], "neg": []}],
      "gnrs": [{"name": "gn", "params": [cc(0x7F), {"k": "mr", "pos": 0, "len": 1}, VAL8]}]},
     [("decode", "220105", None), ("decode", "7f2211", None), ("response", "7f3111", "22010506"), ("response", "7f2211", "22010506")]),
    # MATCHING-REQUEST-PARAM reaching beyond the constant prefix of the request: EncodeError from every decode
    ({"services": [{"name": "A", "req": {"name": "rqA", "params": [cc(0x22), cc(0xF1), VAL8]},
                    "pos": [{"name": "prEcho", "params": [cc(0x62), {"k": "mr", "pos": 1, "len": 2}, VAL8]}], "neg": []}], "gnrs": []},
     [("decode", "22f105", None), ("decode", "62f10507", None), ("response", "62f10507", "22f105")]),
    # ServiceBinner: request starting with a PHYS-CONST
    ({"services": [{"name": "D", "req": {"name": "rqD", "params": [{"k": "pc", "v": 0x31, "bl": 8}, VAL8]}, "pos": [], "neg": []},
                   {"name": "E", "req": {"name": "rqE", "params": [cc(0x3101, 16), VAL8]}, "pos": [], "neg": []}], "gnrs": []},
     [("decode", "3105", None), ("decode", "310105", None)]),
    # test-suite shape: NRC-CONST alternatives + global negative response without matching-request parameter
    ({"services": [{"name": "A", "req": {"name": "rqA", "params": [cc(0x10), VAL8]},
                    "pos": [{"name": "pr", "params": [cc(0x50), {"k": "mr", "pos": 1, "len": 1}]}],
                    "neg": [{"name": "n1", "params": [cc(0x7F), {"k": "mr", "pos": 0, "len": 1}, {"k": "nrc", "vals": [0x12, 0x13], "bl": 8}]},
                            {"name": "n2", "params": [cc(0x7F), {"k": "mr", "pos": 0, "len": 1}, {"k": "nrc", "vals": [0x22], "bl": 8}]}]}],
      "gnrs": [{"name": "gn", "params": [cc(0x7F), VAL8, VAL8]}]},
     [("decode", "7f1012", None), ("decode", "7f1022", None), ("decode", "7f1033", None), ("decode", "7f1133", None),
      ("response", "5003", "1003"), ("response", "7f1022", "1003")]),
    # layers with parents (somersault shape: an ECU variant which does not inherit one of the global negative responses of
    # its base variant): the excluded one must not be used, the other one must
    ({"services": [], "gnrs": [], "not_inherited": {"services": [], "gnrs": ["gnHot"]},
      "base": {"services": [{"name": "A", "req": {"name": "rqA", "params": [cc(0x10), VAL8]},
                             "pos": [{"name": "pr", "params": [cc(0x50), {"k": "mr", "pos": 1, "len": 1}]}],
                             "neg": [{"name": "n1", "params": [cc(0x7F), {"k": "mr", "pos": 0, "len": 1}, {"k": "nrc", "vals": [0x12, 0x13], "bl": 8}]}]}],
               "gnrs": [{"name": "gnHot", "params": [cc(0x7F), {"k": "mr", "pos": 0, "len": 1}, cc(0xA7), VAL8]},
                        {"name": "gnBusy", "params": [cc(0x7F), {"k": "mr", "pos": 0, "len": 1}, cc(0x21)]}]}},
     [("decode", "7f10a705", None), ("decode", "7f1021", None), ("decode", "7f1012", None), ("decode", "1003", None),
      ("response", "7f10a705", "1003"), ("response", "7f1021", "1003"), ("response", "5003", "1003")]),
    # three levels: the base variant overrides a global negative response of the functional group and does not inherit one of
    # its services; the ECU variant overrides a service and excludes the (overriding) global negative response
    ({"services": [{"name": "A", "req": {"name": "rqA2", "params": [cc(0x10), cc(2), VAL8]}, "pos": [], "neg": []}], "gnrs": [],
      "not_inherited": {"services": ["gn"], "gnrs": ["gn", "B"]},
      "base": {"services": [], "gnrs": [{"name": "gn", "params": [cc(0x7F), {"k": "mr", "pos": 0, "len": 1}, cc(0x31)]}],
               "not_inherited": {"services": ["B"], "gnrs": []},
               "base": {"services": [{"name": "A", "req": {"name": "rqA", "params": [cc(0x10), VAL8]}, "pos": [], "neg": []},
                                     {"name": "B", "req": {"name": "rqB", "params": [cc(0x22), VAL8]}, "pos": [], "neg": []},
                                     {"name": "C", "req": {"name": "rqC", "params": [cc(0x2E), VAL8]}, "pos": [], "neg": []}],
                        "gnrs": [{"name": "gn", "params": [cc(0x7F), {"k": "mr", "pos": 0, "len": 1}, VAL8]},
                                 {"name": "gn2", "params": [cc(0x7F), {"k": "mr", "pos": 0, "len": 1}, cc(0x78), VAL8]}]}}},
     [("decode", "100205", None), ("decode", "1005", None), ("decode", "2205", None), ("decode", "2e05", None),
      ("decode", "7f1031", None), ("decode", "7f2e11", None), ("decode", "7f107805", None), ("decode", "7f2e7805", None),
      ("response", "7f1031", "100205"), ("response", "7f2e7805", "2e05"), ("response", "7f227805", "2205")]),
]


def corpus_cases(items):
    return [(op, bytes.fromhex(m), None if rq is None else bytes.fromhex(rq), "corpus", None) for op, m, rq in items]


def run(ctx):
    big = ctx.tier == "thorough"
    rep = Reporter(ctx)
    pending = []
    for desc, items in CORPUS:
        eval_layer(ctx, rep, desc, ctx.rng, big, pending, corpus=corpus_cases(items))
    flush(ctx, rep, pending)
    # enumerated small-scope families: every coding of the leading constant(s) of a request (byte order, length, base type,
    # CODED-/PHYS-CONST; inside the model's envelope: full pipeline + Lean Spec against the description), and leading bytes
    # assembled from constants with BIT-/BYTE-POSITION in every listing order (outside the envelope: description-level oracles)
    for fam, gen in (("enum-leading-constant", D.enum_leading_constant), ("enum-positioned-constant", D.enum_positioned_constant)):
        for i, (desc, meta) in enumerate(gen(big, ctx.sub_rng(fam, "shuffle"))):
            rng = ctx.sub_rng(fam, i)
            ctx.count("layers:" + fam)
            eval_layer(ctx, rep, desc, rng, big, pending, corpus=lambda view, d=desc, r=rng: D.enum_cases(d, view, r),
                       nprobes=4, crosscheck=True, lenient=1.0 if big else 0.3)
            if len(pending) > 4000:
                flush(ctx, rep, pending)
    flush(ctx, rep, pending)
    n_layers = 2500 if big else 320
    for i in range(n_layers):
        rng = ctx.sub_rng("layer", i)
        desc = D.gen_layer(rng)
        eval_layer(ctx, rep, desc, rng, big and i % 10 == 0, pending, hrng=ctx.sub_rng("history", i))
        if len(pending) > 4000:
            flush(ctx, rep, pending)
    flush(ctx, rep, pending)
    # layers with parents: ECU variant under a base variant (under a functional group), PARENT-REFs with exclusion lists
    for i in range(500 if big else 80):
        rng = ctx.sub_rng("hier-layer", i)
        desc = D.gen_hier_layer(rng)
        eval_layer(ctx, rep, desc, rng, big and i % 10 == 0, pending, hrng=ctx.sub_rng("hier-history", i))
        if len(pending) > 4000:
            flush(ctx, rep, pending)
    flush(ctx, rep, pending)
    rep.finish()


def replay(ctx, data):
    w = data["witness"]
    if w.get("history") is not None:       # a call sequence: the last call against the same call on a fresh layer
        final = {k: w[k] for k in ("msg", "req", "strict", "main") if k in w}
        got = replay_sequence(w["layer"], list(w["history"]) + [final])
        ref = replay_sequence(w["layer"], [public(final)])
        return got is not None and ref is not None and got[-1] == ref[-1]
    sub = type(ctx)(ctx.pid, ctx.tier, ctx.seed)
    rep = Reporter(sub, raw=True)
    pending = []
    cases = [] if w.get("info") else [("decode" if w["req"] is None else "response", bytes.fromhex(w["msg"]),
                                      None if w["req"] is None else bytes.fromhex(w["req"]), "replay", None)]
    eval_layer(sub, rep, w["layer"], sub.rng, False, pending, corpus=cases)
    if not w.get("strict", True):
        pass
    flush(sub, rep, pending)
    return not sub.violations and not sub.disagreements
