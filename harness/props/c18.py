"""C18 — the comparison and listing tools report the true differences and counts."""
import copy
import json

import compare_lib as L

ID = "C18"
LEAN_TARGETS = ["OdxVerif.Props.C18"]
DRIVERS = ["drv_compare"]
P = "OdxVerif.Compare."
THEOREMS = [P + t for t in [
    "C18_self", "C18_add", "C18_delete", "C18_rename", "C18_param_change", "C18_param_change_rows",
    "C18_self_db", "C18_db_edit", "C18_metrics", "C18_metrics_rows",
    "C18_self_needs_distinctNames", "C18_self_needs_hasRequests", "C18_add_needs_prefixAbsent", "C18_add_needs_distinctNames",
    "C18_delete_needs_prefixAbsent", "C18_rename_needs_prefixAbsent", "C18_rename_needs_prefix", "C18_rename_needs_newName",
    "C18_param_change_needs_distinctNames",
    "C18_rename_pinned_counterexample", "C18_delete_pinned_counterexample", "C18_metrics_pinned_counterexample"]]
RULE = ("generated ODX documents (1-4 layers incl. inheritance: chains and layers with up to three PARENT-REFs carrying NOT-INHERITED-DIAG-COMMS / "
        "-DOPS lists, later layers re-defining services / DOPs of earlier ones under the same short name; 1-5 services per layer with "
        "distinct or shared constant prefixes given by "
        "CODED-CONST and/or PHYS-CONST parameters, 1-4 request parameters of the kinds CODED-CONST, VALUE, PHYS-CONST, SYSTEM, LENGTH-KEY, RESERVED, "
        "DYNAMIC (responses also NRC-CONST, MATCHING-REQUEST-PARAM; enumerated family parameter kind x parameter list x attribute), VALUE "
        "parameters typed by simple DOPs or by STRUCTUREs of static "
        "size, 0-2 positive and 0-1 negative responses, 0-5 COMPARAM-REFs per layer "
        "with or without PROTOCOL-SNREF; the short names of layers, services, parameters, DOPs / STRUCTUREs, units and comparams are the "
        "generator's plain ones or, in half of the documents and in an enumerated family name space x name class, drawn from 13 classes of "
        "legal short names [a-zA-Z0-9_]{1,128}: first character a digit, only digits, python keywords, soft keywords / builtins, attribute "
        "names of list / NamedItemList, leading underscores, mangled / numbered / case twins, one character, 128 characters, prefix chains) "
        "loaded through the XML parser as one DIAG-LAYER-CONTAINER or (half of the multi-layer documents, and an enumerated family of all 13 "
        "ordered partitions of three layers) spread over several containers loaded in any order relative to the inheritance direction, "
        "cross-container references by DOCREF to the container or to the layer; every single edit add / delete / "
        "rename of every service and every applicable attribute edit (byte position, bit length -- incl. the size of the STRUCTURE typing a "
        "parameter --, coded value, semantic, data type, linked DOP / STRUCTURE) of (a sample of) the parameters, observed in the edited layer "
        "and in every inheriting layer (which must report the edit, or nothing when it does not inherit the edited service); every 8th edit "
        "(all in the enumerated layout family) additionally made in place on a loaded database of the old document followed by "
        "Database.refresh() -- call histories N, NR, RN, NON, NO: edit, edit + second refresh, refresh + edit, edit-undo-edit, edit-undo -- "
        "where the database reached must be reported (layer comparison, compare_databases, overview) exactly like a freshly loaded one and "
        "must not differ from it; plus structural edits (parameter/response added or removed, DOP changed, two edits at "
        "once) for correspondence only; distinct = distinct (old spec, new spec, layer); non-trivial = the two layers differ")
TRUSTED = ["model lean/OdxVerif/Model/Compare.lean is hand-written; tied to odxtools/cli/compare.py and _print_utils.print_dl_metrics by "
           "comparing the returned dictionaries (canonicalised to short names, sets sorted) and the rendered table rows",
           "inputs of the model computed by the real code and taken as given: request.coded_const_prefix(), get_static_bit_length(), "
           "`==` classes of DiagService / DOP / Unit objects, parameter attributes",
           "the XML builder and the expected-report oracle in harness/compare_lib.py / props/c18.py (model-free: expectation is computed "
           "from the edit that was applied; the constant request prefix that decides the add/delete/rename envelope is computed from the "
           "spec (compare_lib.spec_prefix) as well as by the implementation, a case is claimed when either says 'not shared')",
           "the inheritance rule used by the count / visibility oracle (compare_lib.visible_map: own objects + per PARENT-REF the parent's "
           "objects minus that PARENT-REF's NOT-INHERITED names, highest-priority parent wins, own overrides) and the static size of a "
           "STRUCTURE (compare_lib.dop_bits), both computed from the spec alone",
           "Rich table rendering (the table is rendered with a 300-column console and parsed back)",
           "the in-place edit of a loaded database (compare_lib.load_history): the fields of the DiagLayerRaw object of every layer whose XML "
           "differs are set to what the XML parser yields for the target document (DiagLayer and DiagLayerRaw objects keep their identity), "
           "then Database.refresh()"]
ASSUMPTIONS = ["envelope: short names distinct within a layer, every service has a request (guaranteed by the loader); add/delete/rename are "
               "claimed for services whose constant request prefix is not shared with another service of the layer, rename additionally needs a "
               "prefix (each shown necessary by a counterexample theorem); outside it only model/implementation correspondence is checked",
               "compared values: ints and strings (a value whose equality differs from equality of its repr, e.g. 1 == 1.0, is outside the model)"]

VALS = (0x01, 0x10, 0x22, 0x2E, 0x31, 0x3E, 0x7F)
DOP_KINDS = ("value", "physconst", "system", "lengthkey")   # the parameter kinds that link a DOP (the subclasses of ParameterWithDOP)
PROTOS = (None, "UDS_CAN", "UDS_DoIP")   # PROTOCOL-SNREF of a COMPARAM-REF (None = element absent)


# ------------------------------------------------------------------ generation
def P_(name, kind="const", **kw):
    d = {"name": name, "kind": kind, "bp": None, "bl": 8, "sem": None}
    d.update(kw)
    return d


def gen_params(rng, dops, prefix, section, sdops=()):
    """sdops: STRUCTUREs a VALUE parameter may be typed by; prefix: the constants leading the request: an int = CODED-CONST (8 bit) with that value, ["pc", value, dop name] = PHYS-CONST"""
    ps = []
    for i, v in enumerate(prefix):
        sem = "SERVICE-ID" if i == 0 and rng.random() < .5 else None
        if isinstance(v, int):
            ps.append(P_(f"c{i}", val=v, sem=sem))
        else:
            ps.append(P_(f"c{i}", "physconst", val=v[1], dop=v[2], sem=sem))
    n_more = rng.randint(0 if ps else 1, max(0, 4 - len(ps)))
    for i in range(n_more):
        r = rng.random()
        nm = f"p{i}"
        if r < .5 and sdops and rng.random() < .3:
            ps.append(P_(nm, "value", dop=rng.choice(sdops)["name"], default=None, sem=rng.choice([None, None, "DATA"])))
        elif r < .5 and rng.random() < .3:
            # the other parameter classes that link a DOP (ParameterWithDOP): SYSTEM, LENGTH-KEY
            ps.append(P_(nm, rng.choice(DOP_KINDS[2:]), dop=rng.choice(dops)["name"], sem=rng.choice([None, None, "DATA"])))
        elif r < .5:
            ps.append(P_(nm, "value", dop=rng.choice(dops)["name"], default=(rng.choice(VALS) if rng.random() < .3 else None),
                         sem=rng.choice([None, None, "DATA"])))
        elif r < .62:
            ps.append(P_(nm, "physconst", dop=rng.choice(dops)["name"], val=rng.choice(VALS)))
        elif r < .74:
            ps.append(P_(nm, "reserved", bl=rng.choice([4, 8, 16])))
        elif r < .84 and section == "neg":
            ps.append(P_(nm, "nrc", vals=sorted(rng.sample(VALS, 2)), bl=8))
        elif r < .9 and section != "req":
            ps.append(P_(nm, "matching", val=rng.randint(0, 1), bl=8))
        elif r < .97:
            ps.append(P_(nm, "const", val=rng.choice(VALS), bl=rng.choice([8, 16])))
        else:
            ps.append(P_(nm, "dynamic", bl=0))
        if rng.random() < .25:
            ps[-1]["bp"] = len(ps) - 1 + rng.randint(0, 1)
    return ps[:4] if section == "req" else ps


def lead_val(x):
    return x if isinstance(x, int) else x[1]


def lead_of(svc):
    """the prefix element (see gen_params) describing the first request parameter of a service spec, None if it is no constant"""
    if not svc["req"]:
        return None
    p = svc["req"][0]
    if p["kind"] == "const" and p["bl"] == 8 and p.get("bt", "A_UINT32") == "A_UINT32":
        return p["val"]
    if p["kind"] == "physconst":
        return ["pc", p["val"], p["dop"]]
    return None


def gen_service(rng, name, dops, prefix, sdops=()):
    s = {"id": name, "name": name, "req": gen_params(rng, dops, prefix, "req", sdops), "pos": [], "neg": []}
    for _ in range(rng.choice([0, 1, 1, 2])):
        s["pos"].append(gen_params(rng, dops, [(lead_val(prefix[0]) + 0x40) & 0xFF] if prefix else [], "pos", sdops)[:3] or [P_("c0", val=0x40)])
    if rng.random() < .4:
        s["neg"].append(gen_params(rng, dops, [0x7F], "neg", sdops)[:3])
    return s


def gen_struct(rng, name, dops):
    """a STRUCTURE of static size: 1-3 members (constants, reserved bits, values typed by simple DOPs), some at an explicit
    BYTE-POSITION, with or without BYTE-SIZE (>= the bytes the members span)"""
    ms = []
    for i in range(rng.randint(1, 3)):
        r = rng.random()
        if r < .5:
            ms.append(P_(f"m{i}", "value", dop=rng.choice(dops)["name"], default=None))
        elif r < .8:
            ms.append(P_(f"m{i}", "const", val=rng.choice(VALS), bl=rng.choice([8, 16])))
        else:
            ms.append(P_(f"m{i}", "reserved", bl=rng.choice([4, 8, 16])))
        if rng.random() < .2:
            ms[-1]["bp"] = i + rng.randint(0, 2)
    sd = {"name": name, "members": ms, "byte_size": None}
    if rng.random() < .3:
        sd["byte_size"] = (L.dop_bits({"dops": dops, "sdops": [sd]}, name) or 0) // 8 + rng.randint(0, 2)
    return sd


LEGAL_PARENTS = {"ECU-SHARED-DATA": (), "FUNCTIONAL-GROUP": ("ECU-SHARED-DATA",), "BASE-VARIANT": ("ECU-SHARED-DATA", "FUNCTIONAL-GROUP"),
                 "ECU-VARIANT": ("ECU-SHARED-DATA", "FUNCTIONAL-GROUP", "BASE-VARIANT")}


def gen_spec(rng, big=False, shape=None, nsvc_first=None, distinct=False):
    """shape / nsvc_first / distinct: fixed shape, number of services of the first layer, pairwise distinct leading constants
    (the enumerated small-scope families want every add / delete / rename inside the envelope)"""
    ndops = rng.randint(2, 4)
    units = [{"name": "km", "display": "km"}, {"name": "mph", "display": rng.choice(["mph", "km"])}][:rng.randint(0, 2)]
    dops = []
    for i in range(ndops):
        bt = rng.choice(["A_UINT32", "A_UINT32", "A_INT32"])
        dops.append({"name": f"d{i}", "bt": bt, "bl": rng.choice([8, 8, 16, 32]), "phys": rng.choice([bt, bt, "A_UINT32", "A_INT32"]),
                     "unit": (rng.choice(units)["name"] if units and rng.random() < .5 else None)})
    # STRUCTUREs of static size that VALUE parameters are typed by (half of the documents)
    sdops = [gen_struct(rng, f"r{i}", dops) for i in range(rng.choice([0, 0, 1, 2, 3]))]
    cps = [f"CP_{c}" for c in "abc"][:rng.randint(0, 3)]
    # a trailing * = every later layer draws its PARENT-REFs (mostly two or more) among the earlier layers; otherwise a chain
    shape = shape or rng.choice(["bv", "bv", "bv+ev", "esd+bv", "fg+bv+ev", "fg+bv+ev*", "esd+fg+bv*", "esd+fg+bv+ev*"] if big else
                                ["bv", "bv", "bv", "bv+ev", "esd+bv", "fg+bv+ev", "fg+bv+ev*", "esd+fg+bv*", "esd+fg+bv+ev*"])
    free_vals = list(VALS)
    if distinct:
        rng.shuffle(free_vals)
    multi = shape.endswith("*")
    layers = []
    spec = {"dops": dops, "sdops": sdops, "units": units, "comparams": cps, "layers": layers}
    kinds = {"bv": "BASE-VARIANT", "ev": "ECU-VARIANT", "esd": "ECU-SHARED-DATA", "fg": "FUNCTIONAL-GROUP"}
    prev = None
    for tag in shape.rstrip("*").split("+"):
        ln = tag.upper()
        nsvc = (nsvc_first or rng.randint(1, 5)) if prev is None else rng.randint(0, 2)
        svcs = []
        # how the requests of this layer are identified: by a CODED-CONST, by a PHYS-CONST (value given through a DOP), or either
        sidkind = rng.choice(["const", "const", "const", "phys", "mixed"])
        for k in range(nsvc):
            r = rng.random()
            if distinct and not free_vals:
                break
            if r < .12 and not distinct:
                prefix = []                                   # no constant prefix (b"")
            elif r < .35 and svcs and lead_of(svcs[-1]) is not None and not distinct:
                prefix = [lead_of(svcs[-1])]                  # shared with the previous service
            else:
                v = free_vals.pop() if distinct else rng.choice(VALS)
                if sidkind == "phys" or (sidkind == "mixed" and rng.random() < .5):
                    prefix = [["pc", v, rng.choice(dops)["name"]]]
                else:
                    prefix = [v]
                if rng.random() < .4:                         # sub-function
                    prefix.append(["pc", k + 1, rng.choice(dops)["name"]] if sidkind != "const" and rng.random() < .5 else k + 1)
            svcs.append(gen_service(rng, f"{ln}_S{k}", dops, prefix, sdops))
        # the first layer defines all DOPs and structures
        L_ = {"name": ln, "kind": kinds[tag], "parent": prev, "own_dops": [d["name"] for d in dops] if prev is None else [],
              "own_sdops": [d["name"] for d in sdops] if prev is None else [],
              "cprefs": [], "services": svcs, "structs": rng.choice([0, 0, 1, 2])}
        if prev is not None and rng.random() < (.6 if multi else .3):
            # a later layer has its own flavour of a service / its own copy of a DOP that an earlier layer defines under the same short name
            earlier = [s_["name"] for l in layers for s_ in l["services"]]
            if earlier and rng.random() < .8:
                d = gen_service(rng, f"{ln}_D0", dops, [rng.choice(VALS)], sdops)
                d["name"] = rng.choice(earlier)
                if d["name"] not in {x["name"] for x in svcs}:
                    svcs.insert(rng.randint(0, len(svcs)), d)
            L_["dup_dops"] = rng.sample([d["name"] for d in dops], rng.randint(0, 2))
        if multi and prev is not None:
            # PARENT-REFs: a subset of the earlier layers (of kinds this layer may inherit from), mostly all of them
            legal = [l for l in layers if l["kind"] in LEGAL_PARENTS[kinds[tag]]]
            chosen = [l for l in legal if rng.random() < .8] or [rng.choice(legal)]
            L_["parent"] = None
            L_["parents"] = [{"name": l["name"], "ni_svcs": [], "ni_dops": []} for l in chosen]
        refs = L_.get("parents") if L_.get("parents") is not None else ([{"name": prev, "ni_svcs": [], "ni_dops": []}] if prev else [])
        # NOT-INHERITED-DIAG-COMMS / -DOPS per PARENT-REF, preferably short names that another PARENT-REF offers as well
        for ref in refs:
            for what, key in (("services", "ni_svcs"), ("dops", "ni_dops")):
                if rng.random() >= (.6 if multi else .25):
                    continue
                here = sorted(L.visible_map(spec, ref["name"], what))
                also = sorted({n for o in refs if o is not ref for n in L.visible_map(spec, o["name"], what)} & set(here))
                pool = also if also and rng.random() < .7 else here
                if pool:
                    ref[key] = rng.sample(pool, min(len(pool), rng.randint(1, 2)))
        if refs and any(r["ni_svcs"] or r["ni_dops"] for r in refs):
            L_["parent"] = None
            L_["parents"] = refs
        if tag != "esd" and cps:
            # the same comparam may be given per protocol (PROTOCOL-SNREF) and/or once without protocol
            multi_p = rng.random() < .5
            pairs = [[c, pr] for c in cps for pr in (PROTOS if multi_p else PROTOS[:1])]
            L_["cprefs"] = rng.sample(pairs, rng.randint(0, min(len(pairs), 5)))
        layers.append(L_)
        prev = ln
    return spec


def reaches(layers, x, target):
    return L.inherits_from({"layers": layers}, x["name"], target)


def shadowed_exclusions(spec):
    """number of (layer, kind, short name) where the name is NOT-INHERITED on one PARENT-REF but offered by another one of the same layer"""
    n = 0
    for l in spec["layers"]:
        refs = L.parent_refs(l)
        for what, key in (("services", "ni_svcs"), ("dops", "ni_dops")):
            for ref in refs:
                for name in ref.get(key) or []:
                    n += any(name in L.visible_map(spec, o["name"], what) and name not in (o.get(key) or []) for o in refs if o is not ref)
    return n


# ------------------------------------------------------------------ expected counts (model-free)
def visible(spec, lname, what):
    """number of short names (services, DOPs) / (comparam, protocol) pairs a layer offers after inheritance: several
    PARENT-REFs, NOT-INHERITED lists per PARENT-REF, child overrides parent by short name (compare_lib.visible_map)"""
    if what in ("services", "dops"):
        return len(L.visible_map(spec, lname, what))
    return len(L.visible_comparams(spec, lname))


# ------------------------------------------------------------------ one comparison case
class Pending:
    def __init__(self):
        self.items = []   # (family, witness, request line, impl canonical, kind)


def fmt_hex(v, bl):
    return f"0x{v:0{bl // 4}X}"


def expected_rows(spec_old, p_old, p_new, attr, spec_new=None):
    """the table rows the tool must show for a single attribute edit (Property, Old, New)"""
    if attr == "bytepos":
        return [["Byte position", str(p_old.get("bp")), str(p_new.get("bp"))]]
    if attr == "semantic":
        return [["Semantic", str(p_old.get("sem")), str(p_new.get("sem"))]]
    if attr == "bitlen" and p_old["kind"] == "value":
        # the parameter is the sole user of a STRUCTURE whose size changed: its bit length changed, through its (same-named) DOP
        return [["Bit Length", str(L.dop_bits(spec_old, p_old["dop"])), str(L.dop_bits(spec_new, p_new["dop"]))], ["Linked DOP object", "", ""]]
    if attr == "bitlen":
        return [["Bit Length", str(p_old["bl"]), str(p_new["bl"])]]
    if attr == "value":
        return [["Value", fmt_hex(p_old["val"], p_old["bl"]), fmt_hex(p_new["val"], p_new["bl"])]]
    if attr == "datatype":
        return [["Data type", p_old.get("bt", "A_UINT32"), p_new.get("bt", "A_UINT32")]]
    if attr == "dop":
        d = {x["name"]: x for x in spec_old["dops"]}
        o, n = d.get(p_old["dop"]), d.get(p_new["dop"])        # None: a STRUCTURE (has neither unit nor physical type)
        bo, bn = L.dop_bits(spec_old, p_old["dop"]), L.dop_bits(spec_old, p_new["dop"])
        rows = []
        if bo != bn:
            rows.append(["Bit Length", str(bo), str(bn)])
        rows.append(["Linked DOP object", "", ""])
        rows.append([" DOP name", p_old["dop"], p_new["dop"]])
        if o and n and o.get("unit") and n.get("unit") and o["unit"] != n["unit"]:
            rows.append(["  DOP unit name", o["unit"], n["unit"]])
        if o and n and o["phys"] != n["phys"]:
            rows.append([" DOP physical data type", o["phys"], n["phys"]])
        return rows
    raise ValueError(attr)


SECTION_TEXT = {"req": "request parameter", "pos": "positive response parameter", "neg": "negative response parameter"}


def expectation(edit, dl_new, dl_old, spec_new=None, spec_old=None, lname=None, ctx=None):
    """-> (expected canonical result | None when outside the envelope, reason)

    Envelope (add / delete / rename): the constant request prefix of the edited service is not shared with another service of
    the other layer.  The prefix is taken (a) from the implementation (`request.coded_const_prefix()`, as before) and (b),
    when the specs are at hand, from the spec alone (`compare_lib.spec_prefix`: the bytes fixed by the leading CODED-CONST /
    PHYS-CONST parameters).  The case is claimed when either says "not shared", so an implementation which computes too
    short a prefix cannot move a case out of the envelope."""
    empty = {"new": [], "deleted": [], "renamed": [], "changed": []}
    kind = edit["kind"]
    if kind in ("self", "unseen"):
        # unseen: the edited service is not offered by this layer (NOT-INHERITED on every path, or overridden): nothing to report
        return empty, ""

    def prefix(dl, name):
        s = next(x for x in dl.services if x.short_name == name)
        return None if s.request is None else s.request.coded_const_prefix()

    def by_impl(dl_p, dl_others, skip=None, need_prefix=False):
        try:
            p = prefix(dl_p, edit["service"])
            others = [prefix(dl_others, s.short_name) for s in dl_others.services if s.short_name != skip]
            return not (p in others or (need_prefix and p is None))
        except Exception:  # noqa
            return False

    def by_spec(spec_p, spec_others, skip=None):
        if spec_p is None or spec_others is None or lname is None:
            return None
        try:
            svc = L.visible_services(spec_p, lname).get(edit["service"])
            p = None if svc is None else L.spec_prefix(spec_p, svc)
            others = L.spec_prefixes(spec_others, lname, exclude=skip)
            if p is None or others is None:
                return None
            return p not in others
        except Exception:  # noqa
            return None

    def inside(a, b):
        if ctx is not None and b is not None:
            ctx.count("prefix:spec-and-impl-agree" if a == b else f"prefix:spec-says-{'unshared' if b else 'shared'}-impl-differs")
        return a or bool(b)

    if kind == "add":
        if not inside(by_impl(dl_new, dl_old), by_spec(spec_new, spec_old)):
            return None, "shared-prefix"
        return {**empty, "new": [edit["service"]]}, ""
    if kind == "delete":
        if not inside(by_impl(dl_old, dl_new), by_spec(spec_old, spec_new)):
            return None, "shared-prefix"
        return {**empty, "deleted": [edit["service"]]}, ""
    if kind == "rename":
        if not inside(by_impl(dl_old, dl_old, skip=edit["service"], need_prefix=True), by_spec(spec_old, spec_old, skip=edit["service"])):
            return None, "shared-prefix"
        return {**empty, "renamed": [[edit["new_name"], edit["service"]]]}, ""
    if kind == "attr":
        sec = edit["loc"][0]
        txt = f"{SECTION_TEXT[sec]} '{edit['param']}',\n"
        return {**empty, "changed": [[edit["service"], txt, [[sec, edit["param"], edit["rows"]]]]]}, ""
    return None, "structural"


def seen_as(edit, spec_old, spec_new, obs, lname):
    """how the single edit of an own service of layer `lname` shows in layer `obs` (= lname or a layer inheriting from it),
    decided from the specs alone: 'clean' = exactly this edit; 'unseen' = `obs` does not offer the edited service (excluded on
    every path / overridden by another layer's service of the same name) so nothing may be reported; 'mixed' = the edit
    uncovers or hides another layer's service of the same short name (not a single edit from `obs`' point of view)"""
    kind = edit["kind"]
    if kind == "self":
        return "clean"
    vo, vn = L.visible_map(spec_old, obs, "services"), L.visible_map(spec_new, obs, "services")
    org = lambda v, name: v[name][0] if name in v else None   # noqa
    s = edit.get("service")
    if kind == "add":
        if s not in vo and org(vn, s) == lname:
            return "clean"
        return "unseen" if vo == vn else "mixed"
    if kind == "delete":
        if org(vo, s) == lname and s not in vn:
            return "clean"
        return "unseen" if org(vo, s) != lname and vo == vn else "mixed"
    if kind == "rename":
        r = edit["new_name"]
        if org(vo, s) == lname and s not in vn and r not in vo and org(vn, r) == lname:
            return "clean"
        return "unseen" if vo == vn else "mixed"
    if kind == "attr":
        if org(vo, s) == lname and org(vn, s) == lname:
            return "clean"
        return "unseen" if org(vo, s) != lname and org(vn, s) != lname else "mixed"
    return "mixed"


def as_seen(edit, cls):
    return {"kind": "unseen", "of": edit} if cls == "unseen" else edit


def features_of(edit, dl_new):
    f = [edit["kind"]]
    if edit["kind"] == "attr":
        f.append(edit["attr"])
    if edit["kind"] == "delete" and len(dl_new.services) == 0:
        f.append("new-layer-empty")
    return f


def hist_db(ctx, spec_a, spec_b, schedule, witness):
    """the database reached by the call history `schedule` (compare_lib.load_history) from spec_a; None when it cannot be had
    (refresh() raising on the edited database is a failure of the tools to report anything: reported)"""
    if schedule == "M":
        dbh, prob = L.load_mutated(spec_a, witness.get("layer"), witness.get("edit") or {})
    else:
        dbh, prob = L.load_history(spec_a, spec_b, schedule)
    if dbh is None:
        ctx.count(f"history-{prob}")
        if prob.startswith("foreign:"):
            ctx.violate("reports-exactly-the-edit", ["history", "refresh-raises"], prob, witness,
                        f"Database.refresh() raised after the loaded database was edited in place (schedule {schedule})")
    return dbh


def run_case(ctx, pend, fam, spec_old, spec_new, lname, edit, db_old=None, oracle=True, db_new=None, history=None, model=True):
    """load both specs, compare layer `lname`; direct oracle + queue the model request (model=False: direct oracle only).  history: the new database is not loaded
    from the new spec but reached by that schedule from a loaded database of the old spec (`edit` then is what the state reached
    differs from the old spec by: the edit, or {"kind": "self"} for a schedule that ends in the old state)"""
    witness = {"old": spec_old, "new": spec_new, "layer": lname, "edit": edit}
    spec_t = spec_new
    if history:
        witness["history"] = history
        spec_t = spec_new if L.schedule_target(history) == "new" else spec_old
    try:
        db_old = db_old or L.load(spec_old)
        if db_new is None and history:
            db_new = hist_db(ctx, spec_old, spec_new, history, witness)
            if db_new is None:
                return None
        db_new = db_new or (db_old if spec_new is spec_old else L.load(spec_new))
        dl_old = next(d for d in db_old.diag_layers if d.short_name == lname)
        dl_new = next(d for d in db_new.diag_layers if d.short_name == lname)
        line = L.compare_request(dl_new, dl_old) if model else None
    except Exception as e:  # the edited document is not loadable / not describable: not a case
        ctx.count(f"skipped:{type(e).__name__}")
        return None
    impl = L.run_compare_layers(dl_new, dl_old)
    ctx.case((json.dumps(spec_old, sort_keys=True), json.dumps(spec_new, sort_keys=True), lname) + ((history,) if history else ()),
             nontrivial=edit["kind"] != "self")
    if history:
        ctx.histo("history_schedule_x_edit", f"{history}:{edit['kind']}")
    ctx.histo("edit", edit["kind"] + (":" + edit["attr"] + ("(structure)" if edit.get("structure") else "") if edit["kind"] == "attr" else ""))
    ctx.histo("services_in_layer", len(dl_old.services))
    if oracle:
        try:
            exp, why = expectation(edit, dl_new, dl_old, spec_t, spec_old, lname, ctx)
        except Exception as e:  # noqa
            exp, why = None, f"oracle-error:{type(e).__name__}"
        if exp is None:
            ctx.count(f"outside-envelope:{why}")
        else:
            ctx.count("oracle-checked")
            if impl != exp:
                obs = impl if isinstance(impl, str) else "wrong-report"
                ctx.violate("reports-exactly-the-edit", features_of(edit, dl_new) + (["after-in-place-edit"] if history else []), obs,
                            {**witness, "reported": impl, "expected": exp},
                            f"{edit['kind']} of service {edit.get('service')} in layer {lname}: reported {short(impl)}, expected {short(exp)}")
    if model:
        pend.items.append((fam, witness, line, impl, "layer"))
    ctx.sample({"edit": edit, "layer": lname, "reported": impl}, limit=8)
    return db_new


def short(r):
    if isinstance(r, str):
        return r
    return json.dumps({k: ([c[:2] + [[e[:2] + [[x[0] for x in e[2]]] for e in c[2]]] for c in v] if k == "changed" else v) for k, v in r.items() if v})[:300]


def run_db_case(ctx, pend, spec_old, spec_new, lname, db_old, db_new, layer_exp, history=None, hist_specs=None, model=True):
    """compare_databases on the two databases; expectation: only layer `lname` (and layers inheriting from it) differ.
    history / hist_specs: db_new was reached by that schedule from hist_specs = [spec loaded, the other spec] (default [old, new])"""
    wit = {"old": spec_old, "new": spec_new, "layer": lname, "edit": {"kind": "db"}}
    if history:
        wit.update({"history": history, "history_specs": hist_specs or [spec_old, spec_new]})
    sel = sorted({d.short_name for d in db_old.diag_layers} | {d.short_name for d in db_new.diag_layers})
    impl = L.run_compare_databases(db_new, db_old, sel)
    if model:
        try:
            line = L.comparedb_request(db_new, db_old, sel)
        except Exception as e:  # noqa
            ctx.count(f"skipped:{type(e).__name__}")
            return
        pend.items.append(("database", {k: v for k, v in wit.items() if k != "edit"}, line, impl, "db"))
    ctx.count("db-compared")
    if isinstance(impl, str):
        ctx.violate("reports-exactly-the-edit", ["database", "raises"], impl, wit, "compare_databases raised")
        return
    if layer_exp is not None:
        empty = {"new": [], "deleted": [], "renamed": [], "changed": []}
        ok = impl["new_layers"] == [] and impl["deleted_layers"] == [] and sorted(impl["layers"]) == sel
        ok = ok and all((v == layer_exp[k]) if k in layer_exp else (v == empty) for k, v in impl["layers"].items())
        if not ok:
            ctx.violate("reports-exactly-the-edit", ["database"] + (["after-in-place-edit"] if history else []), "wrong-report",
                        {**wit, "reported": impl, "expected": layer_exp},
                        "compare_databases does not report exactly the per-layer differences"
                        + (f" (new database reached by in-place edits, schedule {history})" if history else ""))


def metrics_case(ctx, pend, spec, db, history=None, hist_specs=None):
    """history / hist_specs: `db` was not loaded from `spec` but reached by that schedule from hist_specs = [spec loaded, other spec]"""
    wit = {"old": spec, "edit": {"kind": "metrics"}}
    if history:
        wit.update({"history": history, "history_specs": hist_specs})
    rows = L.metrics_rows(db.diag_layers)
    rows2 = L.metrics_rows(None, via_list_tool_db=db)
    true = [[l.short_name, l.variant_type.value, str(visible(spec, l.short_name, "services")), str(visible(spec, l.short_name, "dops")),
             str(visible(spec, l.short_name, "cps") if l.variant_type.value != "ECU-SHARED-DATA" else 0)] for l in db.diag_layers]
    ctx.case(("metrics", json.dumps(spec, sort_keys=True)) + ((history, json.dumps(hist_specs, sort_keys=True)) if history else ()), nontrivial=True)
    ctx.histo("comparams_in_first_layer", true[0][4])
    by_cp = {}
    for l in spec["layers"]:
        for c, pr in l.get("cprefs", []):
            by_cp.setdefault(c, set()).add(pr)
    ctx.histo("max_protocols_per_comparam", max([len(v) for v in by_cp.values()] or [0]))
    for tag, r in (("print_dl_metrics", rows), ("list", rows2)):
        if r != true:
            col = "raises" if isinstance(r, str) else ",".join(
                c for i, c in enumerate(["name", "type", "services", "dops", "comparams"]) if any(len(a) != 5 or a[i] != b[i] for a, b in zip(r, true))) or "rows"
            ctx.violate("metrics-are-actual-counts", ["metrics", col] + (["after-in-place-edit"] if history else []),
                        r if isinstance(r, str) else "wrong-count", {**wit, "rendered": r, "expected": true},
                        f"{tag}: overview rows {r} but the layers actually have {true}"
                        + (f" (database reached by in-place edits, schedule {history})" if history else ""))
            break
    try:
        if not history:
            pend.items.append(("metrics", {k: v for k, v in wit.items() if k != "edit"}, L.metrics_request(db.diag_layers), rows, "metrics"))
    except Exception as e:  # noqa
        ctx.count(f"skipped:{type(e).__name__}")


def flush(ctx, pend):
    drv = ctx.driver("drv_compare")
    replies = drv.query([it[2] for it in pend.items])
    for (fam, witness, line, impl, kind), rep in zip(pend.items, replies):
        if kind == "layer":
            mod = L.model_result(rep)
        elif kind == "db":
            mod = L.model_db_result(rep)
        else:
            mod = L.model_metrics(rep)
        ctx.traces += 1
        if mod != impl:
            ctx.disagree(fam, witness, mod, impl)
    pend.items = []


# ------------------------------------------------------------------ edits
def svc_name_class(spec):
    """the name class the document's service names were drawn from (None: the generator's plain <LAYER>_S<k>)"""
    return (spec.get("naming") or {}).get("services")


def new_service_name(rng, spec, L_, cls=None):
    """short name of a service to be added: unused in the whole document; of the document's service-name class (or `cls`) and,
    for the relational classes, related to a name the layer already uses"""
    names = L.all_names(spec, "services")
    cls = cls or svc_name_class(spec)
    if cls:
        return L.fresh_name(rng, cls, names, near={s["name"] for s in L_["services"]})
    base = L_["name"] if not (spec.get("naming") or {}).get("layers") else "Lyr"
    k = 0
    while f"{base}_N{k}" in names:
        k += 1
    return f"{base}_N{k}"


def rename_target(rng, spec, L_, name, cls=None):
    """the new short name of a renamed service: name_R in plain documents; otherwise a name of the document's class or of any
    other class, half of the time related to the old name itself (its mangled / numbered / case twin, an extension of it)"""
    if cls is None and not svc_name_class(spec):
        return name + "_R"
    names = L.all_names(spec, "services")
    c2 = cls or (svc_name_class(spec) if rng.random() < .5 else rng.choice(L.NAME_CLASSES))
    if c2 == "mixed":
        c2 = rng.choice(L.NAME_CLASSES)
    near = {name} if rng.random() < .5 else {s["name"] for s in L_["services"]}
    return L.fresh_name(rng, c2, names, near=near)


def fresh_service(rng, spec, L_, shared, cls=None):
    name = new_service_name(rng, spec, L_, cls)
    leads = [x for x in (lead_of(s) for s in L_["services"]) if x is not None]
    if shared and leads:
        prefix = [rng.choice(leads)]
    else:
        used = [lead_val(x) for x in leads]
        v = rng.choice([v for v in VALS + (0x05, 0x06, 0x07) if v not in used])
        pcs = [x for x in leads if not isinstance(x, int)]
        # in a layer whose requests are identified by PHYS-CONSTs the new service mostly is, too
        prefix = [["pc", v, rng.choice(pcs)[2]]] if pcs and rng.random() < .7 else [v]
    svc = gen_service(rng, name, spec["dops"], prefix, spec.get("sdops") or ())
    pcls = (spec.get("naming") or {}).get("params")
    if pcls:
        # the parameters of the new service are named like those of the rest of the document
        for ps in [svc["req"]] + svc["pos"] + svc["neg"]:
            for p, nm in zip(ps, L.draw_names(rng, pcls, len(ps))):
                p["name"] = nm
    return svc


def all_edits(rng, spec, lname, max_attr, every_class=False, only_param=None):
    """yield (edit description, new spec) for layer `lname`; every_class: additionally a service of every name class is added,
    and the services are renamed to a name of every name class (service k takes the classes k, k+n, ...); only_param: just the
    attribute edits, and all of them, of the parameters of that name"""
    li = next(i for i, l in enumerate(spec["layers"]) if l["name"] == lname)
    L_ = spec["layers"][li]
    n = len(L_["services"])
    # add (fresh prefix, and shared prefix), at a random position
    for shared, cls in ([(False, None), (True, None)] + ([(False, c) for c in L.NAME_CLASSES] if every_class else [])) if not only_param else []:
        s2 = copy.deepcopy(spec)
        svc = fresh_service(rng, spec, L_, shared, cls)
        s2["layers"][li]["services"].insert(rng.randint(0, n), svc)
        yield {"kind": "add", "service": svc["name"], "shared": shared}, s2
    for k in range(n if not only_param else 0):
        name = L_["services"][k]["name"]
        s2 = copy.deepcopy(spec)
        s2["layers"][li]["services"].pop(k)
        yield {"kind": "delete", "service": name}, s2
        for cls in [None] + ([c for i, c in enumerate(L.NAME_CLASSES) if i % n == k] if every_class else []):
            s2 = copy.deepcopy(spec)
            new_name = rename_target(rng, spec, L_, name, cls)
            s2["layers"][li]["services"][k]["name"] = new_name
            yield {"kind": "rename", "service": name, "new_name": new_name}, s2
    attr_cases = [(k, loc, attr) for k in range(n) for loc in L.locs(L_["services"][k]) for attr in L.ATTR_EDITS]
    rng.shuffle(attr_cases)
    # the sample always contains some edits of parameters typed by a STRUCTURE (size changed / re-linked), when there are any
    on_struct = [c for c in attr_cases if c[2] in ("bitlen", "dop") and L.is_struct(spec, L.get_param(L_["services"][c[0]], c[1]).get("dop"))][:4]
    attr_cases = on_struct + [c for c in attr_cases if c not in on_struct]
    if only_param:
        attr_cases = [c for c in attr_cases if L.get_param(L_["services"][c[0]], c[1])["name"] == only_param]
        max_attr = len(attr_cases)
    done = 0
    for k, loc, attr in attr_cases:
        if done >= max_attr:
            break
        s2 = copy.deepcopy(spec)
        p_old = L.get_param(spec["layers"][li]["services"][k], loc)
        p_new = L.get_param(s2["layers"][li]["services"][k], loc)
        if not L.apply_attr_edit(s2, p_new, attr, rng):
            continue
        done += 1
        e = {"kind": "attr", "attr": attr, "service": L_["services"][k]["name"], "loc": list(loc), "param": p_old["name"],
             "pkind": p_old["kind"], "rows": expected_rows(spec, p_old, p_new, attr, s2)}
        if p_old["kind"] == "value" and (L.is_struct(spec, p_old["dop"]) or L.is_struct(s2, p_new["dop"])):
            e["structure"] = True          # the parameter is typed by a STRUCTURE before and/or after the edit
        yield e, s2


def structural_edits(rng, spec, lname):
    """edits outside the property's list: correspondence only"""
    li = next(i for i, l in enumerate(spec["layers"]) if l["name"] == lname)
    L_ = spec["layers"][li]
    if not L_["services"]:
        return
    k = rng.randrange(len(L_["services"]))
    s2 = copy.deepcopy(spec)
    s2["layers"][li]["services"][k]["req"].append(P_("extra", val=1))
    yield {"kind": "struct", "what": "param-added"}, s2
    s2 = copy.deepcopy(spec)
    s2["layers"][li]["services"][k]["pos"].append([P_("c0", val=0x55)])
    yield {"kind": "struct", "what": "response-added"}, s2
    if L_["services"][k]["pos"]:
        s2 = copy.deepcopy(spec)
        s2["layers"][li]["services"][k]["pos"][0].append(P_("extra", val=2))
        yield {"kind": "struct", "what": "response-param-added"}, s2
    s2 = copy.deepcopy(spec)
    s2["layers"][li]["services"][k]["neg"].append([P_("c0", val=0x7F), P_("nrc", "nrc", vals=[0x10, 0x11])])
    yield {"kind": "struct", "what": "neg-response-added"}, s2
    # a DOP itself changes (all its users are affected)
    s2 = copy.deepcopy(spec)
    d = rng.choice(s2["dops"])
    d["bl"] = 24 if d["bl"] != 24 else 8
    yield {"kind": "struct", "what": "dop-bitlength"}, s2
    if s2["units"]:
        s3 = copy.deepcopy(spec)
        s3["units"][0]["display"] = "changed"
        yield {"kind": "struct", "what": "unit-display"}, s3
    # two edits at once: rename + parameter change; rename + name swap
    s2 = copy.deepcopy(spec)
    s2["layers"][li]["services"][k]["name"] = rename_target(rng, spec, L_, L_["services"][k]["name"])
    if s2["layers"][li]["services"][k]["req"]:
        s2["layers"][li]["services"][k]["req"][-1]["sem"] = "ZZ"
    yield {"kind": "struct", "what": "rename+param"}, s2
    if len(L_["services"]) >= 2:
        s2 = copy.deepcopy(spec)
        a, b = s2["layers"][li]["services"][0], s2["layers"][li]["services"][1]
        a["name"], b["name"] = b["name"], a["name"]
        yield {"kind": "struct", "what": "names-swapped", "both_directions": True}, s2
        s2 = copy.deepcopy(spec)
        s2["layers"][li]["services"][1]["name"] = s2["layers"][li]["services"][0]["name"]     # duplicate short name
        yield {"kind": "struct", "what": "duplicate-name", "both_directions": True}, s2
    s2 = copy.deepcopy(spec)
    s2["layers"][li]["services"] = []
    yield {"kind": "struct", "what": "all-deleted", "both_directions": True}, s2


# ------------------------------------------------------------------ corpus: the defects of the pinned commit
def corpus_spec():
    return {"dops": [{"name": "d8", "bt": "A_UINT32", "bl": 8, "phys": "A_UINT32", "unit": "km"},
                     {"name": "d16", "bt": "A_UINT32", "bl": 16, "phys": "A_INT32", "unit": None}],
            "units": [{"name": "km", "display": "km"}], "comparams": ["CP_a", "CP_b"],
            "layers": [{"name": "BV", "kind": "BASE-VARIANT", "parent": None, "own_dops": ["d8", "d16"], "cprefs": [["CP_a", None], ["CP_b", None]],
                        "services": [{"id": "A", "name": "A", "req": [P_("sid", val=0x22), P_("x", "value", dop="d8")],
                                      "pos": [[P_("sid", val=0x62), P_("y", "value", dop="d16")]], "neg": [[P_("sid", val=0x7F)]]}]}]}


def corpus(ctx, pend):
    spec = corpus_spec()
    db = L.load(spec)
    # (a) renamed service reported as nothing
    s2 = copy.deepcopy(spec)
    s2["layers"][0]["services"][0]["name"] = "A2"
    run_case(ctx, pend, "corpus", spec, s2, "BV", {"kind": "rename", "service": "A", "new_name": "A2"}, db)
    # (d) the only service deleted: nothing reported
    s3 = copy.deepcopy(spec)
    s3["layers"][0]["services"] = []
    run_case(ctx, pend, "corpus", spec, s3, "BV", {"kind": "delete", "service": "A"}, db)
    # (b) comparam count always 0
    metrics_case(ctx, pend, spec, db)
    # coded value of the prefix constant changed: exactly a parameter change
    s4 = copy.deepcopy(spec)
    s4["layers"][0]["services"][0]["req"][0]["val"] = 0x25
    run_case(ctx, pend, "corpus", spec, s4, "BV", {"kind": "attr", "attr": "value", "service": "A", "loc": ["req", None, 0], "param": "sid",
                                                   "rows": [["Value", "0x22", "0x25"]]}, db)


# ------------------------------------------------------------------ entry points
def run(ctx):
    import warnings
    warnings.simplefilter("ignore")
    big = ctx.tier == "thorough"
    rng = ctx.rng
    pend = Pending()
    try:
        corpus(ctx, pend)
    except Exception as e:  # noqa
        ctx.violate("reports-exactly-the-edit", ["corpus", "raises"], f"foreign:{type(e).__name__}", {"edit": {"kind": "corpus"}}, "corpus case raised")
    n_specs = 400 if big else 88      # (800 before round 7: a history case costs about two fresh ones)
    max_attr = 40 if big else 14
    hist_every = 2 * HIST_EVERY if big else HIST_EVERY
    names_family(ctx, pend, big)
    param_kinds_family(ctx, pend, big)
    history_family(ctx, pend, big)
    for n in range(n_specs):
        spec = gen_spec(rng, big)
        if rng.random() < .5:
            # half of the documents: some / all of the name spaces use other legal short names than the generator's plain ones
            spec = L.rename_spec(spec, rng, draw_naming(rng))
        # half of the documents with several layers: the layers are spread over several containers, loaded in a random order
        spec = draw_layout(rng, spec)
        # every HIST_EVERY-th edit is additionally made in place on a loaded database (a random schedule)
        explore_spec(ctx, pend, rng, spec, max_attr, 1 if big else 4,
                     schedule_of=lambda k: rng.choice(L.SCHEDULES) if k % hist_every == hist_every // 2 else None)
        if len(pend.items) > 4000:
            flush(ctx, pend)
    flush(ctx, pend)


HIST_EVERY = 8


def draw_naming(rng):
    """which name spaces of a document get names of which class (a name space not mentioned keeps the generator's names)"""
    naming = {}
    for kind in L.NAME_KINDS:
        r = rng.random()
        if r < .4:
            continue
        naming[kind] = "mixed" if r < .6 else rng.choice(L.NAME_CLASSES)
    return naming


def names_family(ctx, pend, big):
    """enumerated small scope: every name space (services, layers, parameters, DOPs + structures + units) x every class of legal
    short names (+ mixed).  One small document each (all leading constants distinct, so add / delete / rename are inside the
    envelope): overview, self comparison, every add / delete / rename, a sample of the attribute edits, each also through
    compare_databases; for service names additionally a service of every class is added and the services are renamed to names
    of every class (all ordered pairs old class -> new class)."""
    for kind in ("services", "layers", "params", "dops"):
        for cls in L.NAME_CLASSES + ("mixed",):
            for rep in range(2 if big else 1):
                rng = ctx.sub_rng("names", kind, cls, rep)
                base = gen_spec(rng, big, shape=("bv+ev" if kind == "layers" or rep else "bv"), nsvc_first=3, distinct=True)
                naming = {kind: cls}
                if kind == "dops":
                    naming["units"] = cls
                    naming["comparams"] = cls
                spec = L.rename_spec(base, rng, naming)
                ctx.histo("names_family", f"{kind}:{cls}")
                explore_spec(ctx, pend, rng, spec, 12 if big else (8 if kind == "services" else 6), 1, structural=big,
                             every_class=kind == "services")
    flush(ctx, pend)


def db_expectation(edit, spec, s2, lname, children, cls0, db, db_new):
    """what compare_databases must report: the edit for the edited layer, what each inheriting layer sees of it (the edit
    again, or nothing), nothing for all other layers; None = no claim (one of them is outside the envelope)"""
    try:
        if cls0 == "mixed":
            return None
        lay = {}
        for c in [lname] + children:
            cls = cls0 if c == lname else seen_as(edit, spec, s2, c, lname)
            dl_old = next(d for d in db.diag_layers if d.short_name == c)
            dl_new = next(d for d in db_new.diag_layers if d.short_name == c)
            exp = None if cls == "mixed" else expectation(as_seen(edit, cls), dl_new, dl_old, s2, spec, c)[0]
            if exp is None:
                return None
            lay[c] = exp
        return lay
    except Exception:  # noqa
        return None


def history_case(ctx, pend, spec, s2, lname, edit, children, db, db_fresh, schedule):
    """the same single edit, but made on a *loaded* database: a database of the old spec is edited in place and refreshed
    according to `schedule` (compare_lib.load_history; it ends in the new state, or -- edit undone -- in the old one).  The
    database reached must be reported exactly like a freshly loaded one: the edit (or nothing) in the edited layer and in every
    inheriting layer, through compare_databases, in the overview, and no difference to the freshly loaded database."""
    to_new = L.schedule_target(schedule) == "new"
    ed = edit if to_new else {"kind": "self"}
    spec_t = s2 if to_new else spec
    cls0 = seen_as(ed, spec, spec_t, lname, lname)
    dbh = run_case(ctx, pend, "history", spec, s2, lname, as_seen(ed, cls0), db, oracle=cls0 != "mixed", history=schedule)
    if dbh is None:
        return
    ctx.histo("history_schedule", schedule)
    ctx.histo("history_layout", layout_class(spec, lname, children))
    for c in children:
        cls = seen_as(ed, spec, spec_t, c, lname)
        run_case(ctx, pend, "history", spec, s2, c, as_seen(ed, cls), db, oracle=cls != "mixed", db_new=dbh, history=schedule, model=False)
    run_db_case(ctx, pend, spec, s2, lname, db, dbh, db_expectation(ed, spec, spec_t, lname, children, cls0, db, dbh), history=schedule)
    metrics_case(ctx, pend, spec_t, dbh, history=schedule, hist_specs=[spec, s2])
    # indistinguishable from the freshly loaded database of the state reached
    run_db_case(ctx, pend, spec_t, spec_t, None, db_fresh if to_new else db, dbh, {}, history=schedule, hist_specs=[spec, s2], model=False)


def layout_class(spec, lname, children):
    """where the containers of the layers inheriting from the edited layer are loaded relative to the edited layer's container"""
    if not spec.get("containers"):
        return "one-container"
    at = {n: i for i, c in enumerate(L.containers_of(spec)) for n in c}
    rel = {("before" if at[c] < at[lname] else "same" if at[c] == at[lname] else "after") for c in children}
    return "children:" + ("+".join(sorted(rel)) or "none")


def draw_layout(rng, spec):
    """how the layers are distributed over DIAG-LAYER-CONTAINERs (ODX-D files) and in which order these are loaded: with p=.5 a
    random ordered partition of the layers (so a layer's container may come before or after its parents' containers)"""
    names = [l["name"] for l in spec["layers"]]
    if len(names) < 2 or rng.random() < .5:
        return spec
    rng.shuffle(names)
    conts = [[names[0]]]
    for n in names[1:]:
        if rng.random() < .6:
            conts.append([n])
        else:
            conts[-1].append(n)
    spec["containers"] = conts
    spec["docref"] = rng.choice(["CONTAINER", "LAYER"])
    return spec


def ordered_partitions(xs):
    """all ordered partitions of a list into non-empty blocks (3 elements: 13)"""
    if not xs:
        yield []
        return
    x, rest = xs[0], xs[1:]
    for part in ordered_partitions(rest):
        for i in range(len(part)):
            yield part[:i] + [[x] + part[i]] + part[i + 1:]
        for i in range(len(part) + 1):
            yield part[:i] + [[x]] + part[i:]


def history_family(ctx, pend, big):
    """enumerated small scope: container layout x call history.  Three-layer documents (a chain FG <- BV <- EV and layers with
    several PARENT-REFs ESD, FG <- BV <- EV) under *every* ordered partition of their layers into containers (13 for three
    layers: every loading order of the containers relative to the inheritance direction, each block one ODX-D file), both DOCREF
    styles; every add / delete / rename and a sample of the attribute edits of every layer is made on a loaded database, the
    schedules N, NR, RN, NON, NO rotating over the edits and layouts (thorough: a third shape FG <- BV <- EV with several PARENT-REFs,
    all 13 layouts for every shape, 6 attribute edits), see history_case."""
    n = 0
    for shape in ("fg+bv+ev", "esd+fg+bv*") + (("fg+bv+ev*",) if big else ()):
        for rep in range(1):
            rng = ctx.sub_rng("history", shape, rep)
            base = gen_spec(rng, big, shape=shape, nsvc_first=2, distinct=True)
            for li, part in enumerate(ordered_partitions([l["name"] for l in base["layers"]])):
                if not big and shape != "fg+bv+ev" and len(part) == 2:
                    continue        # quick: the second shape only in one container and in the six orders of three containers
                spec = copy.deepcopy(base)
                if len(part) > 1:
                    spec["containers"] = part
                    spec["docref"] = ("CONTAINER", "LAYER")[(li + rep) % 2]
                n += 1
                ctx.histo("history_family", f"{shape}:{len(part)}-containers")
                explore_spec(ctx, pend, ctx.sub_rng("history", shape, rep, "edits"), spec, 6 if big else 2, 1000, structural=False,
                             schedule_of=lambda k, li=li: L.SCHEDULES[(k + li) % len(L.SCHEDULES)])
    flush(ctx, pend)


PARAM_KINDS = {"req": ("const", "value", "value+default", "value:structure", "physconst", "system", "lengthkey", "reserved", "dynamic"),
               "pos": ("const", "value", "value+default", "value:structure", "physconst", "system", "lengthkey", "reserved", "dynamic", "matching"),
               "neg": ("const", "value", "physconst", "system", "lengthkey", "reserved", "nrc", "matching")}


def param_kinds_family(ctx, pend, big):
    """enumerated small scope: parameter kind x parameter list x attribute.  For every kind of parameter the XML builder knows
    (every subclass of Parameter but the TABLE-* ones; among them all four that link a DOP: VALUE, PHYS-CONST, SYSTEM,
    LENGTH-KEY) in a request, a positive and a negative response, first / middle / last in its list: *every* applicable
    attribute edit (compare_lib.ATTR_EDITS) of that parameter, also through compare_databases."""
    for sec, kinds in PARAM_KINDS.items():
        for kind in kinds:
            for rep in range(3 if big else 1):
                rng = ctx.sub_rng("param-kinds", sec, kind, rep)
                spec = gen_spec(rng, big, shape="bv" if rep == 0 else "bv+ev", nsvc_first=2, distinct=True)
                if kind == "value:structure" and not spec["sdops"]:
                    spec["sdops"] = [gen_struct(rng, "r0", spec["dops"])]
                    spec["layers"][0]["own_sdops"] = ["r0"]
                svc = spec["layers"][0]["services"][rng.randrange(2)]
                if sec == "req":
                    ps = svc["req"]
                else:
                    if not svc[sec]:
                        svc[sec].append([P_("c0", val=0x7F if sec == "neg" else 0x40)])
                    ps = svc[sec][0]
                dop = rng.choice(spec["dops"])["name"]
                k0 = kind.split("+")[0].split(":")[0]
                new = P_("pk", k0, sem=rng.choice([None, "DATA"]))
                if kind == "const":
                    new.update(val=rng.choice(VALS), bl=rng.choice([8, 16]))
                elif kind == "nrc":
                    new.update(vals=sorted(rng.sample(VALS, 2)))
                elif kind == "matching":
                    new.update(val=0)
                elif kind == "reserved":
                    new.update(bl=rng.choice([4, 8, 16]))
                elif kind == "value:structure":
                    new.update(dop=spec["sdops"][0]["name"], default=None)
                elif k0 in DOP_KINDS:
                    new.update(dop=dop)
                    if k0 == "value":
                        new["default"] = rng.choice(VALS) if kind == "value+default" else None
                    if k0 == "physconst":
                        new["val"] = rng.choice(VALS)
                # behind the leading constant (which identifies the service), in the middle or at the end
                ps.insert(rng.randint(1, len(ps)) if ps else 0, new)
                ctx.histo("param_kinds_family", f"{sec}:{kind}")
                explore_spec(ctx, pend, rng, spec, 0, 1, structural=False, only_param="pk")
    flush(ctx, pend)


def explore_spec(ctx, pend, rng, spec, max_attr, db_every, structural=True, every_class=False, schedule_of=None, only_param=None):
    """one document: overview, self comparison, all single edits of every layer (observed in the layer, in the inheriting layers and,
    every `db_every`-th, through compare_databases), structural edits.  schedule_of: edit number -> schedule | None: the edit is
    additionally made in place on a loaded database (history_case); only_param: instead of add / delete / rename and a sample of the
    attribute edits, every attribute edit of the parameters of that name"""
    big = ctx.tier == "thorough"
    try:
        db = L.load(spec)
    except Exception as e:  # generator produced an unloadable document
        ctx.count(f"unloadable-spec:{type(e).__name__}")
        return
    ctx.histo("shape", "+".join(l["kind"] for l in spec["layers"]))
    ctx.histo("max_parent_refs_of_a_layer", max(len(L.parent_refs(l)) for l in spec["layers"]))
    ctx.histo("not_inherited_names_offered_by_another_parent", min(shadowed_exclusions(spec), 3))
    ctx.histo("structures_typing_parameters", sum(1 for sd in spec.get("sdops", []) if L.users_of(spec, sd["name"])))
    for kind in L.NAME_KINDS:
        ctx.histo("naming_of_document", f"{kind}:{(spec.get('naming') or {}).get(kind, 'generator')}")
    metrics_case(ctx, pend, spec, db)
    # self comparison of every layer and of the database
    for dl in db.diag_layers:
        run_case(ctx, pend, "self", spec, spec, dl.short_name, {"kind": "self"}, db)
    run_db_case(ctx, pend, spec, spec, None, db, db, {})
    for L_ in spec["layers"]:
        if not L_["services"]:
            continue
        lname = L_["name"]
        leads = {("none" if x is None else "coded-const" if isinstance(x, int) else "phys-const") for x in map(lead_of, L_["services"])}
        ctx.histo("request_ids_of_layer", "+".join(sorted(leads)))
        children = [x["name"] for x in spec["layers"] if reaches(spec["layers"], x, lname)]
        for k, (edit, s2) in enumerate(all_edits(rng, spec, lname, max_attr, every_class, only_param)):
            cls0 = seen_as(edit, spec, s2, lname, lname)
            ctx.histo("edit_seen_in_own_layer", cls0)
            if edit.get("service") is not None:
                ctx.histo("name_class_of_edited_service", L.name_class_of(edit["service"]))
            if edit["kind"] == "attr":
                ctx.histo("attr_edit_x_parameter_kind", f"{edit['attr']}:{edit.get('pkind')}")
            if edit["kind"] == "rename":
                ctx.histo("rename_name_classes", f"{L.name_class_of(edit['service'])}->{L.name_class_of(edit['new_name'])}")
            db_new = run_case(ctx, pend, edit["kind"], spec, s2, lname, as_seen(edit, cls0), db, oracle=cls0 != "mixed")
            if db_new is None:
                continue
            # layers inheriting from the edited one see the same single edit -- unless they do not inherit the edited service
            for c in children:
                cls = seen_as(edit, spec, s2, c, lname)
                ctx.histo("edit_seen_in_inheriting_layer", cls)
                run_case(ctx, pend, "inherited", spec, s2, c, as_seen(edit, cls), db, oracle=cls != "mixed", db_new=db_new)
            if k % db_every == 0 or big:
                lay = db_expectation(edit, spec, s2, lname, children, cls0, db, db_new)
                ctx.count("db-oracle-checked" if lay is not None else "db-correspondence-only")
                run_db_case(ctx, pend, spec, s2, lname, db, db_new, lay)
            sched = schedule_of(k) if schedule_of else None
            if sched:
                history_case(ctx, pend, spec, s2, lname, edit, children, db, db_new, sched)
            if (sched or only_param) and edit["kind"] == "attr" and edit["attr"] == "bitlen" and edit.get("pkind") in ("const", "nrc", "reserved"):
                # schedule "M": the bit length is assigned on the objects of the loaded database (no re-parsing), then refresh()
                history_case(ctx, pend, spec, s2, lname, edit, children, db, db_new, "M")
        if structural:
            for edit, s2 in structural_edits(rng, spec, lname):
                db_new = run_case(ctx, pend, "structural", spec, s2, lname, edit, db, oracle=False)
                if db_new is not None and edit.get("both_directions"):
                    # the same two layers with the roles old / new exchanged (correspondence only)
                    run_case(ctx, pend, "structural", s2, spec, lname, {"kind": "struct", "what": edit["what"] + "(reversed)"}, db_new,
                             oracle=False, db_new=db)


def replay(ctx, data):
    w = data["witness"]
    sub = type(ctx)(ctx.pid, ctx.tier, ctx.seed)
    pend = Pending()
    kind = w.get("edit", {}).get("kind")
    hist = w.get("history")
    hs = w.get("history_specs") or [w.get("old"), w.get("new")]
    if kind == "metrics":
        db = hist_db(sub, hs[0], hs[1], hist, w) if hist else L.load(w["old"])
        if db is not None:
            metrics_case(sub, pend, w["old"], db, history=hist, hist_specs=hs if hist else None)
    elif kind == "db":
        db_old = L.load(w["old"])
        db_new = hist_db(sub, hs[0], hs[1], hist, w) if hist else L.load(w["new"])
        if db_new is not None:
            run_db_case(sub, pend, w["old"], w["new"], w.get("layer"), db_old, db_new, w.get("expected"), history=hist, hist_specs=hs if hist else None)
    elif kind == "corpus":
        corpus(sub, pend)
    else:
        run_case(sub, pend, "replay", w["old"], w["new"], w["layer"], w["edit"], history=hist)
    return not sub.violations
