"""C10 — every reference resolves to the object it names, or loading fails."""
import copy as _copy
import json
import random
import warnings

import odxlink_lib as L

ID = "C10"
LEAN_TARGETS = ["OdxVerif.Props.C10"]
DRIVERS = ["drv_odxlink"]
P = "OdxVerif.OdxLink."
THEOREMS = [P + t for t in [
    "C10_resolve", "C10_resolve_untyped", "C10_dangling_raises", "C10_innermost_wins", "C10_outer_fallback",
    "C10_update_no_overwrite", "C10_update_spec", "C10_build", "C10_import_view", "C10_import_local",
    "C10_link_phase", "C10_refresh_wf", "C10_refresh_generation_independent", "C10_refresh_keep_counterexample", "C10_snref_unique", "C10_retarget", "C10_retarget_reach", "C10_retarget_paths",
    "C10_import_local_pinned_counterexample"]]
RULE = ("databases = 2-3 DIAG-LAYER-CONTAINERs x 1-3 layers (ECU-SHARED-DATA/FUNCTIONAL-GROUP/BASE-VARIANT/ECU-VARIANT, "
        "0-3 PARENT-REFs per layer in any order => hierarchies that branch and join; inheritance conflicts steered away from; "
        "IMPORT-REFS), local ids and short names drawn from pools of 5-8 so that they collide "
        "across layers and containers; references fragment-relative / DOCREF LAYER / DOCREF CONTAINER, ID-REF or SNREF "
        "variant per kind; fault stream: unknown id, unknown DOCREF, id of a not-imported ECU-SHARED-DATA, wrong type, "
        "missing/ambiguous short name, IMPORT-REF to a non-ESD layer. unit level: random new/update/copy/resolve "
        "histories on OdxLinkDatabase objects, random resolve_snref calls. distinct = distinct canonical description; "
        "non-trivial = database with a DOCREF or an import or a layer with several parents that loads, or a history with a copy. "
        "enumerated: enum-retarget-hierarchies = every inheritance graph over {FG,FG,BV,EV} / {ESD,FG,BV,EV} (thorough: "
        "{ESD,FG,FG,BV,EV}) x every set of layers defining the referenced short name x both PARENT-REFS orders, a DOP-SNREF "
        "in every layer that sees the name, retarget_snrefs to every layer with parents in sequence. "
        "call histories on ONE Database object (generations): generation-histories = a generated database, then 2-4 steps "
        "{container replaced by a revision in which a (mostly referenced) ID-carrying object vanishes / gets another id / two "
        "objects swap ids / nothing changes, original revision restored, container removed, removed container added again, "
        "request/response/diag-comm/DOP/structure/field/mux/table taken out of resp. put back into the layer's list in place, everything re-read, "
        "retarget_snrefs, nothing} each followed by refresh(), documents entering through _process_xml_tree / add_odx_file / "
        "add_pdx_file; a destructive step is followed by its repair in ~65 %. enumerated: enum-vanishing-ids = for 2 (thorough: 8) "
        "generated databases EVERY ID-carrying object in turn x {vanishes, gets another id} x {new revision of its container, "
        "removal from the layer's (resp. its data dictionary's) list in place}, restored in the following generation. After every refresh() all database "
        "oracles against the description of that generation; on the last generation also the comparison with a pristine "
        "Database of the same content")
TRUSTED = ["model lean/OdxVerif/Model/OdxLink.lean is hand-written; tied to odxtools/odxlink.py, DiagLayer._resolve_odxlinks, "
           "Database.refresh and retarget_snrefs by comparing dictionary dumps, bound targets and error classes",
           "the generated description (harness/odxlink_lib.py) states which object carries which id in which layer; the XML "
           "emitted from it is read by the real parser (from_et glue is exercised differentially only)",
           "value inheritance is modelled for any number of parents per layer, but without NOT-INHERITED lists and without "
           "inheritance conflicts (full algorithm: C09); the generator keeps the hierarchies conflict-free"]
ASSUMPTIONS = ["objects stored in an OdxLinkDatabase are never None",
               "a Database is modified between two refresh() calls only through the diag_layer_containers setter, add_odx_file / "
               "add_pdx_file / _process_xml_tree and by taking objects out of / putting them back into the lists requests / "
               "positive_responses / negative_responses / diag_comms_raw of a DiagLayerRaw and data_object_props / structures / "
               "end_of_pdu_fields / muxs / tables of its DIAG-DATA-DICTIONARY-SPEC (attributes of single objects are not edited)",
               "database level is checked in strict mode; non-strict mode is covered at unit level (resolve / resolve_snref)",
               "Python warnings (OdxWarning for an unknown document fragment) are not turned into errors",
               "COMPARAM-SPEC / COMPARAM-SUBSET documents, DIAG-VARIABLEs, state charts, functional classes and SDG "
               "references are not generated (their references go through the same OdxLinkDatabase.resolve)"]

# --- tie of kind (1) (task W20): Gen/OdxLinkResolve.lean is regenerated from OdxLinkDatabase.resolve / resolve_lenient / resolve_snref of
# the current source by the Python->Lean translator and proved equal to the hand-written resolve / resolveLenient in strict mode
# (Proofs/OdxLinkResolveGenEq.lean)
LEAN_TARGETS = LEAN_TARGETS + ["OdxVerif.Props.C10Gen"]
THEOREMS = THEOREMS + [P + t for t in ["gen_resolve_eq", "gen_resolveLenient_eq", "C10_gen_resolve_eq", "C10_gen_resolve", "C10_gen_resolve_errors",
                                       "C10_gen_innermost_wins", "gen_resolveSnref_eq", "C10_gen_snref_eq", "C10_gen_snref_unique"]]
TRUSTED = TRUSTED + ["translator harness/extract/py2lean.py + primitives lean/OdxVerif/Model/PyRt.lean for OdxLinkDatabase.resolve / resolve_lenient / resolve_snref "
                     "(items = a list of the model's Obj, x.short_name = Obj.name; self._db = the model's Db, dict.get = dget, isinstance = Obj.isInst, ref.ref_docs / ref.ref_id = Ref.docs / Ref.refId are the "
                     "abstract record interface of the rendering; strict mode; warnings.warn has no effect on the result)"]


def regen_odxlink_resolve(ctx):
    """Gen/OdxLinkResolve.lean from the current source; Unsupported (source left the translator's subset) = broken obligation"""
    import common
    from extract import py2lean
    py2lean.regenerate_odxlink_resolve(common.REPO, common.VERIF)


GENERATORS = list(globals().get("GENERATORS", [])) + [regen_odxlink_resolve]

PROFILES = {
    "valid": {"dangling": 0.0, "wrongtype": 0.0, "ambiguous": 0.0, "imports": 0.55, "snref": 0.4},
    "faulty": {"dangling": 0.035, "wrongtype": 0.03, "ambiguous": 0.08, "imports": 0.55, "snref": 0.4, "bad_import": 0.06},
}


# ---------------------------------------------------------------- unit level: OdxLinkDatabase histories

class K0:
    def __init__(self, uid, name):
        self.uid, self.short_name = uid, name


class K1(K0):
    pass


class K2(K1):
    pass


class K3(K0):
    pass


KLS = [K0, K1, K2, K3]


def mro_names(o):
    return [c.__name__ for c in type(o).__mro__ if c is not object]


def s_pyobj(o):
    return f'(o {o.uid} ({" ".join(mro_names(o))}) {o.short_name})'


def outcome(f):
    from odxtools.exceptions import OdxError
    try:
        with warnings.catch_warnings():
            warnings.simplefilter("ignore")
            r = f()
        return "(ok none)" if r is None else f"(ok {r.uid})"
    except KeyError:
        return "(err key)"
    except OdxError:
        return "(err odx)"
    except Exception as e:  # noqa
        return f"(foreign:{type(e).__name__})"


def set_strict(v):
    import logging
    import odxtools.exceptions as ex
    ex.strict_mode = v
    logging.disable(logging.NOTSET if v else logging.CRITICAL)   # non-strict mode logs every swallowed error


def gen_history(rng, n_ops):
    """list of abstract ops; fragments/ids from tiny pools"""
    frags = [("C1", "CONTAINER"), ("C2", "CONTAINER"), ("LA", "LAYER"), ("LB", "LAYER"), ("S", "LAYER")]
    ids = ["x", "y", "z", "w"]
    ops = [("new",)]
    n_db = 1
    uid = 0
    for _ in range(n_ops):
        roll = rng.random()
        i = rng.randrange(n_db)
        if roll < 0.35:
            es = []
            for _ in range(rng.choice([1, 1, 2, 3])):
                uid += 1
                fr = rng.sample(frags, rng.choice([0, 1, 1, 2, 2, 3]))
                if rng.random() < 0.1 and fr:
                    fr = fr + [fr[0]]
                es.append((rng.choice(ids), fr, uid, rng.randrange(4), f"n{rng.randrange(3)}"))
            d = {}
            for e in es:     # new_entries is a dict keyed by OdxLinkId (local id + fragment list)
                d[(e[0], tuple(e[1]))] = e
            ops.append(("update", i, rng.random() < 0.5, list(d.values())))
        elif roll < 0.5:
            ops.append(("copy", i))
            n_db += 1
        elif roll < 0.55:
            ops.append(("new",))
            n_db += 1
        elif roll < 0.9:
            fr = rng.sample(frags + [("NOWHERE", "LAYER")], rng.choice([0, 1, 2, 2, 3]))
            ops.append((rng.choice(["resolve", "resolve", "lenient"]), i, rng.choice(ids), fr,
                        rng.choice([None, None, "K0", "K1", "K2", "K3"]), rng.random() < 0.75))
        else:
            ops.append(("dump", i))
    for i in range(n_db):
        ops.append(("dump", i))
    return ops


def history_line(ops):
    out = []
    for op in ops:
        if op[0] == "new":
            out.append("(new)")
        elif op[0] == "copy":
            out.append(f"(copy {op[1]})")
        elif op[0] == "dump":
            out.append(f"(dump {op[1]})")
        elif op[0] == "update":
            es = " ".join(f'(e {lid} {L.s_frags(fr)} (o {uid} ({" ".join(c.__name__ for c in KLS[k].__mro__ if c is not object)}) {nm}))'
                          for lid, fr, uid, k, nm in op[3])
            out.append(f'(update {op[1]} {"t" if op[2] else "f"} {es})')
        else:
            out.append(f'({op[0]} {op[1]} (ref {op[2]} {L.s_frags(op[3])}) {op[4] or "-"} {"t" if op[5] else "f"})')
    return "(ops (" + " ".join(out) + "))"


def dump_py(db):
    return "(db" + "".join(f" (frag {f.doc_name} {f.doc_type.value}" + "".join(f" ({k} {v.uid})" for k, v in d.items()) + ")"
                           for f, d in db._db.items()) + ")"


def run_history(ops):
    """-> (outputs as the driver prints them, isolation failures)"""
    from odxtools.odxlink import DocType, OdxDocFragment, OdxLinkDatabase, OdxLinkId, OdxLinkRef
    dbs, outs, iso = [], [], []
    kl = {"K0": K0, "K1": K1, "K2": K2, "K3": K3}

    def fr(fs):
        return [OdxDocFragment(n, DocType(t)) for n, t in fs]
    for n, op in enumerate(ops):
        try:
            if op[0] == "new":
                dbs.append(OdxLinkDatabase())
                outs.append("ok")
            elif op[0] == "copy":
                dbs.append(_copy.copy(dbs[op[1]]))
                outs.append("ok")
            elif op[0] == "dump":
                outs.append(dump_py(dbs[op[1]]))
            elif op[0] == "update":
                before = [dump_py(d) for d in dbs]
                ents = {}
                for lid, fs, uid, k, nm in op[3]:
                    ents[OdxLinkId(lid, fr(fs))] = KLS[k](uid, nm)
                dbs[op[1]].update(ents, overwrite=op[2])
                outs.append("ok")
                # direct oracle (model-free): an update of one database object changes no other one
                for j, d in enumerate(dbs):
                    if j != op[1] and dump_py(d) != before[j]:
                        iso.append((n, op[1], j))
            else:
                set_strict(op[5])
                try:
                    ref = OdxLinkRef(op[2], fr(op[3]))
                    et = kl.get(op[4])
                    f = dbs[op[1]].resolve if op[0] == "resolve" else dbs[op[1]].resolve_lenient
                    outs.append(outcome(lambda: f(ref, et) if et else f(ref)))
                finally:
                    set_strict(True)
        except Exception as e:  # noqa
            outs.append(f"(foreign:{type(e).__name__})")
    return outs, iso


def ops_json(ops):
    return json.loads(json.dumps(ops))


def check_history(ctx, ops, fam, pending):
    outs, iso = run_history(ops)
    ctx.case(("hist", json.dumps(ops)), nontrivial=any(o[0] == "copy" for o in ops))
    ctx.histo("history_ops", min(len(ops) // 5 * 5, 40))
    if iso:
        n, i, j = iso[0]
        ctx.violate("import-local", ["unit", "update-changes-other-database-object"], "aliasing",
                    {"kind": "history", "ops": ops_json(ops)},
                    f"op #{n}: update() on database object {i} changed what database object {j} stores (copy() shares dictionaries)")
    # direct oracle (model-free): overwrite=False keeps existing bindings; resolve = innermost first
    pending.append((fam, ops, "(r " + " ".join(outs) + ")"))


def replay_history(ops):
    ops = [tuple(tuple(x) if isinstance(x, list) and n == 3 and o[0] != "update" else x for n, x in enumerate(o)) for o in ops]
    fixed = []
    for o in ops:
        if o[0] == "update":
            fixed.append(("update", o[1], o[2], [(e[0], [tuple(f) for f in e[1]], e[2], e[3], e[4]) for e in o[3]]))
        elif o[0] in ("resolve", "lenient"):
            fixed.append((o[0], o[1], o[2], [tuple(f) for f in o[3]], o[4], o[5]))
        else:
            fixed.append(tuple(o))
    outs, iso = run_history(fixed)
    return not iso


# ---------------------------------------------------------------- unit level: resolve_snref

def check_snref(ctx, rng, pending):
    from odxtools.odxlink import resolve_snref
    items = [KLS[rng.randrange(4)](i + 1, f"n{rng.randrange(3)}") for i in range(rng.choice([0, 1, 2, 3, 4, 5]))]
    if items and rng.random() < 0.15:
        items.append(rng.choice(items))    # the same object twice
    name = f"n{rng.randrange(4)}"
    exp = rng.choice([None, None, "K0", "K1", "K2", "K3"])
    strict = rng.random() < 0.75
    kl = {"K0": K0, "K1": K1, "K2": K2, "K3": K3}
    set_strict(strict)
    try:
        got = outcome(lambda: resolve_snref(name, items, kl[exp]) if exp else resolve_snref(name, items))
    finally:
        set_strict(True)
    line = f'(snref {name} {exp or "-"} {"t" if strict else "f"} ({" ".join(s_pyobj(o) for o in items)}))'
    cands = [o for o in items if o.short_name == name]
    ctx.case(("snref", line), nontrivial=len(cands) >= 1)
    ctx.histo("snref_candidates", min(len(cands), 3))
    # direct oracle: the property statement itself
    if strict:
        if len(cands) == 1 and (exp is None or isinstance(cands[0], kl[exp])):
            want = f"(ok {cands[0].uid})"
        else:
            want = "(err odx)"
        if got != want:
            ctx.violate("snref-unique", ["unit", "resolve_snref", f"{min(len(cands), 2)}-candidates"], got,
                        {"kind": "snref", "name": name, "exp": exp, "items": [[o.uid, type(o).__name__, o.short_name] for o in items]},
                        f"resolve_snref({name!r}) with {len(cands)} candidates gave {got}, the property demands {want}")
    pending.append(("snref", line, got))


# ---------------------------------------------------------------- database level

def py_expect_snrefs(g):
    """model-free expectation for every short-name reference: uid, or None = must raise"""
    out = {}
    for X in g.layers:
        _, sns = L.all_refs(X)
        for r in sns:
            if r["pools"]:
                cands = [o for p in r["pools"] for o in L.visible_py(g, X, p)]
            else:
                cands = r["items"]
            hit = [o for o in cands if o["sn"] == r["name"]]
            if len(hit) == 1 and (r["exp"] is None or r["exp"] in L.CLS[hit[0]["kind"]]):
                out[r["key"]] = hit[0]["uid"]
            else:
                out[r["key"]] = None
    return out


def parse_pairs(s):
    """'(a 1) (b none)' -> dict"""
    out = {}
    for tok in s.replace("(", " ( ").replace(")", " ) ").split("(")[1:]:
        t = tok.replace(")", " ").split()
        if len(t) == 2:
            out[t[0]] = t[1]
    return out


def field(rep, name):
    """top-level '(name …)' of a reply; returns the inside text"""
    i = rep.find(f"({name}")
    if i < 0:
        return None
    depth, j = 0, i
    while j < len(rep):
        if rep[j] == "(":
            depth += 1
        elif rep[j] == ")":
            depth -= 1
            if depth == 0:
                return rep[i + len(name) + 1:j].strip()
        j += 1
    return None


def parse_dump(s):
    """'(db (frag n t (id uid) …) …)' -> {(n, t): {id: uid}} (the property does not fix dictionary order)"""
    out = {}
    if not s or not s.startswith("(db"):
        return s
    for part in s[3:-1].split("(frag ")[1:]:
        head = part.split("(")[0].split()
        out[(head[0], head[1])] = parse_pairs(part[part.find("("):] if "(" in part else "")
    return out


def witness(g, extra=None):
    w = {"kind": "database", "xml": L.to_xml(g), "features": sorted(g.features), "expect_load": getattr(g, "expect_load", None)}
    if extra:
        w.update(extra)
        if "history" in extra or "generations" in extra:    # the witness carries the description: the replay evaluates the same oracle
            w["description"] = json.loads(json.dumps({"containers": g.containers}))
    return w


mk_witness = witness


def replay_retarget(w):
    """load the witness database, run the recorded retarget history, evaluate the direct oracle after the last call"""
    from odxtools.utils import retarget_snrefs
    g = L.Gen(random.Random(0), PROFILES["valid"])
    g.containers = w["description"]["containers"]
    g.layers = [X for c in g.containers for X in c["layers"]]
    db, err = L.load(L.to_xml(g))
    if err is not None:
        return False
    ex = L.Extract(g, db)
    T = None
    try:
        with warnings.catch_warnings():
            warnings.simplefilter("ignore")
            for name in w["history"]:
                T = L.layer_named(g, name)
                retarget_snrefs(db, ex.py[T["uid"]])
    except Exception:  # noqa
        return False
    bound = ex.bound()
    for X in L.ancestors(g, T):
        for k, v in snref_want(g, T, X).items():
            if v != str(bound[k]):
                return False
    return True


def feat_kind(g):
    fs = sorted(f for f in g.features if f.startswith("fault:") or f in ("imports", "import-non-esd"))
    return fs[:3]


def db_lines(g):
    return [L.s_db(g, "refresh"), L.s_db(g, "links"), L.s_db(g, "spec")]


def split_top(s):
    """'(head (a …) (b …) …)' -> ['(a …)', '(b …)', …]"""
    out, depth, cur = [], 0, ""
    for ch in s[s.find(" ") + 1:-1] if " " in s else "":
        if ch == "(":
            depth += 1
        if depth:
            cur += ch
        if ch == ")":
            depth -= 1
            if depth == 0:
                out.append(cur)
                cur = ""
    return out


def check_database(ctx, g, fam, drv, reps=None, loaded=None, canon=None, tag=(), wit=None):
    """one generated database through the real loader, the model, the spec and the model-free oracles.
    `loaded` = (db, err): the Database object was brought to the content of `g` by a call history (generations: modified
    and refreshed again) instead of being loaded here; `tag` goes into the signature, `wit` into every witness"""
    docs = L.to_xml(g)
    db, err = loaded if loaded is not None else L.load(docs)
    tag = list(tag)

    def witness(g, extra=None):
        return mk_witness(g, dict(wit or {}, **(extra or {})))
    if err is None:
        try:   # the walk along the loaded objects must not crash the harness when the code under test changes
            ex = L.Extract(g, db)
            bound = ex.bound()
            glob = parse_dump(ex.dump_links(db.odxlinks))
        except Exception as e:  # noqa
            db, err = None, "foreign:extract-" + type(e).__name__
    has_docref = any(f in g.features for f in ("form:layer", "form:container"))
    ctx.case(canon or ("db", tuple(docs)), nontrivial=(err is None and (has_docref or "imports" in g.features or "multi-parent" in g.features)))
    ctx.histo("load_outcome", err or "ok")
    for f in g.features:
        if f.startswith("form:") or f.startswith("fault:") or f in ("imports", "dup-name", "import-non-esd"):
            ctx.histo("features", f)
    ctx.histo("layers", len(g.layers))
    carriers = {}
    for X in g.layers:
        for lid, _ in L.link_entries(X):
            carriers[lid] = carriers.get(lid, 0) + 1
    n_coll = sum(1 for X in g.layers for r in L.all_refs(X)[0] if carriers.get(r["rid"], 0) > 1)
    ctx.histo("link_refs_whose_id_is_carried_by_several_layers", min(n_coll // 5 * 5, 30))
    if reps is None:
        reps = drv.query(db_lines(g))
    m_refresh, m_links, m_spec = reps
    if any(r.startswith("(bad") for r in reps):
        raise RuntimeError("driver rejected a request: " + str(reps)[:300])
    sn_expect = py_expect_snrefs(g)
    # ---- expectations of the specification
    spec_layers = {}
    spec_fail = False
    body = m_spec[len("(spec "):-1]
    depth, cur = 0, ""
    for ch in body:
        if ch == "(":
            depth += 1
        if depth:
            cur += ch
        if ch == ")":
            depth -= 1
            if depth == 0:
                inner = cur[1:-1]
                uid = inner.split()[0]
                if "import-fails" in inner:
                    spec_layers[uid] = None
                    spec_fail = True
                else:
                    spec_layers[uid] = parse_pairs(inner[len(uid):])
                    if any(v == "none" for v in spec_layers[uid].values()):
                        spec_fail = True
                cur = ""
    spec_links = {}
    for v in spec_layers.values():
        if v:
            spec_links.update(v)
    sn_fail = any(v is None for v in sn_expect.values())
    g.expect_load = "raises" if (spec_fail or sn_fail) else "ok"
    # ---- implementation
    if err is not None and err.startswith("foreign"):
        impl = f"({err})"
    elif err is not None:
        impl = f"(err {err})"
    else:
        links_now = {k: str(v) for k, v in bound.items() if k not in sn_expect}
        sn_now = {k: str(v) for k, v in bound.items() if k in sn_expect}
        impl = None
    # ---- direct oracle 1 (Spec): load must fail iff the spec says some reference cannot be resolved;
    #      every bound target is the one the spec names
    if err is None:
        if spec_fail or sn_fail:
            bad = [k for k, v in spec_links.items() if v == "none"] + [k for k, v in sn_expect.items() if v is None]
            which = "imports-of-" + ",".join(u for u, v in spec_layers.items() if v is None) if not bad else bad[0]
            leak = "fault:dangling-leak" in g.features
            ctx.violate("unresolvable-raises", ["database", "loaded-although-unresolvable"] + (["not-imported-esd-id"] if leak else []) + tag,
                        "no-exception", witness(g, {"reference": which}),
                        f"the database loads although reference {which} cannot be resolved according to the specification"
                        f" (it is bound to object {bound.get(which)})")
        for k, want in spec_links.items():
            if want != "none" and links_now.get(k) != want:
                ctx.violate("link-target", ["database", "bound-to-other-object"] + tag, f"{links_now.get(k)}",
                            witness(g, {"reference": k, "expected_uid": want}),
                            f"reference {k} is bound to object {links_now.get(k)}, the specification names {want}")
                break
        for k, want in sn_expect.items():
            if want is not None and sn_now.get(k) != str(want):
                ctx.violate("snref-target", ["database", "snref-bound-to-other-object"] + tag, f"{sn_now.get(k)}",
                            witness(g, {"reference": k, "expected_uid": want}),
                            f"short-name reference {k} is bound to object {sn_now.get(k)}, expected {want}")
                break
        # ---- direct oracle 2 (model-free): refresh() leaves the global link database as built
        try:
            from odxtools.odxlink import OdxLinkDatabase
            fresh = OdxLinkDatabase()
            fresh.update(db._build_odxlinks())
            same = parse_dump(ex.dump_links(fresh)) == glob
        except Exception as e:  # noqa
            same = f"foreign:{type(e).__name__}"
        if same is not True:
            ctx.violate("import-local" if not tag else "generation-independent", ["database", "global-link-database-changed-by-refresh"] + tag, str(same),
                        witness(g), "after refresh() Database.odxlinks stores other bindings than a database freshly built "
                                    "from Database._build_odxlinks() (" + ("imported ids leaked into the shared dictionaries)" if not tag else
                                                                          "bindings of an earlier generation of the database survive)"))
    else:
        if not spec_fail and not sn_fail:
            ctx.violate("resolvable-loads", ["database", "raises-although-resolvable", err] + tag, err, witness(g),
                        f"loading raises {err} although every reference is resolvable according to the specification")
    # ---- correspondence with the model
    ctx.traces += 1
    if err is None:
        ok = m_refresh.startswith("(ok")
        if ok:
            ml = parse_pairs(field(m_refresh, "links") or "")
            ms = parse_pairs(field(m_refresh, "snrefs") or "")
            mg = parse_dump(field(m_refresh, "global"))
            ok = ml == links_now and ms == sn_now and mg == glob
        if not ok:
            ctx.disagree(fam, {"xml": docs}, m_refresh[:1500], ("(ok " + json.dumps([links_now, sn_now]) + " " + str(glob))[:1500])
    else:
        # the class of the first error: link phase before snref phase; inside a phase the model follows the loader's order
        if m_refresh != impl:
            ctx.disagree(fam, {"xml": docs}, m_refresh[:300], impl)
    return db, err, (m_refresh, m_links)


def check_imports_metamorphic(ctx, g, db, err):
    """layers that import nothing are bound identically with and without the other layers' IMPORT-REFS"""
    if err is not None or "imports" not in g.features:
        return
    docs2 = L.to_xml(g, with_imports=False)
    db2, err2 = L.load(docs2)
    ctx.count("metamorphic_import_pairs")
    if err2 is not None:
        ctx.count("metamorphic_import_pairs_variant_fails")
        return
    b1, b2 = L.Extract(g, db).bound(), L.Extract(g, db2).bound()
    for X in g.layers:
        if X["imports"]:
            continue
        links, sns = L.all_refs(X)
        for r in links + sns:
            if b1.get(r["key"]) != b2.get(r["key"]):
                ctx.violate("import-local", ["database", "binding-depends-on-foreign-import"], "differs",
                            witness(g, {"reference": r["key"]}),
                            f"reference {r['key']} of layer {X['name']} (which imports nothing) is bound differently when the "
                            "IMPORT-REFS of the other layers are removed")
                return


def snref_want(g, T, X):
    """model-free expectation for the short-name references owned by layer X when resolved in the view of layer T:
    {key: uid or None (= not uniquely resolvable)}"""
    want = {}
    for r in L.all_refs(X)[1]:
        cands = [o for p in r["pools"] for o in L.visible_py(g, T, p)] if r["pools"] else r["items"]
        hit = [o for o in cands if o["sn"] == r["name"]]
        want[r["key"]] = str(hit[0]["uid"]) if len(hit) == 1 and (r["exp"] is None or r["exp"] in L.CLS[hit[0]["kind"]]) else None
    return want


def retarget_line(g, schedule):
    return L.s_db(g, "retargets", head=" (" + " ".join(str(T["uid"]) for T in schedule) + ")")


def check_retarget(ctx, g, db, err, drv, m_links, schedule=None, fam="retarget", rep_all=None):
    """call history: `retarget_snrefs(db, T)` for a sequence of targets T1, T2, … (layers with parents; the same layer
    may come twice) on one loaded database; after *each* call every short-name reference owned by T or by any layer
    reachable from T over PARENT-REFs (through any parent of a layer with several) must be bound in T's view"""
    if err is not None or not m_links.startswith("(ok"):
        return
    from odxtools.utils import retarget_snrefs
    from odxtools.exceptions import OdxError
    targets = [X for X in g.layers if X["parent_layers"]]
    if not targets:
        return
    ex = L.Extract(g, db)
    if schedule is None:   # mostly layers with parents; now and then any layer (ECU-SHARED-DATA, a root of the hierarchy)
        schedule = [ctx.rng.choice(targets if ctx.rng.random() < 0.85 else g.layers) for _ in range(ctx.rng.choice([1, 1, 2, 3]))]
    if rep_all is None:
        rep_all = drv.query([retarget_line(g, schedule)])[0]
    model = split_top(rep_all)
    if not rep_all.startswith("(rts") or len(model) != len(schedule):
        raise RuntimeError("driver rejected a request: " + rep_all[:300])
    for step, T in enumerate(schedule):
        try:
            with warnings.catch_warnings():
                warnings.simplefilter("ignore")
                retarget_snrefs(db, ex.py[T["uid"]])
            out = None
        except Exception as e:  # noqa
            out = "(err odx)" if isinstance(e, OdxError) else ("(err key)" if isinstance(e, KeyError) else f"(foreign:{type(e).__name__})")
        rep = model[step]
        ctx.traces += 1
        ctx.count("retarget_cases")
        reach = L.ancestors(g, T)
        branching = any(len(X["parent_layers"]) > 1 for X in reach)
        ctx.histo("retarget_hierarchy", ("branching" if branching else "chain") + f"/{min(len(reach), 5)}-layers")
        ctx.histo("retarget_step_in_history", step)
        want = {}
        owner = {}
        for X in reach:
            w = snref_want(g, T, X)
            want.update(w)
            for k in w:
                owner[k] = X
        hist = [t["name"] for t in schedule[:step + 1]]
        if out is None:
            bound = ex.bound()
            now = {k: str(bound[k]) for k in want}
            n_moved = 0
            for k in want:   # direct oracle: rebinding to T's view
                X = owner[k]
                if X is not T and snref_want(g, X, X).get(k) != want[k]:
                    n_moved += 1        # the owner's own view binds this reference to another object than T's view
                if want[k] != now[k]:
                    via = "first-parent-path" if on_first_parent_path(g, T, X) else "other-parent-path"
                    ctx.violate("retarget", ["database", "retarget-binds-other-object", via], "other-object",
                                witness(g, {"target": T["name"], "reference": k, "history": hist, "owner": X["name"], "via": via}),
                                f"after retarget_snrefs to {' then '.join(hist)}, {k} (owned by {X['name']}, reached over a {via}) "
                                f"is bound to {now[k]}, expected {want[k]} ({T['name']}'s view)")
                    break
            ctx.histo("retarget_refs_rebound_to_other_object", min(n_moved, 3))
            mp = parse_pairs(rep[3:-1]) if rep.startswith("(ok") else None
            if mp != now:
                ctx.disagree(fam, {"xml": L.to_xml(g), "target": T["name"], "history": hist}, rep[:600], json.dumps(now)[:600])
        else:
            if all(v is not None for v in want.values()):
                ctx.violate("retarget", ["database", "retarget-raises-although-resolvable", out], out,
                            witness(g, {"target": T["name"], "history": hist}),
                            f"retarget_snrefs to {' then '.join(hist)} raises {out} although every short-name reference reachable "
                            f"from {T['name']} is uniquely resolvable in its view")
            if rep != out:
                ctx.disagree(fam, {"xml": L.to_xml(g), "target": T["name"], "history": hist}, rep[:300], out)
            return    # the bindings after a failed call are unspecified


# ---------------------------------------------------------------- call history on ONE Database object: generations

GEN_TAG = ["generation-history"]


def pristine_view(g):
    """what a pristine Database with the content of `g` does: (error class, bound targets, link database)"""
    db, err = L.load(L.to_xml(g))
    if err is not None:
        return err, None, None
    try:
        ex = L.Extract(g, db)
        return None, ex.bound(), parse_dump(ex.dump_links(db.odxlinks))
    except Exception as e:  # noqa
        return "foreign:extract-" + type(e).__name__, None, None


def generation_independent(g, db, err):
    """model-free direct oracle: a Database object that was modified and refreshed again resolves every reference like a
    pristine Database with the same content (same load outcome; same object under every reference attribute; same link
    database). -> None or what differs"""
    p_err, p_bound, p_glob = pristine_view(g)
    if (err is None) != (p_err is None):
        def say(e):
            return "loads" if e is None else f"raises {e}"
        return f"the modified and refreshed database {say(err)}, a pristine database with the same content {say(p_err)}"
    if err is not None:
        return None
    try:
        ex = L.Extract(g, db)
        b, glob = ex.bound(), parse_dump(ex.dump_links(db.odxlinks))
    except Exception as e:  # noqa
        return "walking the refreshed database fails: " + type(e).__name__
    for k, v in p_bound.items():
        if b.get(k) != v:
            return f"reference {k} is bound to object {b.get(k)}, in a pristine database with the same content to object {v}"
    if glob != p_glob:
        return "Database.odxlinks stores other bindings than the link database of a pristine database with the same content"
    return None


def run_generations(ctx, drv, fam, cases, retarget=True):
    """cases: [(g0, via of the initial load, plan = [(step, g_k)])]. The model / the specification are asked for every
    generation in one batch; then each history is played on ONE Database object and after every refresh() the
    oracles of `check_database` (against g_k) and `generation_independent` are evaluated"""
    lines = [ln for g0, via, plan in cases for step, g in plan for ln in db_lines(g)]
    reps = drv.query(lines) if lines else []
    at = 0
    for g0, via, plan in cases:
        steps = [{"op": "load", "xml": L.to_xml(g0), "via": via}]
        state = {}
        try:
            db = L.new_database()
            err = L.run_step(db, steps[0], state)
        except Exception as e:  # noqa
            db, err = None, "foreign:" + type(e).__name__
        ctx.count(f"{fam}_histories")
        prev_failed = err is not None
        for n, (step, g) in enumerate(plan):
            rep3 = reps[at:at + 3]
            at += 3
            steps = steps + [step]
            try:
                err = L.run_step(db, step, state)
            except Exception as e:  # noqa
                err = "foreign:" + type(e).__name__
            ctx.count("generation_checks")
            ctx.histo("generation_step", step["op"] + ("/" + step["via"] if "via" in step else ""))
            ctx.histo("generation_edit", step["info"]["edit"] + ("/referenced" if step["info"].get("referenced") else ""))
            wit = {"generations": steps}
            canon = ("gen", json.dumps(steps, sort_keys=True))
            # (signature: histories that edit a list of a DIAG-DATA-DICTIONARY-SPEC in place are told apart)
            tag = GEN_TAG + (["ddds-list-edited-in-place"] if any(str(s.get("list", "")).startswith("ddds.") for s in steps) else [])
            try:
                _, _, (mr, ml) = check_database(ctx, g, fam, drv, reps=rep3, loaded=(db if err is None else None, err),
                                                canon=canon, tag=tag, wit=wit)
                ctx.histo("generation_outcome", f"{'after-failed-refresh' if prev_failed else 'after-good-refresh'}/expect-{g.expect_load}")
                # (the pristine twin costs a complete parse: evaluated on the last generation of each history)
                why = generation_independent(g, db, err) if n == len(plan) - 1 else None
                if why is not None:
                    ctx.violate("generation-independent", ["database", "differs-from-pristine-database"] + tag, "differs",
                                mk_witness(g, wit),
                                f"after {' / '.join(s['op'] for s in steps)} (refresh() after each): {why}")
                if retarget and err is None and n == len(plan) - 1 and len(steps) % 2 == 0:   # (one driver call each: every other history)
                    check_retarget(ctx, g, db, err, drv, ml)
            except RuntimeError:
                raise
            except Exception as e:  # noqa  (implementation changed under the extraction code: data, not a crash)
                ctx.disagree("extract", {"generations": steps}, "n/a", "foreign:" + type(e).__name__)
            prev_failed = err is not None


def gen_generation_cases(ctx, n, fam):
    """random family `generation-histories`: a generated database (mostly valid) + 2-4 modification steps"""
    cases = []
    for i in range(n):
        r = ctx.sub_rng(fam, i)
        g0 = L.gen_database(r, PROFILES["valid" if r.random() < 0.85 else "faulty"])
        plan = L.plan_history(g0, r, r.choice([2, 3, 3, 4]))
        if plan:
            cases.append((g0, r.choice(["tree", "file", "pdx"]), plan))
    return cases


def enum_vanishing_cases(ctx, n_bases):
    """enumerated small scope `enum-vanishing-ids`: for each base database, EVERY ID-carrying object in turn x
    {vanishes, gets another id} x {new revision of its container, removal from the layer's list in place (requests,
    responses, diag-comms)}; the following generation restores it"""
    cases = []
    vias = ["tree", "file", "pdx"]
    for b in range(n_bases):
        g0 = L.gen_database(ctx.sub_rng("enum-vanishing-ids", b), PROFILES["valid"])
        for X, k, holder, o in L.id_objects(g0):
            for edit in ("drop", "reid"):
                for mode in ("replace", "inplace"):
                    if mode == "inplace" and (edit != "drop" or k not in L.INPLACE):
                        continue
                    plan = L.plan_vanish(g0, (X["name"], k, o["id"]), edit, mode, vias[len(cases) % 3])
                    if plan is None:
                        ctx.count("enum_vanishing_skipped_inheritance_conflict")
                    else:
                        cases.append((g0, "tree", plan))
    return cases


def replay_generations(w):
    """play the recorded history on one Database object; the model-free oracle on the last generation"""
    g = L.Gen(random.Random(0), PROFILES["valid"])
    g.containers = w["description"]["containers"]
    g.layers = [X for c in g.containers for X in c["layers"]]
    try:
        db, state, err = L.new_database(), {}, None
        for step in w["generations"]:
            err = L.run_step(db, step, state)
    except Exception as e:  # noqa
        db, err = None, "foreign:" + type(e).__name__
    if w.get("expect_load") == "raises" and err is None:
        return False
    if w.get("expect_load") == "ok" and err is not None:
        return False
    return generation_independent(g, db, err) is None


def on_first_parent_path(g, T, X):
    """is X reached from T by following only the first PARENT-REF of every layer?"""
    Y = T
    while Y is not None:
        if Y is X:
            return True
        Y = L.layer_named(g, Y["parent_layers"][0]) if Y["kind"] != "ECU-SHARED-DATA" and Y["parent_layers"] else None
    return False


# ---------------------------------------------------------------- corpus (defects found on the pinned commit)

def corpus_histories():
    f = ("D", "CONTAINER")
    return [
        # DESIGN.md ledger row 16: update(overwrite=False) on a copy writes into the original
        [("new",), ("update", 0, True, [("x", [f], 1, 0, "n0")]), ("copy", 0), ("update", 1, False, [("y", [f], 2, 0, "n1")]),
         ("dump", 0), ("dump", 1), ("resolve", 0, "y", [f], None, True)],
        # a fragment first seen by the copy must not appear in the original either
        [("new",), ("update", 0, True, [("x", [f], 1, 0, "n0")]), ("copy", 0),
         ("update", 1, False, [("y", [("E", "LAYER")], 2, 0, "n1")]), ("dump", 0), ("dump", 1)],
    ]


def corpus_database():
    """ESD `S` (container C2) defines DOP id d1; base variant A (container C1) imports S; base variant B (C1) refers to
    d1 without DOCREF and without importing: must not load (KeyError)."""
    rng = random.Random(1)
    g = L.Gen(rng, PROFILES["valid"])

    def layer(name, kind, cont):
        return L.new_layer(g, name, kind, cont)
    A, B, S = layer("A", "BASE-VARIANT", "C1"), layer("B", "BASE-VARIANT", "C1"), layer("S", "ECU-SHARED-DATA", "C2")
    g.containers = [{"name": "C1", "uid": g.new_uid(), "layers": [A, B]}, {"name": "C2", "uid": g.new_uid(), "layers": [S]}]
    g.layers = [A, B, S]
    S["dops"].append(g.obj("dop", "d1", "Dn1"))
    S["requests"].append(dict(g.obj("request", "r1", "Rn1"), params=[]))
    S["services"].append(dict(g.obj("service", "s1", "Sn1"), request={"key": "S.service.s1.request", "mode": "link", "rid": "r1", "docref": None, "exp": "Request"}, pos=[], neg=[]))
    for X, nm in ((A, "A"), (B, "B")):
        X["dops"].append(g.obj("dop", "d2", "Dn2"))
        rq = dict(g.obj("request", "r1", "Rn1"), params=[])
        rq["params"].append({"uid": g.new_uid(), "kind": "param", "sn": "q0", "ptype": "VALUE",
                             "dop_ref": {"key": f"{nm}.request.r1.q0.dop", "mode": "link", "rid": "d1", "docref": None, "exp": None}})
        X["requests"].append(rq)
        X["services"].append(dict(g.obj("service", "s1", "Sn1"), request={"key": f"{nm}.service.s1.request", "mode": "link", "rid": "r1", "docref": None, "exp": "Request"}, pos=[], neg=[]))
    A["imports"].append({"rid": "S", "docref": ("S", "LAYER"), "target": "S"})
    g.features |= {"imports", "fault:dangling-leak", "form:rel", "form:layer"}
    return g


def corpus_generations():
    """defect found on the pinned commit (round 6): ECU-SHARED-DATA `S` defines the DOPs `X` and `Y` and a request whose
    parameter has DOP-SNREF `X`. After loading, `X` is taken out of `S.diag_layer_raw.diag_data_dictionary_spec.
    data_object_props` and the database is refreshed: the short name `X` is no longer defined anywhere, refresh() must
    raise (a pristine database with this content does); the pinned code stays bound to the removed object through the
    `all_data_object_properties` list computed once in `__post_init__`. Next generation: `X` is put back -> loads."""
    g = L.Gen(random.Random(1), PROFILES["valid"])
    S = L.new_layer(g, "S", "ECU-SHARED-DATA", "C1")
    B = L.new_layer(g, "B", "BASE-VARIANT", "C1")
    g.containers = [{"name": "C1", "uid": g.new_uid(), "layers": [S, B]}]
    g.layers = [S, B]
    for X in (S, B):
        n = X["name"]
        X["dops"].append(g.obj("dop", f"{n}.d1", "X"))
        X["dops"].append(g.obj("dop", f"{n}.d2", "Y"))
        rq = dict(g.obj("request", f"{n}.r1", "Rq"), params=[])
        rq["params"].append({"uid": g.new_uid(), "kind": "param", "sn": "q0", "ptype": "VALUE",
                             "dop_ref": {"key": f"{n}.request.r1.q0.dop", "mode": "sn", "name": "X", "pools": L.ALL_DOPS,
                                         "exp": "DopBase", "items": None}})
        X["requests"].append(rq)
        sv = g.obj("service", f"{n}.s1", f"Sv{n}")
        sv.update(request=L.own_ref(g, X, rq, f"{n}.service.s1.request", "Request"), pos=[], neg=[])
        X["services"].append(sv)
    g.features |= {"form:snref", "form:rel"}
    cases = []
    for lname in ("S", "B"):
        plan = L.plan_vanish(g, (lname, "dops", f"{lname}.d1"), "drop", "inplace", "tree")
        cases.append((g, "tree", plan))
    return cases


# ---------------------------------------------------------------- entry points

# ---- round 10: SNREFs are resolved in the view of the referring layer AFTER inheritance, and that view honours the NOT-INHERITED lists of
# its PARENT-REFs. Small enumerated family with expectations read from the ODX rules alone (no model: the link model has no NOT-INHERITED
# lists): a functional group P and a base variant BV (parent P) each offer an object X of the kind; an ECU variant EV with PARENT-REFs to
# BV and P (both orders) refers to X by short name; NOT-INHERITED-<kind> X on no / the BV / the P / both references.
NI_KINDS = {
    "table": ("TABLES", '<TABLE ID="{lid}.X"><SHORT-NAME>X</SHORT-NAME><KEY-LABEL>{lid}</KEY-LABEL></TABLE>',
              '<PARAM xsi:type="TABLE-KEY" ID="{lid}.RQ.key"><SHORT-NAME>p</SHORT-NAME><BYTE-POSITION>0</BYTE-POSITION><TABLE-SNREF SHORT-NAME="X"/></PARAM>',
              "NOT-INHERITED-TABLES", "NOT-INHERITED-TABLE", "TABLE-SNREF", lambda prm: prm.table),
    "dop": ("DATA-OBJECT-PROPS", '<DATA-OBJECT-PROP ID="{lid}.X"><SHORT-NAME>X</SHORT-NAME><COMPU-METHOD><CATEGORY>IDENTICAL</CATEGORY></COMPU-METHOD>'
            '<DIAG-CODED-TYPE BASE-DATA-TYPE="A_UINT32" xsi:type="STANDARD-LENGTH-TYPE"><BIT-LENGTH>8</BIT-LENGTH></DIAG-CODED-TYPE>'
            '<PHYSICAL-TYPE BASE-DATA-TYPE="A_UINT32"/></DATA-OBJECT-PROP>',
            '<PARAM xsi:type="VALUE"><SHORT-NAME>p</SHORT-NAME><BYTE-POSITION>0</BYTE-POSITION><DOP-SNREF SHORT-NAME="X"/></PARAM>',
            "NOT-INHERITED-DOPS", "NOT-INHERITED-DOP", "DOP-BASE-SNREF", lambda prm: prm.dop),
}


def ni_document(kind, order, excl):
    sect, obj, param, nis, ni, sn, _ = NI_KINDS[kind]

    def ddds(lid):
        return f"<DIAG-DATA-DICTIONARY-SPEC><{sect}>{obj.format(lid=lid)}</{sect}></DIAG-DATA-DICTIONARY-SPEC>"

    def pref(target, tkind):
        x = f'<{nis}><{ni}><{sn} SHORT-NAME="X"/></{ni}></{nis}>' if target in excl else ""
        return f'<PARENT-REF ID-REF="{target}" xsi:type="{tkind}-REF">{x}</PARENT-REF>'
    refs = {"BV": pref("BV", "BASE-VARIANT"), "P": pref("P", "FUNCTIONAL-GROUP")}
    return ('<?xml version="1.0" encoding="UTF-8"?><ODX MODEL-VERSION="2.2.0" xmlns:xsi="http://www.w3.org/2001/XMLSchema-instance">'
            '<DIAG-LAYER-CONTAINER ID="DLC"><SHORT-NAME>DLC</SHORT-NAME>'
            f'<FUNCTIONAL-GROUPS><FUNCTIONAL-GROUP ID="P"><SHORT-NAME>P</SHORT-NAME>{ddds("P")}</FUNCTIONAL-GROUP></FUNCTIONAL-GROUPS>'
            f'<BASE-VARIANTS><BASE-VARIANT ID="BV"><SHORT-NAME>BV</SHORT-NAME>{ddds("BV")}'
            '<PARENT-REFS><PARENT-REF ID-REF="P" xsi:type="FUNCTIONAL-GROUP-REF"/></PARENT-REFS></BASE-VARIANT></BASE-VARIANTS>'
            '<ECU-VARIANTS><ECU-VARIANT ID="EV"><SHORT-NAME>EV</SHORT-NAME>'
            f'<REQUESTS><REQUEST ID="EV.RQ"><SHORT-NAME>RQ</SHORT-NAME><PARAMS>{param.format(lid="EV")}</PARAMS></REQUEST></REQUESTS>'
            f'<PARENT-REFS>{"".join(refs[t] for t in order)}</PARENT-REFS></ECU-VARIANT></ECU-VARIANTS>'
            '</DIAG-LAYER-CONTAINER></ODX>')


def ni_expected(excl):
    """the base variant outranks the functional group; an excluded reference offers nothing; nothing visible = dangling"""
    return "BV.X" if "BV" not in excl else "P.X" if "P" not in excl else None


def ni_observe(kind, xml):
    import xml.etree.ElementTree as ET
    from odxtools.database import Database
    from odxtools.exceptions import OdxError
    try:
        with warnings.catch_warnings():
            warnings.simplefilter("ignore")
            db = Database()
            db._process_xml_tree(ET.fromstring(xml))
            db.refresh()
        prm = db.ecu_variants.EV.requests.RQ.parameters.p
        return "bound:" + NI_KINDS[kind][6](prm).odx_id.local_id
    except OdxError:
        return "odxerror"
    except Exception as e:  # noqa
        return "foreign:" + type(e).__name__


def not_inherited_family(ctx):
    for kind in NI_KINDS:
        for order in (("BV", "P"), ("P", "BV")):
            for excl in ((), ("BV",), ("P",), ("BV", "P")):
                xml = ni_document(kind, order, excl)
                want = ni_expected(excl)
                got = ni_observe(kind, xml)
                ctx.case(("not-inherited", kind, order, excl), nontrivial=True)
                ctx.histo("family", "enum-not-inherited")
                ctx.histo("not-inherited outcome", got.split(":")[0])
                ok = (got == "bound:" + want) if want is not None else (got == "odxerror")
                if not ok:
                    ctx.violate("snref-target", ["database", "not-inherited", kind, "excluded:" + ("+".join(excl) or "none")], got,
                                {"kind": "not-inherited", "ni_kind": kind, "order": list(order), "excluded": list(excl), "xml": xml,
                                 "expected": want or "strict load raises an OdxError (dangling SNREF)"},
                                f"{NI_KINDS[kind][5]} 'X' of an ECU variant with PARENT-REFs {order} and {NI_KINDS[kind][3]} X on {excl or 'no reference'}: "
                                f"expected {want or 'an OdxError (nothing visible)'}, observed {got}")


def run(ctx):
    big = ctx.tier == "thorough"
    rng = ctx.rng
    drv = ctx.driver("drv_odxlink")
    if not drv.available():
        ctx.notes.append("driver drv_odxlink not built: correspondence skipped")
        return
    not_inherited_family(ctx)
    # class table used by the generator vs the live classes (isinstance relation)
    try:
        import odxtools.basicstructure, odxtools.structure, odxtools.dataobjectproperty, odxtools.dopbase, odxtools.table  # noqa
        from odxtools.structure import Structure
        from odxtools.basicstructure import BasicStructure
        from odxtools.dopbase import DopBase
        from odxtools.dataobjectproperty import DataObjectProperty
        from odxtools.endofpdufield import EndOfPduField
        from odxtools.multiplexer import Multiplexer
        from odxtools.diagservice import DiagService
        from odxtools.diagcomm import DiagComm
        from odxtools.parameters.tablekeyparameter import TableKeyParameter
        ok = (issubclass(Structure, BasicStructure) and issubclass(BasicStructure, DopBase) and issubclass(DataObjectProperty, DopBase)
              and issubclass(EndOfPduField, DopBase) and not issubclass(EndOfPduField, BasicStructure) and issubclass(Multiplexer, DopBase)
              and issubclass(DiagService, DiagComm) and not issubclass(DataObjectProperty, BasicStructure)
              and not issubclass(TableKeyParameter, DopBase))
        ctx.obligation("class-table-matches-live-classes", ok)
    except Exception as e:  # noqa
        ctx.obligation("class-table-matches-live-classes", False, repr(e))
    try:   # inheritance priorities used by the independent reading of value inheritance vs the live enum
        from odxtools.diaglayers.diaglayertype import DiagLayerType
        live = {t.value: t.inheritance_priority for t in DiagLayerType}
        ctx.obligation("prio-table-matches-live-enum", live == L.PRIO, "" if live == L.PRIO else repr(live))
    except Exception as e:  # noqa
        ctx.obligation("prio-table-matches-live-enum", False, repr(e))
    pending = []
    # (a) corpus
    for ops in corpus_histories():
        check_history(ctx, ops, "corpus", pending)
    g = corpus_database()
    db, err, (mr, ml) = check_database(ctx, g, "corpus", drv)
    run_generations(ctx, drv, "corpus", corpus_generations(), retarget=False)
    # (b) unit level histories
    for n in range(8000 if big else 1500):
        ops = gen_history(rng, rng.choice([3, 6, 10, 16, 24]))
        check_history(ctx, ops, "history", pending)
    for n in range(30000 if big else 4000):
        check_snref(ctx, rng, pending)
    lines = [history_line(ops) if fam != "snref" else ops for fam, ops, _ in pending]
    reps = drv.query(lines)
    for (fam, ops, got), line, rep in zip(pending, lines, reps):
        ctx.traces += 1
        if rep != got:
            ctx.disagree(fam, {"line": line[:2000]}, rep[:1500], got[:1500])
    if pending:
        ctx.sample({"request": lines[2][:300], "model": reps[2][:300], "impl": pending[2][2][:300]})
    # (c) enumerated hierarchies that branch and join (retarget histories over every target)
    run_enum_hierarchies(ctx, drv, ["FGBE", "SFBE", "SFGBE"] if big else ["FGBE", "SFBE"])
    # (d) databases
    n_valid, n_faulty = (5000, 5000) if big else (550, 550)
    for fam, n in (("valid", n_valid), ("faulty", n_faulty)):
        for i in range(n):
            r = ctx.sub_rng(fam, i)
            g = L.gen_database(r, PROFILES[fam])
            db, err, (mr, ml) = check_database(ctx, g, fam, drv)
            if i == 0:
                ctx.sample({"family": fam, "features": sorted(g.features), "load": err or "ok", "model": mr[:300]})
            try:
                check_imports_metamorphic(ctx, g, db, err)
                check_retarget(ctx, g, db, err, drv, ml)
            except Exception as e:  # noqa  (implementation changed under the extraction code: data, not a crash)
                ctx.disagree("extract", {"xml": L.to_xml(g)}, "n/a", "foreign:" + type(e).__name__)

    # (e) call histories on ONE Database object: modified and refreshed again (generations)
    fam = "enum-vanishing-ids"
    run_generations(ctx, drv, fam, enum_vanishing_cases(ctx, 8 if big else 2), retarget=False)
    fam = "generation-histories"
    run_generations(ctx, drv, fam, gen_generation_cases(ctx, 2000 if big else 200, fam))


def enum_schedule(g, tag):
    """retarget(T) for *every* layer T that has parents (most derived first resp. last), and the first one again"""
    targets = [X for X in g.layers if X["parent_layers"]]
    sched = list(reversed(targets)) if not tag[3] else list(targets)
    return sched + [sched[0]]


def run_enum_hierarchies(ctx, drv, scopes):
    """enumerated small scope `enum-retarget-hierarchies`: every database through the full database check, then the
    retarget call history of `enum_schedule`; the model is asked once per scope (4 request lines per database)"""
    fam = "enum-retarget-hierarchies"
    for scope in scopes:
        cases = []
        for tag, g in L.enum_hierarchies(scope):
            if g is None:
                ctx.count(f"enum_{scope}_skipped_inheritance_conflict")
            else:
                cases.append((tag, g, enum_schedule(g, tag)))
        reps = drv.query([ln for tag, g, sched in cases for ln in db_lines(g) + [retarget_line(g, sched)]])
        for n, (tag, g, sched) in enumerate(cases):
            ctx.count(f"enum_{scope}_databases")
            db, err, (mr, ml) = check_database(ctx, g, fam, drv, reps=reps[4 * n:4 * n + 3])
            if err is not None:      # conflict-free and every reference resolvable by construction: reported by check_database
                continue
            try:
                check_retarget(ctx, g, db, err, drv, ml, schedule=sched, fam=fam, rep_all=reps[4 * n + 3])
            except Exception as e:  # noqa
                ctx.disagree("extract", {"xml": L.to_xml(g)}, "n/a", "foreign:" + type(e).__name__)


def replay(ctx, data):
    w = data["witness"]
    if w.get("kind") == "not-inherited":
        want = ni_expected(tuple(w["excluded"]))
        got = ni_observe(w["ni_kind"], w["xml"])
        return (got == "bound:" + want) if want is not None else (got == "odxerror")
    if w.get("kind") == "history":
        return replay_history(w["ops"])
    if w.get("kind") == "snref":
        from odxtools.odxlink import resolve_snref
        kl = {"K0": K0, "K1": K1, "K2": K2, "K3": K3}
        items = [kl[c](u, n) for u, c, n in w["items"]]
        cands = [o for o in items if o.short_name == w["name"]]
        exp = w["exp"]
        got = outcome(lambda: resolve_snref(w["name"], items, kl[exp]) if exp else resolve_snref(w["name"], items))
        want = f"(ok {cands[0].uid})" if len(cands) == 1 and (exp is None or isinstance(cands[0], kl[exp])) else "(err odx)"
        return got == want
    if w.get("kind") == "database" and "history" in w:
        return replay_retarget(w)
    if w.get("kind") == "database" and "generations" in w:
        return replay_generations(w)
    if w.get("kind") == "database":
        db, err = L.load(w["xml"])
        # partial replay (the description is not part of the witness): the load outcome the specification demands,
        # and refresh() leaving the global link database as built
        if w.get("expect_load") == "raises":
            return err is not None
        if err is not None:
            return False
        from odxtools.odxlink import OdxLinkDatabase
        fresh = OdxLinkDatabase()
        fresh.update(db._build_odxlinks())
        return {f: {k: id(v) for k, v in d.items()} for f, d in fresh._db.items()} == \
               {f: {k: id(v) for k, v in d.items()} for f, d in db.odxlinks._db.items()}
    return False
