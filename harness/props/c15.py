"""C15 — communication parameters resolve to the most specific definition."""
import itertools
import json
import time

import common
import comparam_lib as CL
from extract import layerprio

ID = "C15"
LEAN_TARGETS = ["OdxVerif.Props.C15"]
DRIVERS = ["drv_comparam"]
P = "OdxVerif.Comparam."
THEOREMS = [P + t for t in [
    "C15_priority_table", "C15_most_specific", "C15_one_per_key", "C15_available_iff_effective",
    "C15_local_overrides_parent", "C15_inherited_unless_overridden", "C15_highest_priority", "C15_protocol_first", "C15_protocol_first_specific",
    "C15_protocol_first_generic", "C15_no_protocol", "C15_defaults_value", "C15_defaults_subvalue", "C15_accessors",
    "C15_accessors_layer", "C15_int_of_decimal", "C15_history_independent", "C15_history_lookup",
    "C15_pinned_get_comparam_counterexample"]]
RULE = ("documents = 1-4 (thorough: up to 6) layers over PROTOCOL/FUNCTIONAL-GROUP/BASE-VARIANT/ECU-VARIANT/ECU-SHARED-DATA with random "
        "parent refs (DAG, any order of refs), COMPARAM-REFs of simple and complex parameters of the shipped comparam subsets and of a "
        "generated subset (random defaults and sub-parameter lists), with/without PROTOCOL-SNREF, values explicit/omitted/ill-typed, "
        "complex values full/short/with empty sub-values; loaded through the real XML loader; edit histories: such a document, "
        "then 1-3 steps of 1-3 edits of the live objects (COMPARAM-REF added/removed/replaced/modified in place/reordered, parent refs "
        "added/removed/re-targeted/reordered, default of a parameter specification changed, layer added) each followed by "
        "Database.refresh(), lookups before and between the edits in most histories, plus an enumerated small scope (one parameter, "
        "three layers, every placement x every single edit); one case = one (document or history state, layer); "
        "non-trivial = the layer sees at least one communication parameter")
TRUSTED = ["model lean/OdxVerif/Model/Comparam.lean is hand-written; tied to hierarchyelement.py/comparaminstance.py by comparing comparam_refs "
           "(ordered), get_comparam for every (short name, protocol) and all 15 typed accessors on generated documents and on every "
           "observed state of the generated edit histories (the model's LayerObj says: lookups read `_comparam_refs` and store nothing, "
           "refresh() recomputes it; an edit of the live objects is mirrored on the document description by the harness)",
           "Python's int(str)/float(str) are modelled for ASCII input (strip, sign, underscores between digits, decimal/exponent, inf/nan); "
           "the rounding of float(s)/1e6 to binary64 is not modelled: the harness recomputes it from the model's exact decimal",
           "generated priority table Gen/LayerPrio.lean (extractor harness/extract/layerprio.py), cross-checked against the live enum on every run",
           "the catalogue of parameter specifications (short names, defaults, sub-parameters) is read from the subset XML by the harness itself (ElementTree)"]
ASSUMPTIONS = ["strict_mode = True (the default): odxraise raises",
               "values and defaults are ASCII strings without XML-forbidden control characters (int()/float() of non-ASCII digits or white space is not modelled); fewer than 4300 digits",
               "a hierarchy is a finite DAG unfolded into a tree; ECU-SHARED-DATA layers carry no communication parameters (the loader ignores COMPARAM-REFS there)",
               "several specification ids sharing one short name (CP_Baudrate of ISO 11898-2/-3, SAE J2411): the property does not rank them; the model keeps dictionary order, the specification accepts any of them",
               "COMPLEX-PHYSICAL-DEFAULT-VALUE of a complex parameter is not a fall-back for sub-values (odxtools ignores it; sub-parameters carry their own defaults)"]


def regen(ctx):
    layerprio.regenerate(common.REPO, common.VERIF)


GENERATORS = [regen]


# --- tie of kind (1) (task W15): Gen/InheritPrio.lean is regenerated from DiagLayerType.inheritance_priority and
# HierarchyElement._get_parent_refs_sorted_by_priority of the current source by the Python->Lean translator and proved equal to
# LayerKind.prio / the model's stable sort (Proofs/InheritPrioGenEq.lean)
LEAN_TARGETS = LEAN_TARGETS + ["OdxVerif.Props.C15Gen"]
THEOREMS = THEOREMS + ["OdxVerif.Comparam." + t for t in ['C15_gen_parent_order', 'stableSort_eq_sortAsc']]
TRUSTED = TRUSTED + ["translator harness/extract/py2lean.py + primitives lean/OdxVerif/Model/PyRt.lean for DiagLayerType.inheritance_priority (dict literal + "
                     "look-up) and HierarchyElement._get_parent_refs_sorted_by_priority (sorted(key=, reverse=) = Py.sortedByKeyM: keys first, then a "
                     "stable sort in either direction; getattr(raw, 'parent_refs', []) = the list of parent references, empty for layers without)"]


def regen_inherit_prio(ctx):
    """Gen/InheritPrio.lean from the current source; Unsupported (source left the translator's subset) = broken obligation"""
    from extract import py2lean
    py2lean.regenerate_inherit_prio(common.REPO, common.VERIF)


GENERATORS = GENERATORS + [regen_inherit_prio]


# --- tie of kind (1) (task W28): Gen/GetComparam.lean is regenerated from HierarchyElement.get_comparam of the current source by the
# Python->Lean translator and proved equal to the hand-written getComparamIn (Proofs/GetComparamGenEq.lean)
LEAN_TARGETS = LEAN_TARGETS + ["OdxVerif.Props.C15GenLookup"]
THEOREMS = THEOREMS + ["OdxVerif.Comparam." + t for t in ["gen_getComparam_eq", "C15_gen_get_comparam", "C15_gen_protocol_object",
                                                          "C15_gen_protocol_first", "C15_gen_protocol_first_specific"]]
TRUSTED = TRUSTED + ["translator harness/extract/py2lean.py + primitives lean/OdxVerif/Model/PyRt.lean for HierarchyElement.get_comparam (self.comparam_refs = "
                     "the list `refs`, instantiated with the model's `available L`; the argument `protocol: Optional[Union[str, Protocol]]` = Option ProtoArg "
                     "(a name or a Protocol object of which only short_name is read; isinstance(protocol, Protocol) splits it, the else branch reads it as "
                     "Optional[str]); cp.short_name / cp.protocol_snref = Inst.name / Inst.proto; warnings.warn has no effect on the result; the "
                     "function-local import of Protocol succeeds)"]


def regen_get_comparam(ctx):
    """Gen/GetComparam.lean from the current source; Unsupported (source left the translator's subset) = broken obligation"""
    from extract import py2lean
    py2lean.regenerate_get_comparam(common.REPO, common.VERIF)


GENERATORS = GENERATORS + [regen_get_comparam]


# --- tie of kind (1) (task W28): Gen/ComparamAccessors.lean — the five accessors of the shape get_comparam / get_value / int() are
# regenerated from the current source and proved equal to the model's viaValue … intRes (Proofs/ComparamAccessorsGenEq.lean)
LEAN_TARGETS = LEAN_TARGETS + ["OdxVerif.Props.C15GenAccessors"]
THEOREMS = THEOREMS + ["OdxVerif.Comparam." + t for t in ["gen_canFuncReqId_eq", "gen_doipLogicalGatewayAddress_eq", "gen_doipLogicalTesterAddress_eq",
                                                          "gen_doipLogicalFunctionalAddress_eq", "gen_doipRoutingActivationType_eq",
                                                          "C15_gen_accessors_int", "C15_gen_accessors_spec",
                                                          "gen_canBaudrate_eq", "C15_gen_can_baudrate"]]
TRUSTED = TRUSTED + ["translator + PyRt primitives for get_can_func_req_id, get_doip_logical_gateway_address, get_doip_logical_tester_address, "
                     "get_doip_logical_functional_address, get_doip_routing_activation_type, get_can_baudrate (isinstance(com_param.value, str) = CVal.isStr; self.get_comparam = the generated getComparamE; "
                     "com_param.get_value() = the hand-written getValue, int(str) = the hand-written pyInt with ValueError as class foreign: both "
                     "stay tied to the code by the correspondence check only; odxassert(isinstance(result, str)) is a typing assertion)"]


def regen_accessors(ctx):
    """Gen/ComparamAccessors.lean from the current source; Unsupported (source left the translator's subset) = broken obligation"""
    from extract import py2lean
    py2lean.regenerate_accessors(common.REPO, common.VERIF)


GENERATORS = GENERATORS + [regen_accessors]

# ----------------------------------------------------------------------------- generators

INTS = ["0", "1", "8", "123", "2016", "500000", "4294967295", " 42 ", "+7", "-3", "1_000", "007", "\t9\n", "0x10", "12a", "1.5",
        "abc", " ", "1__0", "_1", "1_", "--1", "1 2", "+", "-", "1_2_3", "+ 1"]
FLOATS = ["2000000", "2.5e6", "1_0.5", ".5", "5.", "inf", "nan", "-Infinity", "+NaN", "1e", "e5", ".", "1e+3", "1E-2", "1e1_0", "1_e1",
          "0.000001", "123456789012345678901234567890", "1e400", "-0", "-0.0", "1.e2", "iNf", "in f", "nan_", "1e-400", "1._5", "1_.5",
          "3000000.0", " 5e6 ", "1e+", "1.5.2", "infinit", "- 1", "0e0", "00.50"]
TXDLS = ["TX_DL=64", "TX_DL = 12 CANFD", "CANFD", "TX_DL=", "TX_DLTX_DL=8", "xTX_DL  =  16y", "TX_DL:8", "CAN", "TX_DL=8 CANFD TX_DL=64",
         "TX_DL =", "TX_DL= x", "tx_dl=5", "TX_DL=007", "CAN FD", "TX_DL\t=8", "TX_DTX_DL=5", "canfd", "TX_DL=48CANFD"]
KIND_OF_NAME = {"CP_CANFDTxMaxDataLength": "txdl", "CP_DoIPRoutingActivationTimeout": "float", "CP_TesterPresentTime": "float"}


def rand_value(rng, kind):
    r = rng.random()
    if r < 0.22:
        return ""                                   # omitted
    if r < 0.45:
        n = rng.choice([rng.randrange(10), rng.randrange(3000), rng.randrange(2 ** 32), rng.randrange(10 ** 12)])
        return str(n) if kind != "txdl" else f"TX_DL={n}"
    pool = {"int": INTS, "float": FLOATS + INTS, "txdl": TXDLS + INTS[:6]}[kind]
    if r < 0.55:
        pool = INTS + FLOATS + TXDLS
    return rng.choice(pool)


SUB_NAMES = ["CP_CanPhysReqId", "CP_CanRespUSDTId", "CP_DoIPLogicalEcuAddress", "CP_Other"]


def gen_custom(rng):
    c = []
    for n in ["CP_DoIPLogicalGatewayAddress", "CP_DoIPLogicalTesterAddress", "CP_DoIPLogicalFunctionalAddress", "CP_DoIPRoutingActivationTimeout",
              "CP_DoIPRoutingActivationType", "CP_CANFDTxMaxDataLength", "CP_CANFDBaudrate", "CP_Baudrate", "CP_TesterPresentTime", "CP_CanFuncReqId"]:
        c.append(["S", "VCS." + n, n, rand_value(rng, KIND_OF_NAME.get(n, "int"))])
    for k, nm in enumerate(["CP_UniqueRespIdTable", "CP_UniqueRespIdTable", "CP_Other"]):
        subs = []
        for j in range(rng.randint(0, 5)):
            sn = rng.choice(SUB_NAMES)
            if rng.random() < 0.12:
                inner = [["S", f"VCS.C{k}.{j}.in", "CP_In", rand_value(rng, "int")]]
                subs.append(["C", f"VCS.C{k}.{j}", sn, inner, rng.choice([None, [rand_value(rng, "int")], []])])
            else:
                subs.append(["S", f"VCS.C{k}.{j}", sn, rand_value(rng, "int")])
        cd = None if rng.random() < 0.7 else [rand_value(rng, "int") for _ in subs]
        c.append(["C", f"VCS.CX{k}", nm, subs, cd])
    return c


def rand_inst_value(rng, spec):
    """-> (form, value)"""
    name = spec[2]
    if spec[0] == "S":
        r = rng.random()
        if r < 0.05:                                # ill-typed: complex value for a simple parameter
            return "COMPLEX-VALUE", [rand_value(rng, "int") for _ in range(rng.randint(0, 2))]
        return rng.choice(["SIMPLE-VALUE", "SIMPLE-VALUE", "VALUE"]), rand_value(rng, KIND_OF_NAME.get(name, "int"))
    r = rng.random()
    if r < 0.05:                                    # ill-typed: simple value for a complex parameter
        return "SIMPLE-VALUE", rand_value(rng, "int")
    n = len(spec[3])
    vals = []
    for s in spec[3]:
        if s[0] == "C" or rng.random() < 0.04:
            vals.append([rand_value(rng, "int") for _ in range(rng.randint(0, 2))])
        else:
            # ids/addresses: numbers, texts otherwise untouched
            vals.append(rand_value(rng, "int") if not s[2].endswith("Format") and s[2] != "CP_ECULayerShortName" else rng.choice(["", "text", s[3]]))
    r = rng.random()
    if r < 0.3:
        vals = vals[:rng.randint(0, n)]             # short complex value
    elif r < 0.35:
        vals = vals + [rand_value(rng, "int")]      # over-long
    elif r < 0.40:
        vals = [vals, vals]                         # ALLOW-MULTIPLE-VALUES style nesting
    return "COMPLEX-VALUE", vals


SHIPPED_IDS = ["ISO_11898_2_DWCAN.CP_Baudrate", "ISO_11898_3_DWFTCAN.CP_Baudrate", "SAE_J2411_SWCAN.CP_Baudrate",
               "ISO_15765_2.CP_UniqueRespIdTable", "ISO_15765_2.CP_CanFuncReqId", "ISO_15765_3.CP_TesterPresentTime",
               "ISO_15765_2.CP_BlockSize", "ISO_11898_2_DWCAN.CP_ListenOnly", "ISO_15765_2.CP_StMin"]
PRIO_ORDER = ["PROTOCOL", "FUNCTIONAL-GROUP", "BASE-VARIANT", "ECU-VARIANT"]
PREFIX = {"PROTOCOL": "PR", "FUNCTIONAL-GROUP": "FG", "BASE-VARIANT": "BV", "ECU-VARIANT": "EV", "ECU-SHARED-DATA": "SD"}


def doc_of(id_):
    return "VCS" if id_.startswith("VCS.") else id_.split(".")[0]


def mk_inst(tag, id_, proto, form, value, stack=None, desc=None):
    c = {"tag": tag, "id": id_, "doc": doc_of(id_), "proto": proto, "form": form, "value": value}
    if stack is not None:
        c["stack"] = stack              # PROT-STACK-SNREF: optional qualifier, not part of the override key
    if desc is not None:
        c["desc"] = desc                # DESC: optional, carries no meaning for the resolution
    return c


STACKS = ["ST_A", "ST_B"]


def qualifier_mode(rng):
    """per document: how often a COMPARAM-REF carries the optional PROT-STACK-SNREF / DESC (half of the documents: never)"""
    return rng.choice([0.0, 0.0, 0.0, 0.25, 0.5, 0.9])


def rand_qualifiers(rng, q):
    """-> (stack, desc); two stack names so that 'one side omits it' and 'both name different stacks' both occur"""
    if q == 0.0:
        return None, None
    stack = rng.choice(STACKS) if rng.random() < q else None
    desc = rng.choice(["text", "a < b", " "]) if rng.random() < q / 4 else None
    return stack, desc


def gen_shape(rng, k, legal_bias=0.7):
    """kinds and parent lists of k layers"""
    kinds = [rng.choice(CL.KINDS[:4] * 3 + ["ECU-SHARED-DATA"]) for _ in range(k)]
    if rng.random() < legal_bias:
        kinds.sort(key=lambda x: (PRIO_ORDER + ["ECU-SHARED-DATA"]).index(x) if x != "ECU-SHARED-DATA" else -1)
    layers = []
    for i, kd in enumerate(kinds):
        parents = []
        if kd != "ECU-SHARED-DATA" and i > 0:
            n = rng.choice([0, 1, 1, 1, 2, 2, 3])
            parents = [rng.randrange(i) for _ in range(min(n, i + 1))]
            if rng.random() < 0.9:
                parents = list(dict.fromkeys(parents))
        layers.append({"kind": kd, "name": f"{PREFIX[kd]}{i}", "parents": parents, "insts": []})
    return layers


def gen_random(rng, kmax):
    custom = gen_custom(rng)
    layers = gen_shape(rng, rng.randint(1, kmax))
    h = {"custom": custom, "layers": layers}
    cat = CL.catalog(h)
    ids = SHIPPED_IDS + [e[1] for e in custom]
    by_name = {}
    for i in ids:
        by_name.setdefault(cat[i][2], []).append(i)
    focus_names = rng.sample(["CP_Baudrate", "CP_Baudrate", "CP_UniqueRespIdTable", "CP_UniqueRespIdTable"] + CL.ACC_NAMES, rng.randint(1, 3))
    focus = [i for n in focus_names for i in by_name[n]]
    if rng.random() < 0.5:
        focus = rng.sample(focus, min(len(focus), rng.randint(1, 2)))
    prot_names = [L["name"] for L in layers if L["kind"] == "PROTOCOL"][:2] + ["PA"]
    protos = [None, None] + prot_names[:rng.randint(1, len(prot_names))]
    tag = 0
    qm = qualifier_mode(rng)
    for L in layers:
        for _ in range(rng.choice([0, 1, 1, 2, 2, 3, 4])):
            id_ = rng.choice(focus) if rng.random() < 0.8 else rng.choice(ids)
            form, value = rand_inst_value(rng, cat[id_])
            L["insts"].append(mk_inst(tag, id_, rng.choice(protos), form, value, *rand_qualifiers(rng, qm)))
            tag += 1
    return h


def gen_values(rng):
    """one or two layers that define every parameter an accessor reads: exercises values, defaults and parsing"""
    custom = gen_custom(rng)
    layers = [{"kind": "FUNCTIONAL-GROUP", "name": "FG0", "parents": [], "insts": []},
              {"kind": rng.choice(["BASE-VARIANT", "ECU-VARIANT"]), "name": "BV1", "parents": [0], "insts": []}]
    h = {"custom": custom, "layers": layers}
    cat = CL.catalog(h)
    ids = SHIPPED_IDS + [e[1] for e in custom]
    tag = 0
    qm = qualifier_mode(rng)
    well = rng.random() < 0.6
    if well and rng.random() < 0.5:
        for e in custom:
            if e[2] == "CP_CANFDTxMaxDataLength":
                e[3] = rng.choice(["TX_DL=32 CANFD", "CANFD"])
    for n in CL.ACC_NAMES:
        cands = [i for i in ids if cat[i][2] == n]
        for L in layers:
            if rng.random() < (0.85 if L is layers[1] else 0.25):
                id_ = rng.choice(cands)
                form, value = rand_inst_value(rng, cat[id_])
                if well and n == "CP_UniqueRespIdTable" and form == "COMPLEX-VALUE":      # a usable CAN id table
                    id_ = "ISO_15765_2.CP_UniqueRespIdTable"
                    value = list(URT_FULL[:rng.choice([2, 5, 10])])
                    value[1] = rng.choice(["", str(rng.randrange(2048))])
                if well and n == "CP_CANFDTxMaxDataLength" and form != "COMPLEX-VALUE":
                    value = rng.choice(["", "CANFD", "TX_DL=64 CANFD", f"CANFD TX_DL = {rng.randrange(100)}", "TX_DL=8"])
                L["insts"].append(mk_inst(tag, id_, rng.choice([None, None, None, "PA"]), form, value, *rand_qualifiers(rng, qm)))
                tag += 1
    return h


SYS_PATTERNS = [(), ("g",), ("s",), ("g", "s"), ("s", "g"), ("o",), ("g", "g")]


def gen_systematic(rng, k=None):
    """small scope: <= 3 layers, one parameter id (plus a second id of the same short name), placements generic/specific/other protocol"""
    k = k or rng.choice([1, 2, 2, 3, 3, 3])
    layers = gen_shape(rng, k, legal_bias=0.5)
    h = {"custom": [], "layers": layers}
    tag = 0
    qm = qualifier_mode(rng)
    for L in layers:
        for kind in rng.choice(SYS_PATTERNS):
            id_ = "ISO_11898_2_DWCAN.CP_Baudrate" if rng.random() < 0.85 else "ISO_11898_3_DWFTCAN.CP_Baudrate"
            L["insts"].append(mk_inst(tag, id_, {"g": None, "s": "P", "o": "Q"}[kind], "SIMPLE-VALUE", str(100 + tag),
                                      *rand_qualifiers(rng, qm)))
            tag += 1
    return h


def S(id_, proto, value, tag, form="SIMPLE-VALUE", stack=None, desc=None):
    return mk_inst(tag, id_, proto, form, value, stack, desc)


BR = "ISO_11898_2_DWCAN.CP_Baudrate"
URT = "ISO_15765_2.CP_UniqueRespIdTable"
URT_FULL = ["normal segmented 11-bit transmit with FC", "123", "0", "normal segmented 11-bit receive with FC", "456", "0",
            "normal unsegmented 11-bit receive", "4294967295", "0", "Somersault"]


def corpus():
    """minimised past failures (pinned commit) and hand-written basics"""
    fg = lambda insts: {"kind": "FUNCTIONAL-GROUP", "name": "FG0", "parents": [], "insts": insts}
    bv = lambda insts, parents=(0,), i=1: {"kind": "BASE-VARIANT", "name": f"BV{i}", "parents": list(parents), "insts": insts}
    docs = []
    # ledger row 19: generic parent definition shadows the protocol-specific one
    docs.append(("generic-shadows-specific", {"custom": [], "layers": [fg([S(BR, None, "111", 0)]), bv([S(BR, "P", "222", 1)])]}))
    docs.append(("omitted-baudrate", {"custom": [], "layers": [bv([S(BR, None, "", 0), S(URT, None, URT_FULL, 1, "COMPLEX-VALUE")], parents=(), i=0)]}))
    # generic first within one layer
    docs.append(("generic-before-specific-local", {"custom": [], "layers": [bv([S(BR, None, "111", 0), S(BR, "P", "222", 1)], parents=(), i=0)]}))
    # empty sub-value never falls back to the default
    docs.append(("empty-subvalue", {"custom": [], "layers": [bv([S(URT, None, ["x", "", "0", "y", ""], 0, "COMPLEX-VALUE")], parents=(), i=0)]}))
    # complex value shorter than the sub-parameter list
    docs.append(("short-complex-value", {"custom": [], "layers": [bv([S(URT, None, ["x", "7"], 0, "COMPLEX-VALUE")], parents=(), i=0)]}))
    # (the baud rate accessor ignoring the default for an omitted value: second entry above)
    docs.append(("omitted-canfd", {"custom": [["S", "VCS.CP_CANFDTxMaxDataLength", "CP_CANFDTxMaxDataLength", "TX_DL=32 CANFD"],
                                              ["S", "VCS.CP_CANFDBaudrate", "CP_CANFDBaudrate", "2000000"]],
                                   "layers": [bv([S("VCS.CP_CANFDTxMaxDataLength", None, "", 0), S("VCS.CP_CANFDBaudrate", None, "", 1),
                                                  S(URT, None, URT_FULL, 2, "COMPLEX-VALUE")], parents=(), i=0)]}))
    # basics: override chain protocol < functional group < base variant < ecu variant; shared data is skipped
    docs.append(("chain", {"custom": [], "layers": [
        {"kind": "PROTOCOL", "name": "PR0", "parents": [], "insts": [S(BR, None, "1", 0), S(URT, None, URT_FULL, 1, "COMPLEX-VALUE")]},
        {"kind": "ECU-SHARED-DATA", "name": "SD1", "parents": [], "insts": [S(BR, None, "9", 2)]},
        {"kind": "FUNCTIONAL-GROUP", "name": "FG2", "parents": [0], "insts": [S(BR, "PR0", "2", 3)]},
        {"kind": "BASE-VARIANT", "name": "BV3", "parents": [2, 0, 1], "insts": [S(BR, None, "3", 4)]},
        {"kind": "ECU-VARIANT", "name": "EV4", "parents": [3, 1], "insts": [S(BR, "PR0", "4", 5)]}]}))
    # two parents of equal priority: the later parent ref wins
    docs.append(("tie", {"custom": [], "layers": [fg([S(BR, None, "1", 0)]),
                                                  {"kind": "FUNCTIONAL-GROUP", "name": "FG1", "parents": [], "insts": [S(BR, None, "2", 1)]},
                                                  bv([], parents=(0, 1), i=2), bv([], parents=(1, 0), i=3)]}))
    # the optional PROT-STACK-SNREF (and DESC) of a COMPARAM-REF is not part of the override key: a closer definition for the same
    # (parameter, protocol) replaces the inherited one whether or not the two agree in it (seeded change C15-r4-1)
    docs.append(("stack-qualifier", {"custom": [], "layers": [
        {"kind": "PROTOCOL", "name": "PR0", "parents": [], "insts": [S(BR, "PR0", "1", 0, stack="ST_A"), S(BR, None, "2", 1, stack="ST_A", desc="d")]},
        {"kind": "BASE-VARIANT", "name": "BV1", "parents": [0], "insts": [S(BR, "PR0", "3", 2), S(BR, None, "4", 3, stack="ST_B")]},
        {"kind": "ECU-VARIANT", "name": "EV2", "parents": [1], "insts": [S(BR, "PR0", "", 4, stack="ST_B"), S(BR, None, "6", 5, stack="ST_A")]}]}))
    return docs


# ----------------------------------------------------------------------------- edit histories (format: comparam_lib, "edit histories")

def max_tag(h):
    return max([c["tag"] for L in h["layers"] for c in L["insts"]], default=-1)


def rand_op(rng, h, tag, qm):
    """one random edit of the document `h` (None if the drawn kind does not apply); collisions with keys in use are likely"""
    cat = CL.catalog(h)
    layers = h["layers"]
    he = [i for i, L in enumerate(layers) if L["kind"] != "ECU-SHARED-DATA"]
    if not he:
        return None
    used = [c["id"] for L in layers for c in L["insts"]]
    all_ids = SHIPPED_IDS + [e[1] for e in h["custom"]]
    protos = [None, None] + [p for p in CL.protos_of(h)[1:-1]] + ["PA"]

    def new_inst():
        id_ = rng.choice(used) if used and rng.random() < 0.8 else rng.choice(all_ids)
        if used and rng.random() < 0.3:          # another specification of the same short name
            same = [i for i in all_ids if cat[i][2] == cat[id_][2]]
            id_ = rng.choice(same)
        form, value = rand_inst_value(rng, cat[id_])
        return mk_inst(tag, id_, rng.choice(protos), form, value, *rand_qualifiers(rng, qm))

    kind = rng.choice(["add"] * 5 + ["del"] * 3 + ["replace"] * 2 + ["set"] * 5 + ["swap"] + ["parents"] * 3 + ["dflt"] + ["layer"])
    style = rng.choice(["inplace", "rebind"])
    i = rng.choice(he)
    n = len(layers[i]["insts"])
    if kind == "add":
        return {"op": "add", "layer": i, "pos": rng.choice([0, n, rng.randint(0, n)]), "inst": new_inst(), "style": style}
    if kind in ("del", "replace", "set", "swap"):
        with_insts = [j for j in he if layers[j]["insts"]]
        if not with_insts:
            return None
        i = rng.choice(with_insts)
        n = len(layers[i]["insts"])
        pos = rng.randrange(n)
        c = layers[i]["insts"][pos]
        if kind == "del":
            return {"op": "del", "layer": i, "pos": pos, "style": style}
        if kind == "replace":
            ni = new_inst()
            if rng.random() < 0.6:               # same key, another object/value
                form, value = rand_inst_value(rng, cat[c["id"]])
                ni = mk_inst(tag, c["id"], c["proto"], form, value, c.get("stack"))
            return {"op": "replace", "layer": i, "pos": pos, "inst": ni}
        if kind == "swap":
            return {"op": "swap", "layer": i, "a": pos, "b": rng.randrange(n)} if n > 1 else None
        f = rng.choice(["value", "value", "proto", "proto", "id", "stack"])
        if f == "value":
            form, value = rand_inst_value(rng, cat[c["id"]])
            if rng.random() < 0.25:
                form, value = c["form"], ("" if isinstance(c["value"], str) else [])      # now omitted
            return {"op": "set", "layer": i, "pos": pos, "field": "value", "to": value, "form": form}
        if f == "proto":
            return {"op": "set", "layer": i, "pos": pos, "field": "proto", "to": rng.choice([p for p in protos if p != c["proto"]])}
        if f == "stack":
            return {"op": "set", "layer": i, "pos": pos, "field": "stack", "to": rng.choice([s for s in STACKS + [None] if s != c.get("stack")])}
        same = [x for x in all_ids if x != c["id"] and (cat[x][2] == cat[c["id"]][2] or rng.random() < 0.1)]
        if not same:
            return None
        to = rng.choice(same)
        return {"op": "set", "layer": i, "pos": pos, "field": "id", "to": to, "doc": doc_of(to)}
    if kind == "parents":
        cands = [j for j in he if j > 0]
        if not cands:
            return None
        i = rng.choice(cands)
        old = layers[i]["parents"]
        r = rng.random()
        new = list(old)
        if r < 0.35 or not old:
            new.insert(rng.randint(0, len(new)), rng.randrange(i))            # one more parent (a duplicate is possible)
        elif r < 0.6:
            del new[rng.randrange(len(new))]
        elif r < 0.8:
            new[rng.randrange(len(new))] = rng.randrange(i)                   # re-target
        else:
            rng.shuffle(new)
        return {"op": "parents", "layer": i, "to": new, "style": style} if new != old else None
    if kind == "dflt":
        simple = [e for e in h["custom"] if e[0] == "S"] + [s for e in h["custom"] if e[0] == "C" for s in e[3] if s[0] == "S"]
        ids_used = set(used)
        hot = [e for e in simple if e[1] in ids_used or any(e in cat[u][3] for u in ids_used if cat[u][0] == "C")]
        if not simple:
            return None
        e = rng.choice(hot) if hot and rng.random() < 0.8 else rng.choice(simple)
        to = rand_value(rng, KIND_OF_NAME.get(e[2], "int"))
        return {"op": "dflt", "id": e[1], "to": to} if to != e[3] else None
    # a new layer below older ones
    kd = rng.choice(CL.KINDS[:4])
    k = len(layers)
    parents = list(dict.fromkeys(rng.randrange(k) for _ in range(rng.choice([0, 1, 1, 2]))))
    L = {"kind": kd, "name": f"{PREFIX[kd]}{k}", "parents": parents, "insts": []}
    if rng.random() < 0.6:
        L["insts"].append(new_inst())
    return {"op": "layer", "layer": L}


def gen_history(rng):
    """a generated document and 1-3 edit steps (1-3 edits each, then refresh()); lookups before the edits in most histories"""
    r = rng.random()
    h = gen_systematic(rng) if r < 0.35 else gen_random(rng, 4) if r < 0.85 else gen_values(rng)
    qm = qualifier_mode(rng)
    hist = {"h0": h, "observe0": rng.random() < 0.85, "steps": []}
    tag = max_tag(h) + 1
    for _ in range(rng.choice([1, 1, 1, 2, 2, 3])):
        ops = []
        for _ in range(rng.choice([1, 1, 2, 3])):
            op = None
            for _ in range(4):
                op = rand_op(rng, h, tag, qm)
                if op is not None:
                    break
            if op is None:
                continue
            tag += 1
            ops.append(op)
            h = CL.edit_desc(h, op)
        if ops:
            hist["steps"].append({"ops": ops, "observe": rng.random() < 0.8})
    return hist


def enum_histories():
    """small scope, exhaustive: one parameter (the baud rate), protocol PR0.
    (a) chain PR0 <- BV1 <- EV2, every placement none/generic/specific per layer x every single edit of one layer
        (add generic, add specific, delete, value in place, protocol qualifier in place, another object in the same slot);
    (b) PR0, FG1 <- PR0, BV2: every placement in PR0 and FG1 x BV2 with/without an own definition x every change of BV2's
        parent refs among [], [PR0], [FG1], [PR0, FG1], [FG1, PR0]."""
    out = []
    pl = {"-": None, "g": None, "s": "PR0"}

    def layer(kind, i, parents, place, tag):
        insts = [] if place == "-" else [S(BR, pl[place], str(100 + tag), tag)]
        return {"kind": kind, "name": f"{PREFIX[kind]}{i}", "parents": parents, "insts": insts}

    for places in itertools.product("-gs", repeat=3):
        h0 = {"custom": [], "layers": [layer("PROTOCOL", 0, [], places[0], 0), layer("BASE-VARIANT", 1, [0], places[1], 1),
                                      layer("ECU-VARIANT", 2, [1], places[2], 2)]}
        for i, p in enumerate(places):
            ops = []
            for q in "gs":
                if q != p:
                    for pos in ([0] if p == "-" else [0, 1]):
                        ops.append({"op": "add", "layer": i, "pos": pos, "inst": S(BR, pl[q], "777", 9), "style": "inplace"})
            if p != "-":
                ops.append({"op": "del", "layer": i, "pos": 0, "style": "inplace"})
                ops.append({"op": "set", "layer": i, "pos": 0, "field": "value", "to": "888"})
                ops.append({"op": "set", "layer": i, "pos": 0, "field": "proto", "to": "PR0" if p == "g" else None})
                ops.append({"op": "replace", "layer": i, "pos": 0, "inst": S(BR, pl[p], "999", 9)})
            for op in ops:
                out.append(("chain", {"h0": h0, "observe0": True, "steps": [{"ops": [op], "observe": True}]}))
    plists = [[], [0], [1], [0, 1], [1, 0]]
    for p0, p1, p2 in itertools.product("-gs", "-gs", "-g"):
        if p0 == "-" and p1 == "-":
            continue
        for a in plists:
            for b in plists:
                if a == b:
                    continue
                h0 = {"custom": [], "layers": [layer("PROTOCOL", 0, [], p0, 0), layer("FUNCTIONAL-GROUP", 1, [0], p1, 1),
                                              layer("BASE-VARIANT", 2, a, p2, 2)]}
                out.append(("parents", {"h0": h0, "observe0": True,
                                        "steps": [{"ops": [{"op": "parents", "layer": 2, "to": b, "style": "inplace"}], "observe": True}]}))
    return out


OBSERVABLES = [("refs", "most-specific"), ("gc", "protocol-first"), ("acc", "accessors"), ("vals", "defaults")]


def eval_history(ctx, fam, hist, pending):
    """load h0, then edit the live objects and refresh() step by step. Every observed state gets the full set of oracles of a
    freshly loaded document (with the document as it is now); in addition (model-free) a state reached by edits must answer
    every lookup exactly like a database freshly loaded from the same document."""
    states = CL.history_states(hist)
    docs = set().union(*[CL.docs_of(h) for h in states])
    try:
        db = CL.load(states[0], docs)
    except Exception as e:
        ctx.count("load-error:" + type(e).__name__)
        ctx.disagree("load", {"hist": hist}, "loads", "foreign:" + type(e).__name__)
        return
    ctx.histo("history: steps", len(hist["steps"]))
    if hist["observe0"]:
        eval_doc(ctx, fam, states[0], pending, db=db, extra={"hist": {**hist, "steps": []}})
    for j, st in enumerate(hist["steps"], 1):
        h = states[j - 1]
        try:
            for op in st["ops"]:
                ctx.histo("history: edit", op["op"] + (":" + op["field"] if op["op"] == "set" else ""))
                CL.edit_live(h, db, op)
                h = CL.edit_desc(h, op)
            db.refresh()
        except Exception as e:
            ctx.count("history: refresh-error:" + type(e).__name__)
            ctx.disagree("history-refresh", {"hist": hist, "step": j}, "refresh() succeeds", "foreign:" + type(e).__name__)
            return
        if not (st["observe"] or j == len(hist["steps"])):
            continue
        sub = {**hist, "steps": hist["steps"][:j]}
        obs = eval_doc(ctx, fam, states[j], pending, db=db, extra={"hist": sub})
        ctx.count("history: states observed after an edit")
        if hist["observe0"] or any(s["observe"] for s in hist["steps"][:j - 1]):
            ctx.count("history: ... with lookups made before the edit")
        if obs is None or j < len(hist["steps"]):      # the comparison with a fresh load: in the last state only (cost)
            continue
        try:
            fresh, _, _, _ = CL.observe(states[j], CL.load(states[j], docs))
        except Exception as e:
            ctx.disagree("load", {"h": states[j]}, "loads", "foreign:" + type(e).__name__)
            continue
        for i, o in obs.items():
            f = fresh.get(i)
            for key, clause in OBSERVABLES:
                if f is not None and o[key] != f[key]:
                    ctx.violate(clause, ["after-edit-and-refresh", key], "value", {"h": states[j], "layer": i, "hist": sub},
                                f"layer {states[j]['layers'][i]['name']}: after the edits and refresh() {key} differs from a database freshly "
                                f"loaded from the same document: {brief_diff(o[key], f[key])}")


def brief_diff(a, b):
    if isinstance(a, list) and isinstance(b, list) and len(a) == len(b):
        k = next(j for j in range(len(a)) if a[j] != b[j])
        return f"item {k}: {str(a[k])[:200]} vs fresh {str(b[k])[:200]}"
    return f"{str(a)[:200]} vs fresh {str(b)[:200]}"


# ----------------------------------------------------------------------------- evaluation of one document

def spec_entry(cat, id_):
    return cat[id_]


def omitted_sub(value, idx):
    return idx >= len(value) or value[idx] == ""


def eval_doc(ctx, fam, h, pending, db=None, extra=None):
    """run the implementation; model-free oracles now, the model/spec comparison after the driver has answered.
    `db`: a database that already holds `h` (a state of an edit history; `extra` = the history, added to every witness)"""
    extra = extra or {}
    try:
        if db is None:
            db = CL.load(h)
        obs, problems, names, protos = CL.observe(h, db)
    except Exception as e:  # a valid document must load
        ctx.count("load-error:" + type(e).__name__)
        ctx.disagree("load", {"h": h, **extra}, "loads", "foreign:" + type(e).__name__)
        return None
    for pr in problems:
        ctx.disagree("raw:" + pr[0], {"h": h, **extra}, "as written", pr)
    cat = CL.catalog(h)
    inst_by_tag = {c["tag"]: (c, li) for li, L in enumerate(h["layers"]) for c in L["insts"]}
    memo = {}
    for i, o in obs.items():
        L = h["layers"][i]
        refs = o["refs"]
        if isinstance(refs, str):
            ctx.violate("most-specific", ["comparam_refs-raises"], refs, {"h": h, "layer": i, **extra}, "comparam_refs raises")
            continue
        o["wit"] = extra
        ctx.case((json.dumps(h, sort_keys=True), i, json.dumps(extra, sort_keys=True) if extra else ""), nontrivial=len(refs) > 0)
        ctx.histo("family", fam)
        ctx.histo("layers_per_doc", len(h["layers"]))
        ctx.histo("visible_params", min(len(refs), 8))
        ctx.histo("kind", L["kind"])
        model_free(ctx, h, i, o, cat, inst_by_tag, names, protos)
        choices = [ch for _, ch in o["acc"]]
        pending.append((fam, h, i, o, names, protos, CL.request_line(h, i, names, protos, choices, memo)))
    return obs


def model_free(ctx, h, i, o, cat, inst_by_tag, names, protos):
    """the property statement evaluated on the implementation's own observables"""
    L = h["layers"][i]
    refs = o["refs"]
    wit = {"h": h, "layer": i, **o.get("wit", {})}
    # one definition per (id, protocol)
    keys = [(r[1], r[2]) for r in refs]
    if len(set(keys)) != len(keys):
        ctx.violate("most-specific", ["duplicate-key"], "value", wit, "comparam_refs holds two definitions for one (id, protocol)")
    # local definitions override: the last local COMPARAM-REF of a key is the visible one
    last_local = {}
    for c in L["insts"]:
        last_local[(c["id"], c["proto"])] = c["tag"]
    by_key = {(r[1], r[2]): r[0] for r in refs}
    # measured: how often the optional qualifiers occur where they could matter (same key, other PROT-STACK-SNREF further up)
    anc, todo = set(), list(L["parents"])
    while todo:
        a = todo.pop()
        if a not in anc and h["layers"][a]["kind"] != "ECU-SHARED-DATA":
            anc.add(a)
            todo.extend(h["layers"][a]["parents"])
    inherited = {}
    for a in anc:
        for c in h["layers"][a]["insts"]:
            inherited.setdefault((c["id"], c["proto"]), set()).add(c.get("stack"))
    local_stack = {(c["id"], c["proto"]): c.get("stack") for c in L["insts"]}
    for k, st in local_stack.items():
        if k in inherited:
            ctx.count("override: local and inherited definition of one key")
            if inherited[k] - {st}:
                ctx.count("override: ... differing in PROT-STACK-SNREF")
    for k, sts in inherited.items():
        if k not in local_stack and len(sts) > 1:
            ctx.count("inherited only: one key offered with differing PROT-STACK-SNREF")
    ctx.count("visible instances with PROT-STACK-SNREF", sum(1 for r in refs if r[0] in inst_by_tag and inst_by_tag[r[0]][0].get("stack") is not None))
    for k, t in last_local.items():
        if by_key.get(k) != t:
            ctx.violate("local-overrides-parent", ["local-not-effective"], "value", wit, f"the local definition of {k} is not the visible one")
    # protocol first (from the implementation's own comparam_refs)
    q = 0
    for n in names:
        named = [r for r in refs if r[4] == n]
        for p in protos:
            r = o["gc"][q]
            q += 1
            ctx.count("get_comparam calls")
            if isinstance(r, str):
                ctx.violate("protocol-first", ["get_comparam-raises"], r, {**wit, "name": n, "protocol": p}, "get_comparam raises")
                continue
            if p is None:
                ok = (r is None and not named) or any(r == x[0] for x in named)
                feat = ["no-protocol"]
            else:
                spec = [x[0] for x in named if x[2] == p]
                gen = [x[0] for x in named if x[2] is None]
                ok = (r in spec) if spec else (r in gen) if gen else r is None
                rp = None if r is None else next((x[2] for x in refs if x[0] == r), "?")
                feat = ["generic-shadows-specific"] if spec and r in gen else ["missing"] if r is None else \
                    ["other-protocol"] if rp not in (None, p) else ["spurious"]
                if spec:
                    ctx.count("get_comparam: specific available")
                    if gen:
                        ctx.count("get_comparam: specific and generic available")
                elif gen:
                    ctx.count("get_comparam: generic fallback")
            if not ok:
                o.setdefault("flagged", set()).add(q - 1)
                ctx.violate("protocol-first", feat, "value", {**wit, "name": n, "protocol": p},
                            f"get_comparam({n!r}, protocol={p!r}) returned instance {r}; visible {[(x[0], x[2]) for x in named]}")
    # defaults (catalogue read from the subset XML by the harness)
    for t, (v, subs) in o["vals"].items():
        if t not in inst_by_tag:
            continue
        c = inst_by_tag[t][0]
        sp = cat[c["id"]]
        if sp[0] == "S" and isinstance(c["value"], str):
            want = c["value"] if c["value"] != "" else sp[3]
            ctx.count("get_value: " + ("omitted" if c["value"] == "" else "explicit"))
            if v != ("ok", want):
                ctx.violate("defaults", ["simple-omitted" if c["value"] == "" else "simple-explicit"], v[0] if v[0] == "ok" else "e:" + v[1],
                            {**wit, "tag": t}, f"get_value() of {c['id']} value {c['value']!r} default {sp[3]!r} gives {v}")
        if sp[0] == "C" and isinstance(c["value"], list):
            seen = set()
            for idx, s in enumerate(sp[3]):
                if s[2] in seen:
                    continue
                seen.add(s[2])
                got = dict(subs).get(s[2])
                if s[0] != "S" or (idx < len(c["value"]) and not isinstance(c["value"][idx], str)):
                    continue
                om = omitted_sub(c["value"], idx)
                want = s[3] if om else c["value"][idx]
                kind = "subvalue-missing" if idx >= len(c["value"]) else "subvalue-empty" if om else "subvalue-explicit"
                ctx.count("get_subvalue: " + kind)
                if got != ("ok", want):
                    ctx.violate("defaults", [kind], "None" if got is None else got[0] if got[0] == "ok" else "e:" + got[1],
                                {**wit, "tag": t, "sub": s[2]}, f"get_subvalue({s[2]!r}) of {c['id']} value {c['value']!r} default {s[3]!r} gives {got}")


def judge(ctx, item, rep):
    fam, h, i, o, names, protos, line = item
    m = CL.parse_reply(rep)
    if m is None:
        ctx.disagree("driver", line[:300], rep, "request not understood")
        return
    ctx.traces += 1
    wit = {"h": h, "layer": i, **o.get("wit", {})}
    tags = [r[0] for r in o["refs"]]
    # ---- correspondence
    if tags != m["refs"]:
        ctx.disagree("comparam_refs", wit, m["refs"], [(r[0], r[1], r[2], r[3]) for r in o["refs"]])
    if o["gc"] != m["gc"]:
        q = next(j for j in range(len(m["gc"])) if o["gc"][j] != m["gc"][j])
        ctx.disagree("get_comparam", {**wit, "name": names[q // len(protos)], "protocol": protos[q % len(protos)]}, m["gc"][q], o["gc"][q])
    for pi, p in enumerate(protos):
        row = o["acc"][pi][0]
        for ai, a in enumerate(CL.ACCESSORS):
            ctx.count("accessor calls")
            if row[ai] is not None:
                ctx.histo("accessor result", f"{a}:{row[ai][0] if row[ai][0] != 'e' else 'e:' + row[ai][1]}")
            if row[ai] != m["acc"][pi][ai]:
                ctx.disagree("accessor:" + a, {**wit, "protocol": p}, m["acc"][pi][ai], row[ai])
    # ---- direct oracle: the specification
    if sorted(set(tags)) != m["eff"]:
        ctx.violate("most-specific", ["set-differs"], "value", wit,
                    f"comparam_refs = instances {sorted(tags)}, the specification's effective definitions = {m['eff']}")
    for q, r in enumerate(o["gc"]):
        cand = m["cand"][q]
        if isinstance(r, str) or q in o.get("flagged", ()):
            continue
        if (r is None and cand) or (r is not None and r not in cand):
            n, p = names[q // len(protos)], protos[q % len(protos)]
            ctx.violate("protocol-first", ["spec-candidates"], "value", {**wit, "name": n, "protocol": p},
                        f"get_comparam({n!r}, protocol={p!r}) returned instance {r}; acceptable by the specification: {cand}")
    inst_by_tag = {c["tag"]: c for L in h["layers"] for c in L["insts"]}
    for pi, p in enumerate(protos):
        row, ch = o["acc"][pi]
        for ai, a in enumerate(CL.ACCESSORS):
            want = m["sacc"][pi][ai]
            if want == "?":
                ctx.count("accessor: not specified (ill-typed or non-numeric)")
                continue
            if want is not None:
                ctx.count("accessor: specified non-None")
            if row[ai] != want:
                om = any(t is not None and t in inst_by_tag and (inst_by_tag[t]["value"] == "" or (isinstance(inst_by_tag[t]["value"], list) and (
                    "" in inst_by_tag[t]["value"] or len(inst_by_tag[t]["value"]) < 10))) for t in ch)
                ctx.violate("accessors", [a, "omitted-value" if om else "explicit-value"],
                            "None" if row[ai] is None else "e:" + row[ai][1] if row[ai][0] == "e" else "value",
                            {**wit, "protocol": p, "accessor": a},
                            f"{a}(protocol={p!r}) = {row[ai]}, the specification demands {want}")


def flush(ctx, pending):
    if not pending:
        return
    reps = ctx.driver("drv_comparam").query([it[-1] for it in pending])
    for it, rep in zip(pending, reps):
        judge(ctx, it, rep)
    for it in pending[:2]:
        ctx.sample({"request": it[-1][:400], "reply": reps[pending.index(it)][:300]})
    pending.clear()


def crosscheck_table(ctx):
    try:
        from odxtools.diaglayers.diaglayertype import DiagLayerType
        live = [(m.name, m.value, m.inheritance_priority) for m in DiagLayerType]
        ex = [tuple(x) for x in layerprio.extract_priorities(common.REPO)]
        ok = ex == live
        ctx.obligation("layer-priority table = live enum", ok, "" if ok else f"{ex} vs {live}")
    except Exception as e:
        ctx.obligation("layer-priority table = live enum", False, repr(e))


def run(ctx):
    crosscheck_table(ctx)
    pending = []
    t0 = time.time()
    for name, h in corpus():
        eval_doc(ctx, "corpus:" + name, h, pending)
    flush(ctx, pending)
    quick = ctx.tier == "quick"
    enum = enum_histories()
    if quick:       # quick tier: a third of the enumeration (which third depends on the seed), all of it in the thorough tier
        enum = [e for k, e in enumerate(enum) if k % 3 == int(ctx.seed) % 3]
    for sub, hist in enum:
        eval_history(ctx, "enum-history:" + sub, hist, pending)
        if len(pending) >= 400:
            flush(ctx, pending)
    flush(ctx, pending)
    ctx.notes.append(f"enum-history: {len(enum)} histories, {round(time.time() - t0, 1)} s elapsed")
    rng = ctx.sub_rng("history")
    nh = 400 if quick else 4000
    for j in range(nh):
        eval_history(ctx, "history", gen_history(rng), pending)
        if len(pending) >= 400:
            flush(ctx, pending)
    flush(ctx, pending)
    ctx.notes.append(f"history: {nh} histories, {round(time.time() - t0, 1)} s elapsed")
    budget = {"systematic": 1500 if quick else 14000, "random": 2500 if quick else 30000, "values": 1200 if quick else 12000}
    for fam, n in budget.items():
        rng = ctx.sub_rng(fam)
        for j in range(n):
            if fam == "systematic":
                h = gen_systematic(rng)
            elif fam == "random":
                h = gen_random(rng, 4 if quick or j % 4 else 6)
            else:
                h = gen_values(rng)
            eval_doc(ctx, fam, h, pending)
            if len(pending) >= 400:
                flush(ctx, pending)
        flush(ctx, pending)
        ctx.notes.append(f"{fam}: {n} documents, {round(time.time() - t0, 1)} s elapsed")


def replay(ctx, data):
    w = data["witness"]
    clause = data["signature"]["clause"]
    sub = common.Ctx(ctx.pid, ctx.tier, ctx.seed)
    pending = []
    if "hist" in w:
        eval_history(sub, "replay", w["hist"], pending)
    else:
        eval_doc(sub, "replay", w["h"], pending)
    flush(sub, pending)
    return not any(v["signature"]["clause"] == clause for v in sub.violations) and not sub.disagreements
