"""C13 — malformed or lossy CAN traffic never crashes or fabricates telegrams."""
import common
import isotp_lib as L
from extract import py2lean

ID = "C13"
LEAN_TARGETS = ["OdxVerif.Props.C13", "OdxVerif.Props.C13Gen"]
DRIVERS = ["drv_isotp"]
P = "OdxVerif.IsoTp."
THEOREMS = [P + t for t in ["C13_provenance", "C13_provenance_multi", "C13_recovery", "C13_stray_consecutive",
                            "C13_transfer_leaves_clean",
                            # tie of kind (1): Gen/IsoTpStep.lean is regenerated from the source on every run (regen_isotp_step)
                            "gen_stepE_eq", "gen_step_eq", "gen_feedE_eq",
                            "C13_never_raises_gen", "C13_never_raises_slot_gen", "C13_provenance_gen", "C13_recovery_gen"]]
RULE = ("well-formed streams (<= 12 frames) with every single fault (drop, duplicate, swap, truncate to 0-2 bytes, PCI nibble "
        "corrupted to each of 16 values, injected stray CF/FC/empty frame) at every position, sampled double faults, random "
        "frame soups; each followed by a well-formed transfer (recovery; every 6th one with >= 16 or >= 32 consecutive frames or CAN-FD frames, so that the sequence number wraps); distinct = distinct frame list; non-trivial = contains a fault or >= 2 frames")
TRUSTED = ["model lean/OdxVerif/Model/IsoTp.lean is hand-written; tied to odxtools/isotp_state_machine.py (a) by the theorem gen_stepE_eq against the Lean "
           "function regenerated on every run from decode_rx_frame/__init__ by harness/extract/py2lean.py, (b) by event-trace comparison",
           "translator harness/extract/py2lean.py and the primitives lean/OdxVerif/Model/PyRt.lean (see C12)",
           "the provenance reference in harness/isotp_lib.py (reference_explain) is an independent 30-line reassembler"]
ASSUMPTIONS = ["'never raises': theorem C13_never_raises_gen about the source as rendered by the translator (IndexError, TypeError on None, bitstruct.Error are "
               "error outcomes of the rendering); exceptions outside the rendered subset semantics (e.g. from user callbacks) are covered by the correspondence runs only"]


def regen_isotp_step(ctx):
    """Gen/IsoTpStep.lean from the current source; Unsupported (source left the subset) = broken obligation"""
    py2lean.regenerate_isotp(common.REPO, common.VERIF)


GENERATORS = [regen_isotp_step]


def faults(frames, cid):
    """all single faults of a frame list (list of (id, bytes))"""
    n = len(frames)
    for k in range(n):
        yield ("drop", k), frames[:k] + frames[k + 1:]
        yield ("dup", k), frames[:k + 1] + frames[k:]
        if k + 1 < n:
            yield ("swap", k), frames[:k] + [frames[k + 1], frames[k]] + frames[k + 2:]
        for t in (0, 1, 2):
            yield ("trunc%d" % t, k), frames[:k] + [(frames[k][0], frames[k][1][:t])] + frames[k + 1:]
        d = frames[k][1]
        if d:
            for nib in range(16):
                if nib != d[0] >> 4:
                    yield ("pci%x" % nib, k), frames[:k] + [(frames[k][0], bytes([(nib << 4) | (d[0] & 15)]) + d[1:])] + frames[k + 1:]
    for k in range(n + 1):
        yield ("stray-cf", k), frames[:k] + [(cid, bytes([0x21 + (k % 15), 0xDE, 0xAD, 0xBE, 0xEF]))] + frames[k:]
        yield ("stray-fc", k), frames[:k] + [(cid, b"\x30\x00\x00")] + frames[k:]
        yield ("empty", k), frames[:k] + [(cid, b"")] + frames[k:]


def oracle(ctx, ids, frames, fam, tag, pending, recovery=None):
    """direct oracle on the implementation"""
    line, teles, exc, per_frame = L.run_impl(ids, frames)
    ctx.case((tuple(ids), tuple(frames)), nontrivial=len(frames) >= 2)
    ctx.histo("fault", tag)
    w = {"ids": list(ids), "frames": [[c, f.hex()] for c, f in frames]}
    if exc:
        ctx.violate("never-raises", [tag], exc, w, f"decode_rx_frame raised {exc} on a {tag} stream")
    else:
        for cid in ids:
            own = [f for (c, f) in frames if c == cid]
            allowed = L.reference_explain(own)
            idx = -1
            for k, (c, f) in enumerate(frames):
                if c != cid:
                    continue
                idx += 1
                got = [p for (r, p) in per_frame[k]]
                if any(p not in allowed[idx] for p in got) or len(got) > 1:
                    ctx.violate("provenance", [tag, "fabricated-or-repeated"], "telegram",
                                {**w, "frame_index": k, "reported": [p.hex() for p in got], "allowed": [p.hex() for p in allowed[idx]]},
                                f"telegram reported at frame {k} is neither that single frame's payload nor the pending first frame's transfer ({tag})")
                    break
        if recovery is not None:
            cid, p, fs = recovery
            # state after the faulty prefix must not disturb the next transfer on that ID
            _, teles2, exc2, _ = L.run_impl(ids, frames + [(cid, f) for f in fs])
            new = [q for (r, q) in teles2[len(teles):] if r == cid]
            if exc2 or new != [p]:
                ctx.violate("recovery", [tag], exc2 or "mismatch", {**w, "then": [f.hex() for f in fs], "expected": p.hex(), "got": [q.hex() for q in new]},
                            f"well-formed transfer after a {tag} stream not reassembled")
    pending.append((fam, ids, frames, line))


def run(ctx):
    from props.c12 import flush_model, gen_stream
    big = ctx.tier == "thorough"
    rng = ctx.rng
    pending = []
    cid = 0x7E0
    # corpus: the defects of the pinned commit
    for frames in ([(cid, bytes.fromhex("21778899aa"))], [(cid, b"")], [(cid, b"\x10")],
                   [(cid, bytes.fromhex("100a112233445566")), (cid, bytes.fromhex("21778899aaAAAAAA")), (cid, bytes.fromhex("22deadbeef"))]):
        oracle(ctx, [cid], frames, "corpus", "corpus", pending, (cid, b"\x01\x02\x03", L.segment(b"\x01\x02\x03", 8, b"")))
    # 1. single faults, every position (exhaustive over the fault catalogue for the chosen base streams)
    bases = []
    for (n, dl) in ([(3, 8), (10, 8), (20, 8), (30, 8), (13, 12), (6 + 7 * 3, 8)] + ([(6 + 7 * 10, 8), (62 + 63 * 2, 64), (130, 8)] if big else [])):
        p = bytes(rng.getrandbits(8) for _ in range(n))
        bases.append([(cid, f) for f in L.segment(p, dl, b"\xAA" * rng.randint(0, 3))])
    # two transfers back to back
    bases.append([(cid, f) for f in L.segment(bytes(range(12)), 8, b"") + L.segment(bytes(range(50, 59)), 8, b"\x00")])
    rec_p = bytes(range(100, 117))
    rec = (cid, rec_p, L.segment(rec_p, 8, b"\xAA"))
    # recovery transfers of other lengths: the sequence number of consecutive frames wraps after 15 frames, so "the next
    # well-formed transfer is reassembled" must also be exercised with transfers of >= 16 and >= 32 consecutive frames
    # (classic CAN: > 111 / > 223 bytes) and with CAN-FD frames
    long_recs = []
    for (n, dl) in [(6 + 7 * 15, 8), (6 + 7 * 16 + 3, 8), (6 + 7 * 33, 8), (62 + 63 * 17, 64), (9, 8)]:
        q = bytes((x * 13 + n) % 256 for x in range(n))
        long_recs.append((cid, q, L.segment(q, dl, b"")))
    calls = [0]

    def pick_rec(cid_):
        """mostly the short transfer; every 6th call one of the long ones (keeps the run time)"""
        calls[0] += 1
        if calls[0] % 6 == 0:
            c0, q, fs = long_recs[(calls[0] // 6) % len(long_recs)]
            return (cid_, q, fs)
        return (cid_, rec_p, rec[2])
    for base in bases:
        singles = list(faults(base, cid))
        for (tag, k), fr in singles:
            oracle(ctx, [cid], fr, "single-fault", tag.rstrip("0123456789abcdef") if tag.startswith("pci") else tag, pending, pick_rec(cid))
        ctx.count("single_fault_streams", len(singles))
        # 2. double faults: exhaustive for short bases in thorough, sampled otherwise
        if len(base) <= (6 if big else 3):
            doubles = [(t1, t2, fr2) for (t1, fr1) in singles for (t2, fr2) in faults(fr1, cid)]
            if not big:
                doubles = rng.sample(doubles, min(len(doubles), 1500))
            for (t1, t2, fr2) in doubles:
                oracle(ctx, [cid], fr2, "double-fault", "double", pending, pick_rec(cid))
            ctx.count("double_fault_streams", len(doubles))
    # 3. random frame soups over 1-3 ids
    for n in range(20000 if big else 1500):
        ids = rng.sample(range(0x700, 0x7F0), rng.randint(1, 3))
        frames = []
        for _ in range(rng.randint(1, 14)):
            c = rng.choice(ids + [0x123])
            r = rng.random()
            if r < 0.55:
                b0 = (rng.choice([0, 1, 2, 2, 2, 3, rng.randint(4, 15)]) << 4) | rng.randint(0, 15)
                f = bytes([b0]) + bytes(rng.getrandbits(8) for _ in range(rng.choice([0, 1, 2, 6, 7, 7, 11, 63])))
            elif r < 0.65:
                f = bytes(rng.getrandbits(8) for _ in range(rng.randint(0, 3)))
            else:
                p = bytes(rng.getrandbits(8) for _ in range(rng.choice([1, 7, 8, 9, 13, 14, 20])))
                fs = L.segment(p, 8, b"")
                frames += [(c, x) for x in fs[:rng.randint(1, len(fs))]]
                continue
            frames.append((c, f))
        oracle(ctx, ids, frames, "soup", "soup", pending, pick_rec(ids[0]))
    flush_model(ctx, pending)


def replay(ctx, data):
    w = data["witness"]
    frames = [(c, bytes.fromhex(h)) for c, h in w["frames"]]
    sub = type(ctx)(ctx.pid, ctx.tier, ctx.seed)
    oracle(sub, w["ids"], frames, "replay", "replay", [], None)
    return not sub.violations
