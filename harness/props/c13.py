"""C13 — malformed or lossy CAN traffic never crashes or fabricates telegrams."""
import common
import isotp_lib as L
from extract import py2lean

ID = "C13"
LEAN_TARGETS = ["OdxVerif.Props.C13", "OdxVerif.Props.C13Gen"]
DRIVERS = ["drv_isotp"]
P = "OdxVerif.IsoTp."
THEOREMS = [P + t for t in ["C13_provenance", "C13_provenance_multi", "C13_recovery", "C13_stray_consecutive",
                            "C13_transfer_leaves_clean",
                            # tie of kind (1): Gen/IsoTpStep.lean is regenerated from the source on every run (regen_isotp_step)
                            "gen_stepE_eq", "gen_step_eq", "gen_feedE_eq",
                            "C13_never_raises_gen", "C13_never_raises_slot_gen", "C13_provenance_gen", "C13_recovery_gen"]]
RULE = ("well-formed streams (<= 12 frames; one ID, and the request/flow-control/response conversation on the two IDs snoop listens to) with every single "
        "fault (drop, duplicate, swap, truncate to every length, frame-type nibble and low nibble of the PCI byte corrupted to each of 16 values, second PCI byte "
        "to boundary values, injected stray CF (6 sequence numbers)/FC/SF/FF/empty frame on every ID) at every position; announced length of every first frame "
        "set to each boundary value (0, 1, dl-3..dl, n-1, n+1, one frame more, 255, 256, 4095) x every single fault; double faults exhaustive for the shortest "
        "segmented stream, sampled otherwise; random frame soups biased to boundary lengths/sequence numbers; each followed by a well-formed transfer (recovery; "
        "every 6th one with >= 16 or >= 32 consecutive frames or CAN-FD frames, so that the sequence number wraps). Every stream is processed by the recording "
        "subclass of IsoTpStateMachine (also compared with the model) and by the decoders `odxtools snoop` builds (cli/snoop.py:init_verbose_state_machine over "
        "IsoTpStateMachine and over IsoTpActiveDecoder), every 3rd one also by the bare IsoTpStateMachine / IsoTpActiveDecoder; every 8th one also as a candump "
        "text log (3 formats) and every 8th one as python-can messages through read_telegrams; distinct = distinct frame list; non-trivial = contains a fault or >= 2 frames")
TRUSTED = ["model lean/OdxVerif/Model/IsoTp.lean is hand-written; tied to odxtools/isotp_state_machine.py (a) by the theorem gen_stepE_eq against the Lean "
           "function regenerated on every run from decode_rx_frame/__init__ by harness/extract/py2lean.py, (b) by event-trace comparison",
           "translator harness/extract/py2lean.py and the primitives lean/OdxVerif/Model/PyRt.lean (see C12)",
           "the provenance reference in harness/isotp_lib.py (reference_explain) is an independent 30-line reassembler",
           "the fake python-can bus and the stub bus in harness/isotp_lib.py (always readable; deliver a fixed frame list; record what is sent)"]
ASSUMPTIONS = ["'never raises': theorem C13_never_raises_gen about the source as rendered by the translator (IndexError, TypeError on None, bitstruct.Error are "
               "error outcomes of the rendering); exceptions outside the rendered subset semantics (the callbacks of IsoTpActiveDecoder and of the verbose "
               "decoders of cli/snoop.py, read_telegrams) are covered by the direct oracle on those decoders only (not by a theorem)"]


def regen_isotp_step(ctx):
    """Gen/IsoTpStep.lean from the current source; Unsupported (source left the subset) = broken obligation"""
    py2lean.regenerate_isotp(common.REPO, common.VERIF)


GENERATORS = [regen_isotp_step]


def _b1_values(cur):
    """boundary values for the second PCI byte (FF_DL low byte / CAN-FD SF_DL / FC block size)"""
    return sorted({0x00, 0x01, 0x06, 0x07, 0x08, 0x7F, 0xFF, (cur - 1) % 256, (cur + 1) % 256} - {cur})


def faults(frames, ids):
    """all single faults of a frame list (list of (id, bytes)); `ids` = the IDs stray frames are injected on"""
    if isinstance(ids, int):
        ids = [ids]
    n = len(frames)
    for k in range(n):
        yield ("drop", k), frames[:k] + frames[k + 1:]
        yield ("dup", k), frames[:k + 1] + frames[k:]
        if k + 1 < n:
            yield ("swap", k), frames[:k] + [frames[k + 1], frames[k]] + frames[k + 2:]
        c, d = frames[k]
        # truncation: every length for classic frames, boundary lengths for CAN-FD frames
        for t in (range(len(d)) if len(d) <= 8 else sorted({0, 1, 2, 3, 7, 8, len(d) // 2, len(d) - 1})):
            yield ("trunc%d" % min(t, 3), k), frames[:k] + [(c, d[:t])] + frames[k + 1:]
        if d:
            # PCI byte: frame type nibble to each other value; low nibble (SF_DL / FF_DL high bits / sequence number / FC flag) to each other value
            for nib in range(16):
                if nib != d[0] >> 4:
                    yield ("pci%x" % nib, k), frames[:k] + [(c, bytes([(nib << 4) | (d[0] & 15)]) + d[1:])] + frames[k + 1:]
            for nib in range(16):
                if nib != d[0] & 15:
                    yield ("lo", k), frames[:k] + [(c, bytes([(d[0] & 0xF0) | nib]) + d[1:])] + frames[k + 1:]
        if len(d) >= 2:
            # second PCI byte (low byte of the announced length of a first frame, CAN-FD single frame length, FC block size)
            for v in _b1_values(d[1]):
                yield ("b1", k), frames[:k] + [(c, d[:1] + bytes([v]) + d[2:])] + frames[k + 1:]
    for k in range(n + 1):
        for c in ids:
            for sn in sorted({0, 1, 2, 3, 15, 1 + (k % 15)}):
                yield ("stray-cf", k), frames[:k] + [(c, bytes([0x20 + sn, 0xDE, 0xAD, 0xBE, 0xEF]))] + frames[k:]
            yield ("stray-fc", k), frames[:k] + [(c, b"\x30\x00\x00")] + frames[k:]
            yield ("stray-fc", k), frames[:k] + [(c, b"\x3F\x00\x00")] + frames[k:]
            yield ("stray-sf", k), frames[:k] + [(c, b"\x02\xCA\xFE")] + frames[k:]
            yield ("stray-ff", k), frames[:k] + [(c, bytes.fromhex("100bf0f1f2f3f4f5"))] + frames[k:]
            yield ("empty", k), frames[:k] + [(c, b"")] + frames[k:]


def ffdl_values(n, dl):
    """boundary values of the 12 bit announced length of a first frame that really carries n bytes in frames of dl bytes:
    zero (ISO 15765-2:2016 escape / corrupted), lengths a first frame already contains (<= dl-2), off-by-one and one
    frame more than the data, the 8 bit carry and the maximum"""
    return sorted({0, 1, dl - 3, dl - 2, dl - 1, dl, n - 1, n + 1, n + dl - 1, 255, 256, 4095} - {n})


def set_ffdl(frames, k, v):
    c, d = frames[k]
    return frames[:k] + [(c, bytes([0x10 | (v >> 8), v & 0xFF]) + d[2:])] + frames[k + 1:]


def _provenance(ctx, ids, frames, per_frame, allowed, n_check, tag, w, dec):
    """clause 2 of the property on the telegram lists reported per frame (first n_check frames)"""
    for cid in ids:
        idx = -1
        for k, (c, f) in enumerate(frames[:n_check]):
            if c != cid:
                continue
            idx += 1
            if k >= len(per_frame):
                break
            got = [p for (r, p) in per_frame[k]]
            if any(p not in allowed[cid][idx] for p in got) or len(got) > 1 or any(r != cid for (r, p) in per_frame[k]):
                ctx.violate("provenance", [tag, "fabricated-or-repeated"] + ([dec] if dec else []), "telegram",
                            {**w, "frame_index": k, "reported": [p.hex() for p in got], "allowed": [p.hex() for p in allowed[cid][idx]]},
                            f"telegram reported at frame {k} is neither that single frame's payload nor the pending first frame's transfer ({tag}"
                            + (f", decoder {dec}" if dec else "") + ")")
                break
    # frames on IDs the decoder does not listen to must not report anything
    for k, (c, f) in enumerate(frames[:min(n_check, len(per_frame))]):
        if c not in ids and per_frame[k]:
            ctx.violate("provenance", [tag, "foreign-id"] + ([dec] if dec else []), "telegram", {**w, "frame_index": k},
                        f"a frame on an ID that is not listened to reported a telegram ({tag})")
            break


def oracle(ctx, ids, frames, fam, tag, pending, recovery=None, variants=(), act=None, serial=0):
    """direct oracle on the implementation: the recording subclass of IsoTpStateMachine (whose event trace also goes to the
    model) and every decoder variant named in `variants` (harness/isotp_lib.py VARIANTS)"""
    frames = list(frames)
    n0 = len(frames)
    rec_frames = [(recovery[0], f) for f in recovery[2]] if recovery is not None else []
    allf = frames + rec_frames
    ctx.case((tuple(ids), tuple(frames)), nontrivial=len(frames) >= 2)
    ctx.histo("fault", tag)
    w = {"ids": list(ids), "frames": [[c, f.hex()] for c, f in frames]}
    if recovery is not None:
        w = {**w, "then": [f.hex() for f in recovery[2]], "then_id": recovery[0], "expected": recovery[1].hex()}
    allowed = {cid: L.reference_explain([f for (c, f) in allf if c == cid]) for cid in ids}

    def judge(per_frame, exc, dec):
        wd = {**w, "decoder": dec} if dec else w
        fe = [dec] if dec else []
        if exc and len(per_frame) <= n0:
            ctx.violate("never-raises", [tag] + fe, exc, wd, f"decode_rx_frame raised {exc} on a {tag} stream" + (f" (decoder {dec})" if dec else ""))
            return
        _provenance(ctx, ids, allf, per_frame, allowed, n0, tag, wd, dec)
        if recovery is not None:
            cid, p, _ = recovery
            new = [q for got in per_frame[n0:] for (r, q) in got if r == cid]
            if exc or new != [p]:
                ctx.violate("recovery", [tag] + fe, exc or "mismatch", {**wd, "got": [q.hex() for q in new]},
                            f"well-formed transfer after a {tag} stream not reassembled" + (f" (decoder {dec})" if dec else ""))

    # the state after the faulty prefix must not disturb the next transfer on that ID: one run over prefix + transfer
    line, teles, exc, per_frame = L.run_impl(ids, allf)
    judge(per_frame, exc, None)
    pending.append((fam, ids, allf, line))
    for v in variants:
        pad = L.variant_pad(v, serial)
        pf, ex, sends = L.run_variant(v, ids, allf, pad)
        ctx.count("decoder_variant_runs")
        judge(pf, ex, "decoder:" + v)
        if act is not None and v in L.ACTIVE_VARIANTS:
            act.append((v, list(ids), pad, allf, sends))


def text_log_oracle(ctx, ids, frames, tag):
    """the same frames as a candump text log through read_telegrams of the decoder `odxtools snoop` builds for stdin:
    never raises and yields exactly the telegrams decode_rx_frame yields for these frames (lines with an empty data field are
    not frames of the text formats; they are left out)"""
    frames = [(c, f) for (c, f) in frames if len(f) > 0]
    pf, ex, _ = L.run_variant("plain", ids, frames)
    want = [t for got in pf for t in got]
    for fmt in ("normal", "log", "fdlog"):
        teles, exc = L.run_text_log_variant("snoop-passive", ids, frames, fmt)
        ctx.count("text_log_runs")
        if exc or (ex is None and teles != want):
            ctx.violate("never-raises" if exc else "provenance", [tag, "text-log", fmt], exc or "telegrams-differ",
                        {"ids": list(ids), "frames": [[c, f.hex()] for c, f in frames], "format": fmt, "decoder": "text:snoop-passive",
                         "got": [[r, p.hex()] for r, p in teles], "expected": [[r, p.hex()] for r, p in want]},
                        f"read_telegrams on a {fmt} text log of a {tag} stream " + (f"raised {exc}" if exc else "reports other telegrams than decode_rx_frame"))


def bus_oracle(ctx, ids, frames, tag, name):
    """the same frames as python-can messages through read_telegrams(bus) of the decoder `odxtools snoop` builds for a live
    channel: never raises and yields exactly the telegrams decode_rx_frame yields for these frames"""
    pf, ex, _ = L.run_variant("plain", ids, frames)
    want = [t for got in pf for t in got]
    teles, exc, sent = L.run_bus_variant(name, ids, frames)
    ctx.count("bus_runs")
    if exc or (ex is None and teles != want):
        ctx.violate("never-raises" if exc else "provenance", [tag, "bus", "decoder:" + name], exc or "telegrams-differ",
                    {"ids": list(ids), "frames": [[c, f.hex()] for c, f in frames], "decoder": "bus:" + name,
                     "got": [[r, p.hex()] for r, p in teles], "expected": [[r, p.hex()] for r, p in want]},
                    f"read_telegrams on a bus delivering a {tag} stream (decoder {name}) " + (f"raised {exc}" if exc else "reports other telegrams than decode_rx_frame"))


def flush_active(ctx, act):
    """correspondence of the active decoders on faulty streams: the flow-control frames sent = those of the model"""
    drv = ctx.driver("drv_isotp")
    if not act or not drv.available():
        return
    reps = drv.query([L.active_model_line(ids, L.tx_ids_for(ids), pad[0], pad[1], fr) for (v, ids, pad, fr, sends) in act])
    from props.c12 import _split_top
    for (v, ids, pad, fr, sends), rep in zip(act, reps):
        ctx.traces += 1
        msends = " ".join(x for x in _split_top(rep) if x.startswith("(send"))
        if " ".join(sends) != msends:
            ctx.disagree("active-faulty:" + v, {"rx": ids, "tx": L.tx_ids_for(ids), "pad": list(pad), "frames": [[c, f.hex()] for c, f in fr]},
                         msends[:1000], " ".join(sends)[:1000])


def run(ctx):
    from props.c12 import flush_model
    big = ctx.tier == "thorough"
    rng = ctx.rng
    pending, act = [], []
    cid = 0x7E0
    V = L.VARIANTS
    V_SNOOP = ["snoop-passive", "snoop-active"]
    serial = [0]
    seen = set()

    def go(ids, frames, fam, tag, rec, variants=V, dedup=False):
        if dedup:
            key = (tuple(ids), tuple(frames))
            if key in seen:
                return False
            seen.add(key)
        serial[0] += 1
        if variants is V:
            # the decoders snoop builds on every stream; their bare base classes (which differ from the recording subclass / the verbose
            # active decoder only by callbacks, ID arguments and padding) on every 3rd stream each
            variants = V_SNOOP + (["plain"] if serial[0] % 3 == 0 else ["active"] if serial[0] % 3 == 1 else [])
        oracle(ctx, ids, frames, fam, tag, pending, rec, variants, act, serial[0])
        # a share of the streams also through the other entry points of snoop: as a text log (stdin) and as messages of a live bus
        m = serial[0] % (4 if big else 8)
        if m == 0:
            text_log_oracle(ctx, ids, frames, tag)
        elif m == 2:
            bus_oracle(ctx, ids, frames, tag, "snoop-passive" if serial[0] % 16 < 8 else "snoop-active")
        return True

    # corpus: the defects of the pinned commit
    for frames in ([(cid, bytes.fromhex("21778899aa"))], [(cid, b"")], [(cid, b"\x10")],
                   [(cid, bytes.fromhex("100a112233445566")), (cid, bytes.fromhex("21778899aaAAAAAA")), (cid, bytes.fromhex("22deadbeef"))]):
        go([cid], frames, "corpus", "corpus", (cid, b"\x01\x02\x03", L.segment(b"\x01\x02\x03", 8, b"")))
    # 1. single faults, every position (exhaustive over the fault catalogue for the chosen base streams)
    bases = []
    for (n, dl) in ([(3, 8), (10, 8), (20, 8), (30, 8), (13, 12), (6 + 7 * 3, 8)] + ([(6 + 7 * 10, 8), (62 + 63 * 2, 64), (130, 8)] if big else [])):
        p = bytes(rng.getrandbits(8) for _ in range(n))
        bases.append(([cid], dl, n, [(cid, f) for f in L.segment(p, dl, b"\xAA" * rng.randint(0, 3))]))
    # two transfers back to back
    bases.append(([cid], 8, 12, [(cid, f) for f in L.segment(bytes(range(12)), 8, b"") + L.segment(bytes(range(50, 59)), 8, b"\x00")]))
    # a conversation on the two IDs `odxtools snoop` listens to: request, segmented response with the tester's flow control in between
    rx, txi = 0x7E0, 0x7E8
    resp = L.segment(bytes(rng.getrandbits(8) for _ in range(20)), 8, b"\x55")
    bases.append(([rx, txi], 8, 20, [(rx, L.segment(b"\x22\xF1\x90", 8, b"\x55" * 4)[0]), (txi, resp[0]), (rx, b"\x30\x00\x00\x55\x55\x55\x55\x55")]
                  + [(txi, f) for f in resp[1:]]))
    rec_p = bytes(range(100, 117))
    rec = (cid, rec_p, L.segment(rec_p, 8, b"\xAA"))
    # recovery transfers of other lengths: the sequence number of consecutive frames wraps after 15 frames, so "the next
    # well-formed transfer is reassembled" must also be exercised with transfers of >= 16 and >= 32 consecutive frames
    # (classic CAN: > 111 / > 223 bytes) and with CAN-FD frames
    long_recs = []
    for (n, dl) in [(6 + 7 * 15, 8), (6 + 7 * 16 + 3, 8), (6 + 7 * 33, 8), (62 + 63 * 17, 64), (9, 8)]:
        q = bytes((x * 13 + n) % 256 for x in range(n))
        long_recs.append((cid, q, L.segment(q, dl, b"")))
    calls = [0]

    def pick_rec(ids_):
        """mostly the short transfer; every 6th call one of the long ones (keeps the run time); on each listened ID in turn"""
        calls[0] += 1
        cid_ = ids_[calls[0] % len(ids_)]
        if calls[0] % 6 == 0:
            c0, q, fs = long_recs[(calls[0] // 6) % len(long_recs)]
            return (cid_, q, fs)
        return (cid_, rec_p, rec[2])

    def short(tag):
        return tag.rstrip("0123456789abcdef") if tag.startswith("pci") else tag
    for (ids, dl, n, base) in bases:
        singles = list(faults(base, ids))
        for (tag, k), fr in singles:
            go(ids, fr, "single-fault", short(tag), pick_rec(ids))
        ctx.count("single_fault_streams", len(singles))
        # 2. announced length x fault: the first frame announces each boundary length (zero, less than / exactly what the first frame
        #    carries, one less / one more / one frame more than the data, 255/256, 4095) and on top of that every single fault
        for k, (c, f) in enumerate(base):
            if len(f) >= 2 and f[0] >> 4 == 1:
                vals = ffdl_values(n, dl)
                if not big and len(base) > 3:
                    vals = [v for v in vals if v in (0, 1, dl - 2, dl - 1, n - 1, n + 1, 4095)]
                cnt = 0
                for v in vals:
                    b2 = set_ffdl(base, k, v)
                    cnt += go(ids, b2, "ffdl", "ffdl", pick_rec(ids), dedup=True)
                    for (tag, k2), fr in faults(b2, ids):
                        if tag.startswith("pci") and not big and k2 != k and int(tag[3:], 16) > 3:
                            continue    # quick: undefined frame types only at the first frame itself
                        cnt += go(ids, fr, "ffdl-x-fault", "ffdl+" + short(tag), pick_rec(ids), dedup=True)
                ctx.count("ffdl_x_fault_streams", cnt)
        # 3. double faults: exhaustive for the shortest multi-frame bases (all of them up to 4 frames in thorough), sampled otherwise
        if len(base) <= (6 if big else 3):
            exhaustive = len(base) <= (4 if big else 2) and dl == 8 and len(ids) == 1
            doubles = ((t1, t2, fr2) for ((t1, _), fr1) in singles for ((t2, _), fr2) in faults(fr1, ids))
            if not exhaustive:
                doubles = list(doubles)
                doubles = rng.sample(doubles, min(len(doubles), 20000 if big else 2500))
            cnt = 0
            for (t1, t2, fr2) in doubles:
                cnt += go(ids, fr2, "double-fault", "double", pick_rec(ids), dedup=True)
            ctx.count("double_fault_streams" + ("_exhaustive" if exhaustive else ""), cnt)
    # 4. random frame soups over 1-3 ids; first frames biased to the boundary values of the announced length
    for n in range(20000 if big else 2500):
        ids = rng.sample(range(0x700, 0x7F0), rng.randint(1, 3))
        frames = []
        for _ in range(rng.randint(1, 14)):
            c = rng.choice(ids + [0x123])
            r = rng.random()
            if r < 0.55:
                ft = rng.choice([0, 1, 2, 2, 2, 3, rng.randint(4, 15)])
                b0 = (ft << 4) | rng.randint(0, 15)
                f = bytes([b0]) + bytes(rng.getrandbits(8) for _ in range(rng.choice([0, 1, 2, 6, 7, 7, 11, 63])))
                if ft == 1 and len(f) >= 2 and rng.random() < 0.6:
                    v = rng.choice([0, 0, 1, 5, 6, 7, 8, 13, 14, 255, 256, 4095])
                    f = bytes([0x10 | (v >> 8), v & 0xFF]) + f[2:]
                elif ft == 2 and rng.random() < 0.6:
                    f = bytes([0x20 | rng.choice([0, 1, 1, 2, 2, 3, 15])]) + f[1:]
            elif r < 0.65:
                f = bytes(rng.getrandbits(8) for _ in range(rng.randint(0, 3)))
            else:
                p = bytes(rng.getrandbits(8) for _ in range(rng.choice([1, 7, 8, 9, 13, 14, 20])))
                fs = L.segment(p, 8, b"")
                frames += [(c, x) for x in fs[:rng.randint(1, len(fs))]]
                continue
            frames.append((c, f))
        go(ids, frames, "soup", "soup", pick_rec(ids))
    flush_model(ctx, pending)
    flush_active(ctx, act)


def replay(ctx, data):
    w = data["witness"]
    frames = [(c, bytes.fromhex(h)) for c, h in w["frames"]]
    sub = type(ctx)(ctx.pid, ctx.tier, ctx.seed)
    dec = w.get("decoder", "")
    if dec.startswith("text:"):
        text_log_oracle(sub, w["ids"], frames, "replay")
        return not sub.violations
    if dec.startswith("bus:"):
        bus_oracle(sub, w["ids"], frames, "replay", dec[4:])
        return not sub.violations
    rec = None
    if "then" in w and "expected" in w:
        rec = (w.get("then_id", w["ids"][0]), bytes.fromhex(w["expected"]), [bytes.fromhex(h) for h in w["then"]])
    oracle(sub, w["ids"], frames, "replay", "replay", [], rec, L.VARIANTS)
    return not sub.violations
