"""C04 — the encoder never silently emits a PDU that misrepresents its input; every rejection is an OdxError."""
import contextlib
import copy
import io
import json
import logging
import pickle
import random

import atomic_lib as A
import codec_oracles as O
import malformed as M
from odxgen import desc as D
from odxgen import gen as G
from odxgen import sexp
from odxgen import values as V

ID = "C04"
LEAN_TARGETS = ["OdxVerif.Props.C04", "OdxVerif.Props.C04Struct", "OdxVerif.Props.C04Nested", "OdxVerif.Props.C04Fixes"]
DRIVERS = ["drv_codec"]
P = "OdxVerif.Codec."
THEOREMS = [P + t for t in ["C04_no_silent_corruption_partial", "C04_accepts_iff_representable", "C04_flat", "C04_condensed_counterexample", "encodeMessage_flat_bad", "encodeMessage_flat_unknown", "rawOfInt32_ok", "rawOfInt32_reject",
                            "C04_struct_partial", "C04_struct_never_foreign", "C04_struct_accepts_iff", "encodeMessage_struct_cases", "struct_roundtrip_fill",
                            # nested compositional tier (structures o fields o multiplexers, descriptions without baked-in values)
                            "C04_nested_partial", "C04_nested_never_foreign", "C04_nested_accepts_iff", "encodeMessage_nested_cases", "DescribedP.ok",
                            "DDesc.struct_ok", "DDesc.staticField_ok", "DDesc.dynLenField_ok", "DDesc.eopField_ok", "DDesc.mux_ok", "PDesc.ofValue_ok",
                            # W16: the repaired item loops of the dynamic fields (fix c04-field-item-consumes-nothing)
                            "C04_field_items_consume_data", "C04_eop_field_items_consume_data", "C04_empty_field_item_rejected", "encodeItems_advances"]]
RULE = ("direct oracle, model-free: for every description (odxgen, well-formed, loaded through the XML loader) x every assignment of the "
        "control stream (valid values) and of the malformed stream (harness/malformed.py: one damaged site per mutant - boundary +-1 of the "
        "representable range, wrong Python type, over-/under-long and empty strings/byte fields, non-encodable characters, terminators inside "
        "values, lists too short/long, missing/unknown parameters, unknown mux case/table row/DTC, inconsistent length keys, whole value of a "
        "wrong type): encode; accepted => decode(PDU) == expect(value) and the PDU is consumed; rejected => isinstance(e, OdxError). "
        "Families: corpus of past defects; exhaustive integer sweep -(2^n)-2..2^n+2 for every bit length n <= 8 (quick) / 12 (thorough) x "
        "every integer encoding x both byte orders; random composites x mutants; atomic emplace/extract malformed stream (strict and "
        "lenient); non-condensed BIT-MASK on every maskable base type x encoding x byte order x bit length x mask shape; the other diag "
        "coded type classes (MIN-MAX-LENGTH, LEADING-LENGTH-INFO, PARAM-LENGTH-INFO) x base type. Call histories (round 6): the same oracle "
        "on the same objects after other calls - every mutant (of x / the whole assignment) as the first call on untouched objects followed "
        "by the valid assignment (enumerated families; 3/6 mutants of different kinds per value in random composites), every ordered pair of "
        "a 7-value small scope (masked and other-DCT families), the valid assignment again after all its mutants; the outcome of one "
        "request (accepted + PDU | error class) must not depend on the history (a difference is a broken model correspondence: the model is "
        "a function of description and value). distinct = distinct (description, value, trigger, history); non-trivial = a malformed or "
        "boundary value reached the encoder, or a call with a non-empty history (first-call control cases are trivial)")
TRUSTED = ["expectation `malformed.expect` (requested values completed with defaults/constants/derived keys, quantised by the compu method "
           "and binary32) is written from the ODX semantics, independent of the odxtools source; fallback `embeds` when no expectation exists",
           "descriptions are loaded through the real XML loader; exception classes via codec_oracles.err_class"]
ASSUMPTIONS = ["'the library's own error type' = any OdxError subclass (EncodeError, DecodeError or plain OdxError); counts per class are in the evidence",
               "IEEE narrowing of a double to binary32 (round to nearest) is the prescribed representation; a *finite* value that narrows to "
               "infinity is not (it must be rejected)",
               "quantisation of a physical value by a compu method (nearest internal value) is the prescribed representation",
               "an accepted value that decodes to an `==`-equal value of another Python type (True/1, 2.0/2, tuple/list, bytearray/bytes, DTC "
               "given by code or short name / DTC object, empty str/bytes for an empty field) is not corruption",
               "BIT-MASK is applied to the value when encoding (tests/test_encoding.py::test_bit_mask relies on it): expected = value & mask",
               "values supplied for parameters the description fills itself (RESERVED, MATCHING-REQUEST-PARAM) are ignored by design "
               "(tests/test_encoding.py re-encodes a decoded dictionary whose reserved parameter is 0xffffff); they are counted, not reported. "
               "Values supplied for CODED-CONST/PHYS-CONST/NRC-CONST must be rejected unless equal",
               "NRC-CONST overlay parameters (harness device to set the NRC) are only given listed codes",
               "ENV-DATA-DESC: values for environments that do not apply to the DTC are ignored by design (allow_unknown_parameters)",
               "an OdxWarning (overlap) during encode excuses the case (counted)",
               "untouched implementations of a description for the call-history schedules are unpickled images of the loaded object graph taken "
               "before its first call (every 16th description: loaded again through the XML loader); state kept outside the object graph "
               "(module globals) is not reset between schedules",
               "descriptions with SYSTEM parameters (TIMESTAMP ...): the PDU depends on the moment of the call; outcomes of two histories are "
               "compared on acceptance / error class only",
               "BIT-MASK with one-bits beyond BIT-LENGTH is a malformed description (outside the envelope)"]

logging.getLogger("odxtools").setLevel(logging.CRITICAL)
OK_REJECT = ("encode", "decode", "mismatch", "odx")


# ------------------------------------------------------------------ the oracle
def diff_kind(exp, got):
    """kind of the first difference between two rnorm'ed trees"""
    if isinstance(exp, dict) and isinstance(got, dict):
        for k in exp:
            if k not in got:
                return "missing-key"
            d = diff_kind(exp[k], got[k])
            if d:
                return d
        return "extra-key" if set(got) - set(exp) else None
    if isinstance(exp, list) and isinstance(got, list):
        if len(got) < len(exp):
            return "fewer-items"
        if len(got) > len(exp):
            return "more-items"
        for a, b in zip(exp, got):
            d = diff_kind(a, b)
            if d:
                return d
        return None
    if type(exp) is not type(got) and not (isinstance(exp, (int, tuple)) and isinstance(got, (int, tuple))):
        return "type-differs"
    return None if exp == got else "leaf-differs"


def c04_eval(comp, obj, value, trig):
    """(failure | None, enc, dec); failure = (clause, observed, detail, extra features)"""
    enc = O.impl_encode(obj, value, trig)
    if not enc.ok:
        if enc.status in OK_REJECT:
            return None, enc, None
        return ("only-odx-errors", enc.status, {"error": enc.msg}, []), enc, None
    if enc.warns:
        return None, enc, None
    dec = O.impl_decode(obj, enc.pdu)
    extra = {"pdu": enc.pdu.hex()}
    if not dec.ok:
        return ("decodes-back", dec.status, {**extra, "error": dec.msg}, []), enc, dec
    try:
        exp = M.expect(comp, value, trig)
        e, g = M.rnorm(exp), M.rnorm(dec.value)
        if e != g:
            return ("returns-requested-values", "mismatch", {**extra, "decoded": V.jsonable(dec.value), "expected": V.jsonable(exp)},
                    ["diff:" + str(diff_kind(e, g))]), enc, dec
    except M.Unjudgeable:
        return None, enc, dec
    except M.Unpredictable as why:
        if any(isinstance(p.dop, D.EnvDataDesc) for p, _ in D.walk_params(comp.params)):
            # environment data: values for environments that do not apply to the DTC are ignored by design
            # (EncodeState.allow_unknown_parameters), SYSTEM parameters get implicit values: no expectation, no judgement
            return None, enc, dec
        if not M.embeds(dec.value, value):
            return ("returns-requested-values", "ill-typed-value-accepted-and-changed",
                    {**extra, "decoded": V.jsonable(dec.value), "no_expectation": str(why)}, ["diff:embeds"]), enc, dec
    except Exception as e:  # noqa  (harness-side problem: never blame the implementation)
        return None, enc, dec
    if dec.max_cursor < len(enc.pdu):
        return ("consumes-whole-pdu", "not-consumed", {**extra, "consumed": dec.max_cursor, "length": len(enc.pdu)}, []), enc, dec
    return None, enc, dec


def has_unfaithful_sexp(v):
    """bool and bytearray print like int and bytes in the s-expression: the model cannot see the difference"""
    if isinstance(v, (bool, bytearray, memoryview)):
        return True
    if isinstance(v, dict):
        return any(has_unfaithful_sexp(x) for x in v.values())
    if isinstance(v, (list, tuple)):
        return any(has_unfaithful_sexp(x) for x in v)
    return False


def end_marker_collision(params, value):
    """the supplied assignment contains an item of a DYNAMIC-ENDMARKER-FIELD whose first parameter equals the termination value"""
    if not isinstance(value, dict):
        return False
    for p in params:
        v = value.get(p.name, p.default if p.type == "value" else None)
        d = p.dop
        if v is None or d is None:
            continue
        if isinstance(d, D.EndMarkerField) and isinstance(v, (list, tuple)):
            first = d.item.params[0]
            for it in v:
                if isinstance(it, dict) and M.rnorm(it.get(first.name, first.default)) == M.rnorm(d.term):
                    return True
                if isinstance(it, dict) and end_marker_collision(d.item.params, it):
                    return True
        elif isinstance(d, D.Struct):
            if end_marker_collision(d.params, v):
                return True
        elif isinstance(d, D.FIELDS) and isinstance(v, (list, tuple)):
            if any(end_marker_collision(d.item.params, it) for it in v):
                return True
        elif isinstance(d, D.Mux) and isinstance(v, (list, tuple)) and len(v) == 2:
            for c in d.cases:
                if c.struct is not None and (c.name == v[0] or (isinstance(v[0], int) and c.lower <= v[0] <= c.upper)) and end_marker_collision(c.struct.params, v[1]):
                    return True
            if d.default and d.default[1] is not None and end_marker_collision(d.default[1].params, v[1]):
                return True
    for p in params:
        if p.type == "table-struct" and isinstance(value.get(p.name), tuple) and len(value[p.name]) == 2:
            key = next((k for k in params if k.name == p.key), None)
            r = next((r for r in key.table.rows if r.name == value[p.name][0]), None) if key else None
            if r is not None and r.struct is not None and end_marker_collision(r.struct.params, value[p.name][1]):
                return True
    return False


KNOWN_END_MARKER = ["end-marker-field", "item-equals-end-marker"]


def tag_kind(tag):
    """kind of a mutant: last path segment without the parameter-type prefix ('value:struct/value:str+1' -> 'str+1')"""
    last = tag.split("/")[-1]
    for pre in ("value:", "system:", "length-key:"):
        if last.startswith(pre) and len(last) > len(pre):
            return last[len(pre):]
    return last


def c04_failing(clause, observed, kind, seeds=3, limit=120):
    """shrinker predicate: some mutant of the same kind reproduces (clause, observed) on the candidate description"""
    def f(cand):
        L, err = O.safe_load(cand)
        if L is None:
            return None
        obj = L[cand.name]
        for s in range(seeds):
            rng = random.Random(s)
            try:
                v = V.gen_value(rng, cand)
                t = V.gen_trigger(rng, cand)
            except Exception:  # noqa
                continue
            cands = [("control", v)] if kind == "control" else [m for m in M.value_mutants(rng, cand, v, limit=limit) if tag_kind(m[0]) == kind]
            for tag, mv in cands:
                r, enc, dec = c04_eval(cand, obj, mv, t)
                if r and r[0] == clause and r[1] == observed:
                    return (mv, t, (r[0], r[1], {**r[2], "mutant": tag, "_extra": r[3]}))
        return None
    return f


class Run:
    def __init__(self, ctx):
        self.ctx = ctx
        self.rep = O.Reporter(ctx, max_shrinks=10)
        M.guarded(ctx)
        self.corr = M.CoarseCorrespondence(ctx)
        self.clock, self.keep = {}, []      # id(description) -> has SYSTEM parameters (descriptions kept alive: ids stay unique)

    def case(self, comp, obj, value, trig, family, tag, fixed_features=None, what=None, shrink=True, corr=True):
        ctx = self.ctx
        r, enc, dec = c04_eval(comp, obj, value, trig)
        try:
            line = sexp.encode_line(comp, value, trig)
        except Exception:  # noqa  (value form without s-expression: direct oracle only)
            line = None
        ctx.case((sexp.composite(comp), repr(value), trig), nontrivial=tag != "control")
        ctx.histo("mutant", tag_kind(tag))
        ctx.histo("outcome", "accepted" if enc.ok else "rejected:" + enc.status.split(":")[0])
        if tag != "control" and enc.ok:
            ctx.histo("accepted_mutants", tag_kind(tag))
        if enc.ok and enc.warns:
            ctx.count("accepted_with_warning(excused)")
        if enc.ok and isinstance(value, dict) and any(p.type in ("reserved", "matching-request") and p.name in value for p in comp.params):
            ctx.count("nonsettable_value_supplied_and_ignored")
        if corr and line is not None and has_unfaithful_sexp(value):
            ctx.count("corr_no_faithful_sexp(bool/bytearray)")
        elif corr and line is not None:
            self.corr.add(family + "|" + tag_kind(tag), comp, line, O.reply_encode(enc))
        elif corr:
            ctx.count("corr_no_sexp_for_value")
        if r:
            kind = tag_kind(tag)
            if fixed_features is None and r[0] == "returns-requested-values" and "diff:fewer-items" in r[3] and end_marker_collision(comp.params, value):
                # one cause, one signature (open known finding): an item that starts with the termination value ends the field
                fixed_features = KNOWN_END_MARKER
            self.rep.report(r[0], r[1], comp, value, trig, {**r[2], "mutant": tag},
                            failing=c04_failing(r[0], r[1], kind) if shrink else None, extra_features=r[3],
                            fixed_features=fixed_features, what=what or f"{r[0]}: {r[1]} for mutant '{tag}'")
        return r, enc

    # -------------------------------------------------------------- call histories
    def after(self, comp, obj, history, value, trig, family, tag, refs=None, shrink=True, corr=True, done=False):
        """the statement is about *every* value assignment, whatever the objects of the description were used for before: `obj` is a freshly
        loaded (or otherwise differently used) implementation of `comp`; the assignments of `history` [(tag, value)] are encoded first
        (they are judged by the direct oracle where they are the last call), then `value` is judged like any first call.
        `refs`: repr(value) -> outcome of the same request on other objects with another history; the outcome of a request must not depend
        on the history (the model `encodeMessage` the theorems speak about is a function of description and value)"""
        ctx = self.ctx
        refs = refs or {}
        outcomes = []
        # (SYSTEM parameters take the time of the call when no value is supplied: the PDU legitimately depends on the moment of the call;
        #  for these descriptions only acceptance / error class are compared between two histories)
        clock = self.clock.get(id(comp))
        if clock is None:
            try:
                clock = self.clock[id(comp)] = any(p.type == "system" for p, _d in D.walk_params(comp.params))
                self.keep.append(comp)
            except Exception:  # noqa
                clock = True
        for _htag, hv in ([] if done else history):      # done: `obj` has already seen these calls (in this order)
            outcomes.append((hv, O.impl_encode(obj, hv, trig)))         # (never raises: every exception is turned into a Res)
        r, enc, dec = c04_eval(comp, obj, value, trig)
        outcomes.append((value, enc))
        ctx.case((comp_key(comp), vkey(value), trig, "after", ("primary-run", len(history)) if done else tuple(vkey(hv) for _t, hv in history)),
                 nontrivial=True)
        ctx.histo("history_last_call", "control" if tag == "control" else "mutant")
        ctx.histo("history_outcome", "accepted" if enc.ok else "rejected:" + enc.status.split(":")[0])
        for n, (hv, e) in enumerate(outcomes):
            ref = refs.get(vkey(hv))
            if ref is None:
                continue
            ctx.count("history_outcomes_compared")
            if not same_outcome(ref, e, pdu=not clock):
                ctx.count("history_dependent_outcomes")
                ctx.disagree("history|" + family, {"desc": comp_key(comp)[:2000], "value": vkey(hv)[:400], "call_number": n + (len(history) if done else 0),
                                                  "earlier_calls_on_the_same_objects": [vkey(x)[:200] for _t, x in history][:n if not done else None][-12:]},
                             "the same request with another call history: " + outcome_str(ref), outcome_str(e))
        if corr and refs.get(vkey(value)) is None and not has_unfaithful_sexp(value):
            # the model is a pure function of (description, value): the same line must get the same reply after any history (where the
            # outcome was compared with the outcome of a call that went to the model already, that comparison is the tie)
            try:
                self.corr.add(family + "|after-history", comp, sexp.encode_line(comp, value, trig), O.reply_encode(enc))
            except Exception:  # noqa  (value form without s-expression)
                pass
        if r:
            kinds = [tag_kind(t) for t, _ in history]
            try:
                hj = [V.jsonable(hv) for _t, hv in history]
            except Exception:  # noqa
                hj = None
            ref = refs.get(vkey(value))
            detail = {**r[2], "mutant": tag, "history": hj, "history_mutants": [t for t, _ in history]}
            self.rep.report(r[0], r[1], comp, value, trig, detail,
                            failing=c04_failing_after(r[0], r[1], kinds, tag_kind(tag)) if shrink else None,
                            extra_features=list(r[3]) + ["after-history"],
                            what=f"{r[0]}: {r[1]} for '{tag}' after the same objects encoded {[t for t, _ in history][-6:]} "
                                 f"(the same request with another call history: {outcome_str(ref) if ref is not None else 'n/a'})")
        return r, enc


def comp_key(comp):
    try:
        return sexp.composite(comp)
    except Exception:  # noqa
        return comp.name


def same_outcome(a, b, pdu=True):
    """two encode outcomes of the same request are the same observable: accepted with the same PDU and warning flag, or rejected with the
    same error class (messages are free)"""
    if a.ok != b.ok:
        return False
    if a.ok:
        return (a.pdu == b.pdu or not pdu) and bool(a.warns) == bool(b.warns)
    return a.status == b.status


def outcome_str(e):
    return f"ok {e.pdu.hex()}{' (warning)' if e.warns else ''}" if e.ok else f"{e.status}: {(e.msg or '')[:80]}"


def reloaded_objects(comp, k, chunk=48):
    """k mutually independent, freshly loaded implementations of the description `comp` (each one has objects of its own, down to the DOPs and
    diag coded types: whatever one of them remembers about its calls cannot reach another one)"""
    out = []
    for lo in range(0, k, chunk):
        cs = []
        for i in range(lo, min(k, lo + chunk)):
            c = copy.deepcopy(comp)
            c.name = f"{comp.name}h{i}"
            cs.append(c)
        L, err = O.safe_load(cs)
        if L is None:
            return out
        try:
            out.extend(L[c.name] for c in cs)
        except Exception:  # noqa
            return out
    return out


class Pristine:
    """source of implementations of one description that no call has touched yet. Taken from the loaded objects *before* their first call:
    a pickle image of the object graph, unpickled once per schedule (10 x cheaper than loading the document again); every 16th description
    (and every description whose objects cannot be pickled) is loaded again through the XML loader instead"""
    count = 0

    def __init__(self, comp, obj):
        Pristine.count += 1
        self.comp, self.blob = comp, None
        if Pristine.count % 16:
            try:
                self.blob = pickle.dumps(obj, protocol=pickle.HIGHEST_PROTOCOL)
                pickle.loads(self.blob)
            except Exception:  # noqa
                self.blob = None

    def make(self, k):
        if self.blob is not None:
            try:
                return [pickle.loads(self.blob) for _ in range(k)]
            except Exception:  # noqa
                pass
        return reloaded_objects(self.comp, k)


def distinct_values(ms):
    """mutants with pairwise different values (by repr)"""
    seen, out = set(), []
    for tag, mv in ms:
        try:
            k = repr(mv)
        except Exception:  # noqa
            k = str(id(mv))
        if k not in seen:
            seen.add(k)
            out.append((tag, mv))
    return out


def histories(run, comp, pristine, trig, family, control, firsts, refs, pairs=(), shrink=True):
    """call-history schedules on freshly loaded objects, one object per schedule:
       mutant-first   [m, control]      for every m of `firsts`; the control value is judged by the direct oracle; both outcomes are compared with
                                        the outcomes `refs` of the primary run (in which the control value is the first call)
       ordered pairs  [a, b]            for every ordered pair of `pairs` (a, b: (tag, value)); b is judged; reference outcomes: each value as
                                        the only call on objects of its own (judged as well)"""
    ctx = run.ctx
    pairs = list(pairs)
    singles = [a for a in pairs if vkey(a[1]) not in refs]
    plan = [([m], ("control", control)) for m in firsts] + [([a], b) for a in pairs for b in pairs if a is not b]
    if not plan:
        return
    objs = pristine.make(len(singles) + len(plan))
    if len(objs) < len(singles) + len(plan):
        ctx.count("history_fresh_load_failed")
        return
    refs = dict(refs)
    for (tag, a), obj in zip(singles, objs):
        _r, e = run.case(comp, obj, a, trig, family, tag, shrink=shrink)
        refs[vkey(a)] = e
    for (hist, (tag, v)), obj in zip(plan, objs[len(singles):]):
        run.after(comp, obj, hist, v, trig, family, tag, refs=refs, shrink=shrink)
        ctx.histo("history_schedule", "ordered-pair" if any(hist[0] is a for a in pairs) else "mutant-first")
        ctx.histo("history_first_call", tag_kind(hist[0][0]))


def vkey(v):
    try:
        return repr(v)
    except Exception:  # noqa
        return str(id(v))


def c04_failing_after(clause, observed, hist_kinds, kind, seeds=2, limit=120):
    """shrinker predicate for a failure that needs a call history: on freshly loaded objects of the candidate, a mutant of each kind in
    `hist_kinds` is encoded first, then a value of kind `kind` reproduces (clause, observed)"""
    def f(cand):
        for s in range(seeds):
            rng = random.Random(s)
            try:
                v = V.gen_value(rng, cand)
                t = V.gen_trigger(rng, cand)
                ms = [("control", v)] + M.value_mutants(rng, cand, v, limit=limit)
            except Exception:  # noqa
                continue
            firsts = [m for m in ms if tag_kind(m[0]) == hist_kinds[0]][:4] if hist_kinds else []
            lasts = [m for m in ms if tag_kind(m[0]) == kind][:2]
            for h in firsts:
                for tag, mv in lasts:
                    L, err = O.safe_load(cand)
                    if L is None:
                        return None
                    obj = L[cand.name]
                    O.impl_encode(obj, h[1], t)
                    r, enc, dec = c04_eval(cand, obj, mv, t)
                    if r and r[0] == clause and r[1] == observed:
                        return (mv, t, (r[0], r[1], {**r[2], "mutant": tag, "history": [V.jsonable(h[1])], "history_mutants": [h[0]], "_extra": r[3]}))
        return None
    return f


# ------------------------------------------------------------------ corpus
def int8(bt="A_INT32", enc=None, n=8, **kw):
    return D.SimpleDop(D.Std(bt, n, enc, **kw), bt)


def rq(*params):
    return D.Composite("RQ", "request", [D.sid()] + list(params))


def corpus():
    """(tag, composite, value, trig, signature features) — witnesses of every defect fixed or recorded so far"""
    val, u8 = D.value, D.u8
    out = []
    for x in (200, -129, -256, -257):
        out.append((f"int32-8bit-{x}", rq(val("x", int8()), val("y", u8())), {"x": x, "y": 1}, None, ["signed-range"]))
    for x in (128, -128):
        out.append((f"int32-1c-{x}", rq(val("x", int8(enc="1C")), val("y", u8())), {"x": x, "y": 1}, None, ["signed-range", "1C"]))
    out.append(("int32-sm-128", rq(val("x", int8(enc="SM")), val("y", u8())), {"x": 128, "y": 1}, None, ["signed-range", "SM"]))
    out.append(("short-byte-field", rq(val("x", D.SimpleDop(D.Std("A_BYTEFIELD", 16), "A_BYTEFIELD"))), {"x": b"\x01"}, None, ["short-raw-data"]))
    out.append(("short-string", rq(val("x", D.SimpleDop(D.Std("A_ASCIISTRING", 16), "A_ASCIISTRING"))), {"x": "a"}, None, ["short-raw-data"]))
    out.append(("euro-latin1", rq(val("x", D.SimpleDop(D.Std("A_ASCIISTRING", 8, "ISO-8859-1"), "A_ASCIISTRING"))), {"x": "€"}, None,
                ["unencodable-string"]))
    # found by this check
    for term in ("ZERO", "HEX-FF"):
        mm = D.SimpleDop(D.MinMax("A_ASCIISTRING", 1, 4, term, "ISO-8859-1"), "A_ASCIISTRING")
        out.append((f"minmax-euro-{term}", rq(val("x", mm), val("y", u8())), {"x": "a€", "y": 1}, None, ["minmax", "unencodable-string"]))
    out.append(("minmax-utf8-surrogate", rq(val("x", D.SimpleDop(D.MinMax("A_UTF8STRING", 0, None, "ZERO"), "A_UTF8STRING")), val("y", u8())),
                {"x": "a\udc80", "y": 1}, None, ["minmax", "unencodable-string"]))
    out.append(("minmax-ucs2-surrogate", rq(val("x", D.SimpleDop(D.MinMax("A_UNICODE2STRING", 0, None, "ZERO"), "A_UNICODE2STRING")), val("y", u8())),
                {"x": "a\ud800", "y": 1}, None, ["minmax", "unencodable-string"]))
    mmb = D.SimpleDop(D.MinMax("A_BYTEFIELD", 1, None, "ZERO"), "A_BYTEFIELD")
    out.append(("minmax-terminator-inside", rq(val("x", mmb), val("y", u8())), {"x": b"\x01\x00\x02", "y": 7}, None, ["minmax", "terminator-in-value"]))
    mmf = D.SimpleDop(D.MinMax("A_BYTEFIELD", 0, 2, "HEX-FF"), "A_BYTEFIELD")
    out.append(("minmax-terminator-at-max", rq(val("x", mmf), val("y", u8())), {"x": b"\x01\xff", "y": 7}, None, ["minmax", "terminator-in-value"]))
    mmu = D.SimpleDop(D.MinMax("A_UNICODE2STRING", 2, None, "ZERO", hl=True), "A_UNICODE2STRING")
    out.append(("minmax-ucs2-terminator-inside", rq(val("x", mmu), val("y", u8())), {"x": "a\x00b", "y": 7}, None, ["minmax", "terminator-in-value"]))
    for bt, v in (("A_UTF8STRING", "a\udc80"), ("A_UNICODE2STRING", "a\ud800"), ("A_ASCIISTRING", "\udc80")):
        out.append((f"leading-surrogate-{bt}", rq(val("x", D.SimpleDop(D.Leading(bt, 8), bt)), val("y", u8())), {"x": v, "y": 1}, None,
                    ["leading", "unencodable-string"]))
    mux = D.Mux(1, 0, None, u8(), [D.MuxCase("c0", 0, 0, D.Struct([val("a", u8())])), D.MuxCase("c1", 1, 3, None)], default=("dflt", D.Struct([val("d", u8(16))])))
    out.append(("mux-case-none", rq(val("m", mux)), {"m": (None, {"d": 5})}, None, ["mux", "case-none"]))
    out.append(("mux-unknown-case-with-default", rq(val("m", mux)), {"m": ("no_such_case", {"d": 5})}, None, ["mux", "unknown-case"]))
    out.append(("mux-default-by-name-key-0-taken", rq(val("m", mux)), {"m": ("dflt", {"d": 5})}, None, ["mux", "default-key"]))
    out.append(("mux-content-for-structureless-case", rq(val("m", mux)), {"m": ("c1", {"a": 1})}, None, ["mux", "content-dropped"]))
    mux2 = D.Mux(1, 0, None, u8(), [D.MuxCase("c0", 0, 0, D.Struct([val("a", u8())]))])
    out.append(("mux-case-none-no-default", rq(val("m", mux2)), {"m": (None, {})}, None, ["mux", "case-none"]))
    f32 = D.SimpleDop(D.Std("A_FLOAT32", 32), "A_FLOAT32")
    f64 = D.SimpleDop(D.Std("A_FLOAT64", 64), "A_FLOAT64")
    for tag, dop, x in (("float32-1e39", f32, 1e39), ("float32-max-double", f32, 1.7976931348623157e308), ("float32-neg-1e39", f32, -1e39),
                        ("float32-huge-int", f32, 10 ** 400), ("float64-huge-int", f64, 10 ** 400), ("float32-inf", f32, float("inf")),
                        ("float32-nan", f32, float("nan")), ("float32-narrowing", f32, 0.1), ("float32-2^24+1", f32, 2 ** 24 + 1)):
        out.append((tag, rq(val("x", dop), val("y", u8())), {"x": x, "y": 1}, None, ["float-overflow"]))
    lin = D.SimpleDop(D.Std("A_UINT32", 16), "A_FLOAT64", D.Linear(0, 1, 10))
    for tag, x in (("inf", float("inf")), ("ninf", float("-inf")), ("nan", float("nan")), ("1e308", 1.7976931348623157e308), ("huge-int", 10 ** 400)):
        out.append((f"linear-float-{tag}", rq(val("x", lin), val("y", u8())), {"x": x, "y": 1}, None, ["compu-conversion-error"]))
    lin_int = D.SimpleDop(D.Std("A_INT32", 31, "2C"), "A_INT32", D.Linear(0, 2, 1))
    out.append(("linear-int-huge", rq(val("x", lin_int), val("y", u8())), {"x": 10 ** 400, "y": 1}, None, ["compu-conversion-error"]))
    lin_lim = D.SimpleDop(D.Std("A_UINT32", 28), "A_FLOAT64", D.Linear(-40, 5, 10, (488, "OPEN"), (1308, "CLOSED")))
    out.append(("linear-limit-huge-int", rq(val("x", lin_lim), val("y", u8())), {"x": 10 ** 400, "y": 1}, None, ["compu-conversion-error"]))
    lin_round = D.SimpleDop(D.Std("A_INT32", 5, None, False), "A_INT32", D.Linear(100, 3, 10, (4, "CLOSED"), (14, "CLOSED")))
    out.append(("linear-rounds-beyond-limit", rq(val("x", lin_round), val("y", u8())), {"x": 11, "y": 1}, None, ["invalid-internal-value"]))
    pl = [D.length_key("k", u8(16)), val("x", D.SimpleDop(D.ParamLen("A_UINT32", "k"), "A_UINT32")), val("y", u8())]
    out.append(("paramlen-int-2^70", rq(*pl), {"x": 1 << 70, "y": 1}, None, ["paramlen", "int-over-64-bits"]))
    out.append(("paramlen-int-key-72", rq(*pl), {"x": 5, "k": 72, "y": 1}, None, ["paramlen", "int-over-64-bits"]))
    out.append(("paramlen-int-key-2^20", rq(*pl), {"x": 5, "k": 1 << 15, "y": 1}, None, ["paramlen", "int-over-64-bits"]))
    out.append(("paramlen-key-bool", rq(*pl), {"x": 1, "k": True, "y": 1}, None, ["paramlen", "length-key-bool"]))
    pls = [D.length_key("k", D.SimpleDop(D.Std("A_INT32", 32), "A_INT32")), val("x", D.SimpleDop(D.ParamLen("A_INT32", "k"), "A_INT32")), val("y", u8())]
    out.append(("paramlen-int-key-2^31-1", rq(*pls), {"x": 5, "k": (1 << 31) - 1, "y": 1}, None, ["paramlen", "int-over-64-bits"]))
    # open known finding (decided for C08 by the builder of odxgen/codec_oracles): condensed bit mask
    cond = D.SimpleDop(D.Std("A_UINT32", 16, None, None, mask=0x0F0F, condensed=True), "A_UINT32")
    out.append(("condensed-bit-mask", rq(val("c", cond), val("y", u8())), {"c": 0x0A0B, "y": 1}, None, ["condensed-bit-mask"]))
    # open known finding (round 6, found by the enumerated BIT-MASK family): BIT-MASK on a BCD-coded integer is applied twice, in two domains
    for enc, bl, m, x in (("BCD-P", 12, 0x555, 68), ("BCD-UP", 16, 0x0555, 65)):
        bcdm = D.SimpleDop(D.Std("A_UINT32", bl, enc, None, mask=m), "A_UINT32")
        out.append((f"bcd-bit-mask-{enc}", rq(val("c", bcdm), val("y", u8())), {"c": x, "y": 1}, None, ["bcd-bit-mask"]))
    # open known finding: an item of a DYNAMIC-ENDMARKER-FIELD that starts with the termination value
    emf = D.EndMarkerField(255, u8(), D.Struct([val("a", u8()), val("b", u8())]))
    out.append(("end-marker-item-collision", D.Composite("RQ", "request", [D.sid(), val("f", emf)]),
                {"f": [{"a": 1, "b": 2}, {"a": 255, "b": 3}, {"a": 4, "b": 5}]}, None, KNOWN_END_MARKER))
    # fixed finding c04-field-item-consumes-nothing (forced by the proof of C04_nested_partial: every item of a dynamic field must consume
    # >= 1 byte): the field ENCODERS accepted items that do not occupy data; the decoders (fixes fc2486c / 6869fd8) reject or drop them
    empty = D.Struct([])
    out.append(("field-item-consumes-nothing(dyn-length)", D.Composite("RQ", "request", [D.sid(0x10), val("df", D.DynLenField(1, 0, None, u8(), empty))]),
                {"df": [{}]}, None, ["field-item-consumes-nothing"]))
    out.append(("field-item-consumes-nothing(end-of-pdu)", D.Composite("RQ", "request", [D.sid(0x10), val("ef", D.EopField(empty))]),
                {"ef": [{}]}, None, ["field-item-consumes-nothing"]))
    out.append(("field-item-consumes-nothing(end-marker)",
                D.Composite("RQ", "request", [D.sid(0x10), val("mf", D.EndMarkerField(255, u8(), empty)), val("y", u8())]),
                {"mf": [{}], "y": 1}, None, ["field-item-consumes-nothing"]))
    return out


# ------------------------------------------------------------------ families
def batches(it, n):
    buf = []
    for x in it:
        buf.append(x)
        if len(buf) == n:
            yield buf
            buf = []
    if buf:
        yield buf


INT_ENCS = [("A_INT32", None), ("A_INT32", "2C"), ("A_INT32", "1C"), ("A_INT32", "SM"), ("A_UINT32", None), ("A_UINT32", "NONE"),
            ("A_UINT32", "BCD-P"), ("A_UINT32", "BCD-UP")]


def integer_sweep(run, maxbits):
    """every integer -(2^n)-2 .. 2^n+2 for every bit length n <= maxbits x encoding x byte order, inside [sid, x@bitpos, y]"""
    ctx = run.ctx
    comps = []
    for n in range(1, maxbits + 1):
        for bt, enc in INT_ENCS:
            for hl in (True, False):
                bp = (n * 3 + (0 if hl else 5)) % 8 if n % 2 else 0
                comps.append((n, bt, enc, D.Composite(f"I{len(comps)}", "request", [D.sid(), D.value("x", D.SimpleDop(D.Std(bt, n, enc, hl), bt), bitpos=bp or None),
                                                                                 D.value("y", D.u8())])))
    for chunk in batches(comps, 32):
        L, err = O.safe_load([c for *_x, c in chunk])
        if L is None:
            ctx.count("sweep_documents_rejected")
            ctx.sample({"sweep-rejected": err})
            continue
        for n, bt, enc, c in chunk:
            obj = L[c.name]
            accepted = representable = 0
            ref = {}
            for x in range(-(1 << n) - 2, (1 << n) + 3):
                r, e = run.case(c, obj, {"x": x, "y": 0xA5}, None, "int-sweep", "value:int-sweep", shrink=False, corr=(ctx.tier == "quick" or n <= 6 or x % 7 == 0))
                rep = V.raw_of_int(bt, enc if enc != "NONE" else None, n, x) is not None
                representable += rep
                accepted += e.ok
                if e.ok and not rep:
                    ctx.count("sweep_accepted_unrepresentable(checked by round trip)")
                if rep and not e.ok:
                    ctx.count("sweep_false_rejection")
                    ctx.sample({"false-rejection": [bt, enc, n, x, e.msg]}, limit=16)
                if x in (0, 1):
                    ref[vkey({"x": x, "y": 0xA5})] = e
            # (the sweep starts with unrepresentable values: every accepted value is encoded after rejected ones; now the other direction:
            #  accepted values again after the rejections above 2^n, on the same objects)
            hist = [("value:int-sweep", {"x": (1 << n) + 2, "y": 0xA5})]
            for x in (0, 1):
                run.after(c, obj, hist, {"x": x, "y": 0xA5}, None, "int-sweep", "control", refs=ref, shrink=False, corr=False, done=True)
            ctx.histo("sweep_bit_length", n)
        run.corr.flush()


def run_doc(run, comp, family, rng, n_values, mutant_limit, n_first=0):
    ctx = run.ctx
    L, err = O.safe_load(comp)
    if L is None:
        ctx.count("documents_rejected_by_loader")
        return
    ctx.count("documents_loaded")
    obj = L[comp.name]
    pristine = Pristine(comp, obj) if n_first else None
    O.record_features(ctx, comp)
    ctx.histo("family", family)
    for k in range(n_values):
        try:
            v, trig = V.gen_value(rng, comp), V.gen_trigger(rng, comp)
        except V.Unsupported:
            ctx.count("value_generation_unsupported")
            continue
        except Exception as e:  # noqa
            ctx.count("value_generation_error:" + type(e).__name__)
            continue
        r, enc = run.case(comp, obj, v, trig, family, "control")
        if not enc.ok:
            ctx.count("control_rejected:" + enc.status)
        try:
            ms = M.value_mutants(rng, comp, v, limit=mutant_limit)
        except Exception as e:  # noqa
            ctx.count("mutant_generation_error:" + type(e).__name__)
            continue
        ref = {vkey(v): enc}
        for tag, mv in ms:
            _r, e = run.case(comp, obj, mv, trig, family, tag)
            ref.setdefault(vkey(mv), e)
        for tag, t2 in M.trigger_mutants(comp, trig):
            run.case(comp, obj, v, t2, family, tag)
        # call histories: the valid assignment again, after all its mutants, on the same objects ...
        run.after(comp, obj, [("control", v)] + ms, v, trig, family, "control", refs=ref, done=True)
        # ... and as the second call on freshly loaded objects whose first call is a mutant (n_first of them, of different kinds)
        if n_first:
            hr = ctx.sub_rng("history", comp_key(comp), k)
            by = {}
            for m in distinct_values(ms):
                if vkey(m[1]) != vkey(v):
                    by.setdefault(tag_kind(m[0]), []).append(m)
            kinds = sorted(by)
            hr.shuffle(kinds)
            histories(run, comp, pristine, trig, family, v, [hr.choice(by[kd]) for kd in kinds[:n_first]], ref)


def enum_doc(run, c, obj, v, ms, family, pairs=()):
    """one enumerated description: control, every mutant (as before: on the same objects, control first); then the call histories:
    control again after all mutants on the same objects; every mutant as the first call on freshly loaded objects, followed by the control value;
    every ordered pair of `pairs` on freshly loaded objects"""
    ref = {}
    pristine = Pristine(c, obj)
    for tag, mv in [("control", v)] + ms:
        _r, e = run.case(c, obj, mv, None, family, tag, shrink=False)
        ref.setdefault(vkey(mv), e)
    run.after(c, obj, [("control", v)] + ms, v, None, family, "control", refs=ref, shrink=False, done=True)
    # (first calls: the mutants of the whole assignment and of x; y is the same u8 object in every description of these families)
    firsts = [m for m in distinct_values(ms) if not isinstance(m[1], dict) or "x" not in m[1] or vkey(m[1]["x"]) != vkey(v["x"])]
    histories(run, c, pristine, None, family, v, firsts, ref, pairs=pairs, shrink=False)


def enum_std_masked(big):
    """every maskable base type (A_BYTEFIELD, A_UINT32, A_INT32) x legal encoding x byte order x bit length x shape of a non-condensed BIT-MASK
    whose one-bits lie inside the object (all ones; lowest bit only; highest bit only; alternating bits; high nibble cleared), inside
    `[sid, x, y:u8]` (y pins the cursor after x). Not in the family: BCD-coded integers with a BIT-MASK (open known finding
    `bcd-bit-mask`, corpus witnesses); masks with one-bits beyond BIT-LENGTH (malformed description)"""
    n = 0
    for bt in ("A_BYTEFIELD", "A_UINT32", "A_INT32"):
        if bt == "A_BYTEFIELD":
            lens = [8, 16, 24, 40] if not big else [8, 16, 24, 32, 40, 64, 72]
        else:
            lens = [1, 8, 12, 32, 64] if not big else [1, 2, 3, 4, 7, 8, 9, 12, 15, 16, 17, 24, 31, 32, 33, 48, 63, 64]
        for enc in D.LEGAL_ENCODINGS[bt]:
            if enc in ("BCD-P", "BCD-UP") and bt != "A_BYTEFIELD":
                continue
            for hl in (True, False):
                for bl in lens:
                    full = (1 << bl) - 1
                    masks = []
                    for m in (full, 1, 1 << (bl - 1), int("55" * 9, 16) & full, full >> 4):
                        if m and m not in masks:
                            masks.append(m)
                    if not big and len(masks) > 2:
                        # quick tier: all ones + one more shape per description point, cyclically (every shape is met with every base type
                        # and bit length over the encodings x byte orders)
                        masks = [masks[0], masks[1 + n % (len(masks) - 1)]]
                    for m in masks:
                        n += 1
                        bp = 0 if bt == "A_BYTEFIELD" or n % 2 else 3
                        dop = D.SimpleDop(D.Std(bt, bl, enc, hl, m), bt)
                        yield D.Composite(f"K{n}", "request", [D.sid(), D.value("x", dop, bitpos=bp or None), D.value("y", D.u8())])


def small_scope_values(dop, v, w):
    """a small set of assignments around the representability boundary of `x` (two valid ones with different content, one unit too short / too
    long, empty, far too long resp. just outside the integer range on both sides and far outside, a wrong type): every ordered pair of them is a
    call history"""
    x = v["x"]
    out = [("control", v), ("control", w)]
    if isinstance(x, (bytes, bytearray)):
        x = bytes(x)
        cands = [("bytes-1", x[:-1]), ("bytes+1", x + b"\x5a"), ("bytes-empty", b""), ("bytes+many", x * 3 + b"\x01" * 9), ("type:int", 5)]
    elif isinstance(x, str):
        cands = [("str-1", x[:-1]), ("str+1", x + "Z"), ("str-empty", ""), ("str+many", x * 3 + "a" * 9), ("type:int", 5)]
    else:
        dct = dop.dct
        if isinstance(dct, D.Std):
            lo, hi = V.int_range(dct.bt, dct.enc if dct.enc in ("1C", "2C", "SM") else None, dct.bitlen)
        else:
            lo, hi = (0, 255) if dct.bt == "A_UINT32" else (-128, 127)
        cands = [("int-boundary", lo - 1), ("int-boundary", hi + 1), ("int+2^70", 1 << 70), ("type:bytes", b"\x01\x02"), ("type:none", None)]
    for tag, c in cands:
        out.append(("value:" + tag, {**v, "x": c}))
    res, seen = [], set()
    for t, a in out:
        if vkey(a) not in seen:
            seen.add(vkey(a))
            res.append((t, a))
    return res


def enum_other_dcts():
    """the diag coded types with a length that depends on the value, every class x every base type they admit, value parameter `x`:
    MIN-MAX-LENGTH (ZERO / HEX-FF followed by y:u8, END-OF-PDU last; without and with a maximum), LEADING-LENGTH-INFO (8 and 16 length bits),
    PARAM-LENGTH-INFO (key k:u8 in front)"""
    n = 0
    for bt in ("A_BYTEFIELD", "A_ASCIISTRING", "A_UTF8STRING", "A_UNICODE2STRING"):
        unit = 2 if bt == "A_UNICODE2STRING" else 1
        for term in ("ZERO", "HEX-FF", "END-OF-PDU"):
            for mn, mx in ((0, None), (unit, 4 * unit)):
                n += 1
                dop = D.SimpleDop(D.MinMax(bt, mn, mx, term, None, None if n % 2 else False), bt)
                yield D.Composite(f"N{n}", "request", [D.sid(), D.value("x", dop)] + ([] if term == "END-OF-PDU" else [D.value("y", D.u8())]))
        for bl in (8, 16):
            n += 1
            dop = D.SimpleDop(D.Leading(bt, bl, None, None if n % 2 else False), bt)
            yield D.Composite(f"N{n}", "request", [D.sid(), D.value("x", dop), D.value("y", D.u8())])
    for bt in ("A_BYTEFIELD", "A_ASCIISTRING", "A_UTF8STRING", "A_UNICODE2STRING", "A_UINT32", "A_INT32"):
        n += 1
        dop = D.SimpleDop(D.ParamLen(bt, "k", None, None if n % 2 else False), bt)
        yield D.Composite(f"N{n}", "request", [D.sid(), D.length_key("k", D.u8()), D.value("x", dop), D.value("y", D.u8())])


def atomic_family(ctx, drv, n):
    """atomic layer: emplace of malformed values (strict): accepted => extract returns the value; rejected => OdxError"""
    rng = ctx.sub_rng("atomic")
    cases = []
    for i in range(n):
        c = A.gen_emplace(rng, valid=(i % 4 == 0))
        c["strict"] = (i % 5 != 0)
        cases.append(c)
    impl = []
    with contextlib.redirect_stdout(io.StringIO()), contextlib.redirect_stderr(io.StringIO()):
        for c in cases:
            try:
                impl.append(A.run_case(c))
            except Exception as e:  # noqa
                impl.append(("(err foreign)", type(e).__name__))
    model = None
    if drv.available():
        try:
            model = drv.query([A.request_line(c) for c in cases])
        except Exception as e:  # noqa
            ctx.notes.append(f"atomic driver query failed: {e!r}"[:200])
    for k, c in enumerate(cases):
        r, exc = impl[k]
        ctx.case(json.dumps(c, sort_keys=True), nontrivial=True)
        ctx.histo("atomic_outcome", ("strict:" if c["strict"] else "lenient:") + (r.split(" ")[0] + (" " + r.split(" ")[1].rstrip(")") if r.startswith("(err") else "")))
        if model is not None:
            if model[k] in ("(unsupported)", "(bad-args)"):
                ctx.count("atomic_model_" + model[k].strip("()"))
            else:
                ctx.traces += 1
                if model[k] != r:
                    ctx.disagree("atomic", c, model[k], r + (f" [{exc}]" if exc else ""))
        if not c["strict"]:
            continue
        if c.get("mask") or (c["bl"] == 0 and c["bp"] != 0) or (c["bt"] not in ("A_INT32", "A_UINT32", "A_FLOAT32", "A_FLOAT64") and c["bp"] != 0):
            # a used-bits mask wider than the object, an empty object or a string/byte field at a bit position != 0 is a malformed
            # *description* (outside the envelope), not a malformed value
            ctx.count("atomic_outside_envelope(mask / bit position)")
            continue
        if r == "(err foreign)":
            legal = c["enc"] in A.LEGAL_ENC[c["bt"]]
            ctx.violate("only-odx-errors", ["atomic", c["bt"], "legal-encoding" if legal else "illegal-encoding"], "foreign:" + str(exc), c,
                        f"EncodeState.emplace_atomic_value raises {exc} for {c['bt']} {A.val_from_json(c['v'])!r:.60} in {c['bl']} bits")
            continue
        if not r.startswith("(ok") or "(warn t)" in r:
            continue
        # accepted in strict mode: extract must give the value back
        msg = r.split(" ")[1]
        e = {"op": "extract", "bt": c["bt"], "enc": c["enc"], "hl": c["hl"], "bl": c["bl"], "bp": c["bp"], "pos": c["pos"],
             "msg": "" if msg == "-" else msg, "strict": True}
        try:
            r2, exc2 = A.run_case(e)
        except Exception as ex:  # noqa
            r2, exc2 = "(err foreign)", type(ex).__name__
        v = A.val_from_json(c["v"])
        if c["bt"] == "A_FLOAT32" and isinstance(v, float):
            try:
                v = V.f32(v)
            except OverflowError:
                v = None
        want = A.val_to_sexp(v) if v is not None else "(?)"
        if isinstance(v, float) and float(v) == 0.0:
            pass
        got = r2[4:].split(" (cursor")[0] if r2.startswith("(ok ") else r2
        if c["bl"] == 0:
            continue
        if got != want and not (isinstance(v, (int, float)) and not isinstance(v, bool) and got == A.val_to_sexp(float(v)) and c["bt"].startswith("A_FLOAT")):
            ctx.violate("returns-requested-values", ["atomic", c["bt"], str(c["enc"])], "mismatch", {**c, "extracted": r2},
                        f"atomic emplace accepted {want} for {c['bt']}/{c['enc']} in {c['bl']} bits but extract returns {got}")
    ctx.sample({"atomic-request": A.request_line(cases[0]), "impl": impl[0][0]})


def compu_dop_family(ctx, n):
    """round 8: DATA-OBJECT-PROPs around compu methods of every category (C07's generator, loaded through the XML route): encode of the
    physical test values of C07, of the values at which the conversion fails for arithmetic reasons (poles of rational functions with a
    value-dependent denominator, see compu_lib.rejection_values), of NaN / infinities / huge numbers and of wrongly typed values; strict
    mode: the value is encoded or the rejection is an OdxError"""
    import math
    import compu_lib as CL
    rng = ctx.sub_rng("compu-dop")
    specials = [float("nan"), float("inf"), float("-inf"), 1e308, -1e308, 2 ** 64, -2 ** 63 - 1, 10 ** 400, None, "1", b"\x01", [1], True]
    with contextlib.redirect_stdout(io.StringIO()), contextlib.redirect_stderr(io.StringIO()):
        for i in range(n):
            cat = ("RAT-FUNC", "SCALE-RAT-FUNC", None, None)[i % 4]
            desc = CL.gen_desc(rng, cat)
            if not CL.xml_expressible(desc):
                ctx.count("compu_dop_not_xml_expressible")
                continue
            cm, dop, err = CL.load_xml(desc)
            if dop is None:
                ctx.count("compu_dop_not_loaded:" + str(err if cm is None else "string internal type"))
                continue
            ivs = CL.internal_values(rng, desc, False)
            imgs = [r[1] for r in (CL.call(cm, "i2p", x) for x in ivs) if r[0] == "ok"]
            poles = CL.rejection_values(desc)
            vals = [("pole", CL.pyval(v)) for v in poles] + [("physical", CL.pyval(v)) for v in CL.physical_values(rng, desc, imgs, False)[:24]] + \
                   [("special", x) for x in specials]
            for kind, x in vals:
                from odxtools.encodestate import EncodeState
                from odxtools.exceptions import OdxError
                ctx.histo("family", "compu-dop")
                outcome = "ok"
                try:
                    dop.encode_into_pdu(x, EncodeState(is_end_of_pdu=True))
                except OdxError:
                    outcome = "odxerror"
                except Exception as e:  # noqa
                    outcome = "foreign:" + type(e).__name__
                ctx.case(json.dumps([desc, kind, repr(x)], sort_keys=True, default=str), nontrivial=outcome != "ok")
                ctx.histo("compu-dop outcome", f"{kind}:{desc['cat']}:{outcome.split(':')[0]}")
                if outcome.startswith("foreign"):
                    ctx.violate("only-odx-errors", ["compu-dop", desc["cat"], kind, type(x).__name__], outcome,
                                {"compu_dop": desc, "value": repr(x), "kind": kind},
                                f"DataObjectProperty.encode_into_pdu({x!r}) of a {desc['cat']} DOP raises {outcome[8:]}, not an OdxError")


def run(ctx):
    big = ctx.tier == "thorough"
    rng = ctx.rng
    run_ = Run(ctx)
    # (a) corpus
    for tag, c, v, trig, feats in corpus():
        L, err = O.safe_load(c)
        if L is None:
            ctx.violate("loads", [tag], err.split(":")[0], O.witness(c, v, trig), f"corpus description {tag} is rejected by the loader: {err}")
            continue
        O.record_features(ctx, c)
        ctx.histo("family", "corpus")
        run_.case(c, L[c.name], v, trig, "corpus", "corpus:" + tag, fixed_features=feats, shrink=False,
                  what=f"corpus witness '{tag}' fails again")
    run_.corr.flush()
    # (b) exhaustive integer sweep
    integer_sweep(run_, 12 if big else 8)
    # (c) boundary values up to 64 bits for every standard-length integer DOP
    n_enum = 0
    bitlens = list(range(1, 65)) if big else sorted(set(V.BIAS_LENGTHS + [2, 4, 12, 24, 48] + rng.sample(range(1, 65), 4)))
    for comps in batches(G.enum_std_numeric(bitlens, bitposs=(0, 3) if not big else (0, 1, 5, 7)), 64):
        L, err = O.safe_load(comps)
        if L is None:
            ctx.count("documents_rejected_by_loader")
            continue
        for c in comps:
            dop = c.params[1].dop
            ctx.histo("family", "enum-std-integer")
            # (call histories: the candidates are tried in a different cyclic order on every description, so that every candidate is the
            #  first call somewhere; the first one is tried again at the end: same outcome, judged again)
            xs = M._int_bounds(dop)
            n_enum += 1
            xs = xs[n_enum % len(xs):] + xs[:n_enum % len(xs)]
            first = None
            for x in xs:
                _r, e = run_.case(c, L[c.name], {"x": x, "y": 0x5A}, None, "enum-std-integer", "value:int-boundary", shrink=False, corr=(x % 3 == 0 or not big))
                first = first or e
            run_.after(c, L[c.name], [("value:int-boundary", {"x": x, "y": 0x5A}) for x in xs], {"x": xs[0], "y": 0x5A}, None, "enum-std-integer",
                       "value:int-boundary", refs={vkey({"x": xs[0], "y": 0x5A}): first}, shrink=False, corr=False, done=True)
        run_.corr.flush()
    # (d) floats, strings, byte fields: every mutant
    for comps in batches(G.enum_std_other((0, 3)), 48):
        L, err = O.safe_load(comps)
        if L is None:
            ctx.count("documents_rejected_by_loader")
            continue
        vr = ctx.sub_rng("other")
        for c in comps:
            ctx.histo("family", "enum-std-float-string-bytes")
            try:
                v = {"x": V.gen_simple(vr, c.params[1].dop)[0], "y": 1}
            except V.Unsupported:
                continue
            enum_doc(run_, c, L[c.name], v, M.value_mutants(vr, c, v), "enum-std-float-string-bytes")
        run_.corr.flush()
    # (d') BIT-MASK (not condensed) on every maskable base type: every mutant, every mutant as the first call, ordered pairs
    for comps in batches(enum_std_masked(big), 48):
        L, err = O.safe_load(comps)
        if L is None:
            ctx.count("documents_rejected_by_loader")
            ctx.sample({"masked-rejected": err})
            continue
        vr = ctx.sub_rng("masked")
        for c in comps:
            ctx.histo("family", "enum-std-masked")
            O.record_features(ctx, c)
            dop = c.params[1].dop
            try:
                v = {"x": V.gen_simple(vr, dop)[0], "y": 1}
                w = {"x": V.gen_simple(vr, dop)[0], "y": 2}
            except V.Unsupported:
                ctx.count("value_generation_unsupported")
                continue
            enum_doc(run_, c, L[c.name], v, M.value_mutants(vr, c, v), "enum-std-masked", pairs=small_scope_values(dop, v, w))
        run_.corr.flush()
    # (d") the other diag coded type classes (the coded length depends on the value): every mutant, every mutant of x as the first call,
    #      ordered pairs
    for comps in batches(enum_other_dcts(), 48):
        L, err = O.safe_load(comps)
        if L is None:
            ctx.count("documents_rejected_by_loader")
            ctx.sample({"other-dcts-rejected": err})
            continue
        vr = ctx.sub_rng("other-dcts")
        for c in comps:
            ctx.histo("family", "enum-dct-history")
            O.record_features(ctx, c)
            dop = next(p.dop for p in c.params if p.name == "x")
            try:
                v, w = V.gen_value(vr, c), V.gen_value(vr, c)
                for _ in range(8):
                    if vkey(w["x"]) != vkey(v["x"]) and len(w["x"] if not isinstance(w["x"], int) else "") != len(v["x"] if not isinstance(v["x"], int) else "-"):
                        break
                    w = V.gen_value(vr, c)          # (a second valid value, of another length where there is one)
            except Exception:  # noqa
                ctx.count("value_generation_unsupported")
                continue
            enum_doc(run_, c, L[c.name], v, M.value_mutants(vr, c, v), "enum-dct-history", pairs=small_scope_values(dop, v, w))
        run_.corr.flush()
    # (e) random composites x mutants
    n_docs = 9000 if big else 1300
    for i in range(n_docs):
        prof = (G.THOROUGH if big else G.QUICK) if i % 4 else (G.SIMPLE_DEEP if big else G.SIMPLE)
        try:
            c = G.gen_composite(rng, profile=prof, name="C", depth=rng.choice([0, 1, 1, 2, prof.max_depth]))
        except Exception as e:  # noqa
            ctx.count("generator_error:" + type(e).__name__)
            continue
        run_doc(run_, c, "random-" + prof.tier, rng, 1 if i % 3 else 2, 60 if not big else 90, n_first=3 if not big else 6)
        if i % 100 == 99:
            run_.corr.flush()
    run_.corr.flush()
    # (f) atomic level
    atomic_family(ctx, ctx.driver("drv_codec"), 60000 if big else 8000)
    # (g) compu-method DOPs at the values where conversions fail
    compu_dop_family(ctx, 4000 if big else 500)


def replay(ctx, data):
    w = data["witness"]
    if "compu_dop" in w:
        import compu_lib as CL
        from odxtools.encodestate import EncodeState
        from odxtools.exceptions import OdxError
        cm, dop, err = CL.load_xml(w["compu_dop"])
        try:
            dop.encode_into_pdu(eval(w["value"], {"nan": float("nan"), "inf": float("inf")}), EncodeState(is_end_of_pdu=True))
        except OdxError:
            return True
        except Exception:  # noqa
            return False
        return True
    if "op" in w:
        r, exc = A.run_case(w)
        return r != "(err foreign)"
    c = D.from_json(w["desc"])
    L, err = O.safe_load(c)
    if L is None:
        return False
    v = V.from_jsonable(w.get("value"))
    trig = bytes.fromhex(w["trig"]) if w.get("trig") else None
    for hv in w.get("history") or []:          # the calls the same objects saw before (call-history schedules)
        O.impl_encode(L[c.name], V.from_jsonable(hv), trig)
    r, enc, dec = c04_eval(c, L[c.name], v, trig)
    return r is None


# --- W18 (nested tier, second part): VALUE leaves of all nine kinds (Props/C04Nested2.lean; relativised refinement statements OkW)
LEAN_TARGETS = LEAN_TARGETS + ["OdxVerif.Props.C04Nested2"]
THEOREMS = THEOREMS + [P + t for t in [
    "C04_nested", "C04_nested_never_foreign2", "C04_nested_accepts_iff2", "encodeMessage_nested2_cases", "DescribedP2.okW",
    "Obj.rejectsW", "PDesc.ofObjValue_okW", "PDesc.ofObjDefault_okW", "PDesc.ofValue_okW", "DDesc.struct_okW",
    "DDesc.staticField_okW", "DDesc.dynLenField_okW", "DDesc.eopField_okW", "DDesc.mux_okW",
    # STRUCTURE with BYTE-SIZE, LEADING-LENGTH leaf over A_BYTEFIELD, round-6 kinds outside the value-free class
    "DDesc.structBS_okW", "DDesc.structO_okW", "PDesc.ofLeadBytes_okW", "PDesc.ofLeadStr_okW", "encodeParam_leadStr_rej", "PDesc.ofMinMaxLastBytes_okW", "PDesc.ofMinMaxLastStr_okW", "encodeParam_minmaxStr_rej", "minmax_rest_rej", "encodeParam_minmaxBytes_rej",
    "encodeParam_matchingReq_rej",
    "C04_endmarker_collision_counterexample"]]


# --- W24 (conversion leaves: compu-method DOPs / DTC-DOPs in the rejection tier; Props/C04Nested3.lean)
LEAN_TARGETS = LEAN_TARGETS + ["OdxVerif.Props.C04Nested3"]
THEOREMS = THEOREMS + [P + t for t in [
    "C04_nested3_partial", "C04_nested3_accepts_iff", "DescribedP3.okW", "PDesc.ofConv_okW", "DtcShape.spec_ok", "DtcShape.pdesc_okW",
    "encodeDct_obj_bad", "encodeParam_value_missing", "C04_dtc_duplicate_code_counterexample", "cDesc_described",
    # LINEAR / TEXTTABLE DOPs: the model's conversion layer is state-free and fails only with library errors / unmodelled
    "dopP2I_plain", "dopI2P_plain", "CompuShape.spec_ok", "CompuShape.pdesc_okW", "CompuShape.ok_of_ttCheck", "CompuShape.ok_of_linCheck",
    "p2i_textTable_mem", "tMode_ok", "tTemp_ok", "tDesc_described"]]


# --- W30 (terminated MIN-MAX-LENGTH leaves in the rejection tier: flag-indexed OkWM; Props/C04Nested2b.lean)
LEAN_TARGETS = LEAN_TARGETS + ["OdxVerif.Props.C04Nested2b"]
THEOREMS = THEOREMS + [P + t for t in [
    "C04_nested2b", "C04_nested_accepts_iff2b", "encodeMessage_nested2b_cases", "DescribedP2b.okW", "PDesc.ofMinMaxMidBytes_okWM",
    "PDesc.ofMinMaxMidBytes_fill_isSome", "DDesc.structM_okW", "MDescs.rejWM", "MDescs.fill_someM", "DComp.structOfM_ok",
    "encodeMessage_structW_cases", "PDesc.OkW.toM", "MMShape.leaf_okMid", "MMShape.leaf_okFull", "wMs_described"]]


# --- W31 (terminated MIN-MAX-LENGTH leaves over the string base types; Props/C04Nested2c.lean)
LEAN_TARGETS = LEAN_TARGETS + ["OdxVerif.Props.C04Nested2c"]
THEOREMS = THEOREMS + [P + t for t in [
    "C04_nested2c", "C04_nested_accepts_iff2c", "encodeMessage_nested2c_cases", "DescribedP2c.okW", "PDesc.ofMinMaxMidStr_okWM",
    "PDesc.ofMinMaxMidStr_fill_isSome", "PDesc.IsMidLeaf.okWM", "MMStrShape.leaf_okMid", "MMStrShape.leaf_okFull",
    "MMStrShape.raw_even", "Text.utf16_encode_even", "x4Ms_described", "C04_minmax_unicode2_odd_max_counterexample",
    # DYNAMIC-ENDMARKER-FIELD, positive direction (Proofs/CompReject4EndMarker.lean)
    "C04_nested2c_endmarker", "C04_nested_accepts_iff2c_endmarker", "encodeMessage_describedM_cases", "DescribedM.okWM",
    "DDesc.endMarkerEop_okW", "DDesc.endMarkerMid_okWM", "PDesc.ofValue_okWM", "EmLayout.missD_of_constFirst",
    "EmLayout.miss_of_firstConst", "DDesc.fillItems_mem", "x4EmMs_described", "x4L_missD"]]
