"""C17 — strict mode is honoured everywhere and lenient mode changes nothing valid.

Also a worker:  python props/c17.py --worker <import_flag t|f> <load_flag t|f> <call_flag t|f>  < cases.jsonl > results.jsonl
(`import_flag f` installs an import hook that clears exceptions.strict_mode right after odxtools/exceptions.py has been
executed, i.e. *before* any other odxtools module is imported: a module that copies the flag at import time keeps `False`)."""
import json
import logging
import os
import signal
import subprocess
import sys
import warnings
from pathlib import Path

HERE = Path(__file__).resolve().parent.parent
if str(HERE) not in sys.path:
    sys.path.insert(0, str(HERE))

ID = "C17"
LEAN_TARGETS = ["OdxVerif.Props.C17", "OdxVerif.Props.C17Sites"]
DRIVERS = ["drv_codec", "drv_compu"]
P = "OdxVerif.Codec."
THEOREMS = [P + t for t in ["C17_same_result_encode", "C17_same_result_decode", "C17_catch_site", "C17_counterexamples", "C17_switch_immediate",
                            "sim_encode_all", "sim_decode_all", "C17_sites_accounted"]]
RULE = ("direct oracle: every operation (C01 valid encode/decode, C04 malformed values, C05 byte strings on generated descriptions; atomic "
        "emplace/extract; DiagLayer.decode / decode_response / DiagService.decode_message / Request+Response.decode on hand-made catch-site "
        "scenarios and on examples/somersault.pdx; VariantMatcher) is executed under the flag schedules (flag while loading the database, flag "
        "while calling): (t,t) (t,f) (f,t) (f,f), then strict again on the same objects (flip back), and in two fresh interpreters in which "
        "the flag was cleared before any odxtools module except exceptions.py was imported (call flag t / f); and under the opposite call history "
        "on fresh objects (first call non-strict, then strict, then non-strict). Round 3 families: ambiguous tables (TEXTTABLE with one text on two "
        "scales / two scales over one internal value, DTC-DOP with two DTCs of one trouble code) as corpus, as small scopes (every text and internal "
        "value of a generated table with one injected ambiguity), as variants of the generated descriptions (the table used by the value is made "
        "ambiguous) and as service-level scenarios (encode_request / encode_positive_response / Request+Response.encode+decode, PHYS-CONST in the "
        "cached prefix tree of a layer); direct calls of convert_physical_to_internal / convert_internal_to_physical on one object per generated "
        "compu method (all categories). Round 6 family key-protocol: LENGTH-KEY / TABLE-KEY parameters whose two-step protocol fails (a key nobody "
        "defines -- no user at all, two keys of which one is used, user in front of its key --, conflicting / invalid / wrongly typed explicit values, "
        "lengths the key cannot represent, a second item or user meeting the key of the first) enumerated over layouts x containers (request, "
        "responses, structure, nested structure, field items, MUX case) x key DOPs x user types x values, every value encoded and the PDUs of both "
        "modes + all short byte strings decoded, compared with drv_codec under both flags (the model carries the lenient continuation of every such "
        "problem); scenario undefined-length-key: the same through DiagService.encode_request / encode_positive_response / Request.encode / "
        "Response.encode with the user in another structure than its key. Round 7 family enum-dct-grid: ill-formed TYPE descriptions (every "
        "DIAG-CODED-TYPE kind x every base data type x legal and illegal sizes / encodings / bit masks / length limits, as VALUE, CODED-CONST, "
        "PHYS-CONST, in a structure), not filtered by loadability; for a description that strict mode refuses to load the whole oracle (both call "
        "histories, fresh interpreter) is evaluated on the objects of a non-strict load, the model's replies are compared with the results on those "
        "objects too, and 'the library reports a problem while loading in strict mode + the model reports it at every strict call + the objects of "
        "a non-strict load answer the strict call with a result' is a failing input. Violations: strict result ok and "
        "lenient result different; a result that depends on anything but the flag at the time of the call; re-enabling strict mode does not "
        "restore the error. Correspondence: the same encode/decode/emplace/extract lines with (strict t) and (strict f) against drv_codec. "
        "Table obligation: the regenerated list of catch sites and flag accesses equals the accounted list (Python comparison + Lean `decide`). "
        "distinct = distinct (operation, input); non-trivial = strict and lenient results differ or the operation is a catch-site scenario")
TRUSTED = ["harness/extract/catchsites.py (ast walker) — cross-checked: a handler or flag access it misses is only found by the differential runs",
           "the import hook of the worker (sets the flag between the execution of odxtools/exceptions.py and every other odxtools module)"]
ASSUMPTIONS = ["'identical result' = same PDU and warning flag / same decoded value tree (odxgen.values.norm) and cursor / same list of (service, coding "
               "object, parameters) / same matched variant; exceptions by class",
               "non-strict mode is allowed to do anything when strict mode raises (it may even raise a foreign exception); only 'strict succeeded' "
               "constrains the non-strict result, and 'strict raised an OdxError' must be restored by re-enabling strict mode",
               "a description that strict mode refuses to load and whose non-strictly loaded objects work in strict mode is not a violation by itself "
               "(load-time-only validations exist on the unchanged tree, e.g. MIN-MAX-LENGTH on A_INT32); it is one if the model reports the problem "
               "at every strict call (the problem was repaired once, while loading, instead of being downgraded call by call)",
               "the flag cannot be set before `import odxtools` without an import hook (the package imports all of its modules); the worker's hook is "
               "the earliest possible point",
               "cli/browse.py (interactive), cli/snoop.py (needs a CAN bus) are accounted by argument, not executed",
               "text tables, LINEAR compu methods and DTC-DOPs inside a DOP are followed by drv_codec in both modes (Model/CodecCompu.lean: every odxraise "
               "site of linearcompumethod.py / linearsegment.py / texttablecompumethod.py / dtcdop.py with its lenient continuation, e.g. 'first match' for an "
               "ambiguous table), so the ambiguity families are compared with the model under both flags; direct compu-method calls and the other compu "
               "categories have no counterpart in drv_codec (not forwarded): judged by the direct oracle only (the compu model is compared with the real "
               "code under both flags by C07)"]

logging.getLogger("odxtools").setLevel(logging.CRITICAL)


# ================================================================== accounted catch sites / flag accesses
#: (file, function, kind, detail, ordinal) -> (status, argument)   status: harmless | fixed | finding:<id>
ACCOUNTED = [
    (("cli/browse.py", "_validate_string_value", "except", "<bare>", 0),
     ("harmless", "interactive prompt validation (user input -> from_string); returns False on any exception; no odxraise'ing call is wrapped "
                  "whose lenient continuation is used; interactive CLI is outside the covered surface (DESIGN §5)")),
    (("cli/main.py", "<module>", "except", "Exception", 0),
     ("harmless", "guards `from . import browse` (optional dependency); nothing inside raises an OdxError")),
    (("cli/main.py", "start_cli", "flag-read", "odxtools.exceptions.strict_mode", 0),
     ("harmless", "saves the flag to restore it in `finally`; attribute access at call time, no copy at import")),
    (("cli/main.py", "start_cli", "flag-write", "odxtools.exceptions.strict_mode", 0),
     ("harmless", "sets the flag from --no-strict before the tool runs (attribute of the exceptions module, seen by odxraise immediately)")),
    (("cli/main.py", "start_cli", "flag-write", "odxtools.exceptions.strict_mode", 1),
     ("harmless", "restores the saved flag in `finally`")),
    (("cli/snoop.py", "handle_telegram", "except", "DecodeError", 0),
     ("finding:alternatives-by-decode-error", "tries every layer with DiagLayer.decode; same class as DiagLayer._decode: which layer 'can decode' "
                                              "depends on the mode; output only (print), not executed here")),
    (("cli/snoop.py", "handle_telegram", "except", "DecodeError", 1),
     ("finding:alternatives-by-decode-error", "as above for responses")),
    (("diaglayers/diaglayer.py", "DiagLayer._decode", "except", "DecodeError", 0),
     ("fixed", "around DiagService.decode_message: its only odxraise'd errors were 'cannot decode' (made an unconditional raise by "
               "fixes/c17-decode-message-no-candidate) and 'cannot uniquely decode' (known finding decode-message-ambiguous)")),
    (("diaglayers/diaglayer.py", "DiagLayer._decode", "except", "DecodeError", 1),
     ("finding:alternatives-by-decode-error", "around gnr.decode: a global negative response that strict mode skips because of an odxraise'd "
                                              "DecodeError is returned in addition by lenient mode (scenario two-gnr)")),
    (("diagservice.py", "DiagService.decode_message", "except", "DecodeError", 0),
     ("finding:alternatives-by-decode-error", "around coding_object.decode: a coding object that strict mode skips because of an odxraise'd "
                                              "DecodeError decodes in lenient mode; the message becomes ambiguous and the first candidate wins (scenario two-responses)")),
    (("dynamicendmarkerfield.py", "DynamicEndmarkerField.decode_from_pdu", "except", "DecodeError", 0),
     ("finding:end-marker-replacement-char", "probe of the termination DOP: an odxraise'd DecodeError (undecodable string) means 'no end marker' in strict "
                                             "mode; lenient mode compares the replaced string, which equals a termination value U+FFFD (contrived; "
                                             "every other odxraise'd error yields None != termination value: same control flow)")),
    (("odxtypes.py", "parse_int", "except", "Exception", 0),
     ("harmless", "wraps float(value) only, which cannot raise an OdxError; the handler odxraises itself (lenient: falls through to an unbound "
                  "variable = undefined lenient behaviour after a strict error, no strict success involved)")),
    (("variantmatcher.py", "VariantMatcher._ident_response_matches", "except", "DecodeError", 0),
     ("finding:alternatives-by-decode-error", "around response.decode: a response that strict mode skips (odxraise'd DecodeError, e.g. a physical "
                                              "constant mismatch) is evaluated by lenient mode and can match (scenario variant-phys-const)")),
]


def regen_sites(ctx):
    from extract import catchsites
    ctx.sites = catchsites.regen(ctx)


GENERATORS = [regen_sites]


def lean_rows(rows):
    def q(x):
        return '"' + str(x).replace("\\", "\\\\").replace('"', '\\"') + '"'
    return ",\n  ".join(f"({q(f)}, {q(fn)}, {q(k)}, {q(d)}, {n})" for (f, fn, k, d, n) in rows)


def check_sites(ctx):
    """table obligation in Python: scan == accounted; and the hand-written Lean list is the same list"""
    import common
    from extract import catchsites
    sites = getattr(ctx, "sites", None)
    if sites is None:
        sites = catchsites.scan(common.REPO)
    got = [catchsites.key(s) for s in sites]
    want = sorted(k for k, _ in ACCOUNTED)
    new = [k for k in got if k not in want]
    gone = [k for k in want if k not in got]
    ctx.obligation("C17_sites_accounted(python)", not new and not gone,
                   ("unaccounted: " + "; ".join(map(str, new)) if new else "") + (" vanished: " + "; ".join(map(str, gone)) if gone else ""))
    lean_file = common.LEAN / "OdxVerif" / "Props" / "C17Sites.lean"
    ok = lean_file.exists() and lean_rows(want) in lean_file.read_text()
    ctx.obligation("C17Sites.lean lists the accounted sites", ok, "" if ok else "lean/OdxVerif/Props/C17Sites.lean is out of date w.r.t. ACCOUNTED in harness/props/c17.py")
    ctx.histo("catch_sites", "total", len(got))
    for k, (st, _) in ACCOUNTED:
        ctx.histo("catch_site_status", st.split(":")[0])
    return new, gone


# ================================================================== executing one case (in-process and in the worker)
_DOCS = {}
# hang budget of one run: every hang costs one alarm period; code that is broken badly enough to hang on many inputs (e.g. a decoder that
# no longer rejects truncated messages in lenient mode) must not turn the run into a time-out. After 8 hangs the alarm period shrinks to 1 s,
# after 60 the remaining calls are skipped with the same token under every schedule (so no difference is invented); the hangs seen up
# to then are compared like any other result.
_HANGS = [0]


def _alarm_s():
    return 6 if _HANGS[0] < 8 else 1


def _budget_left():
    return _HANGS[0] < 60


class Hang(BaseException):
    pass


def _alarm(signum, frame):
    raise Hang()


def set_flag(v: bool):
    import odxtools.exceptions as ex
    ex.strict_mode = bool(v)


def get_flag() -> bool:
    import odxtools.exceptions as ex
    return ex.strict_mode


def classify(e):
    import codec_oracles as O
    return O.err_class(e)


def canon_messages(msgs):
    from odxgen import values as V
    out = []
    for m in msgs:
        co = getattr(m, "coding_object", None)
        out.append([getattr(getattr(m, "service", None), "short_name", None), getattr(co, "short_name", None), repr(V.norm(dict(getattr(m, "param_dict", {}) or {})))])
    return out


def load_comp(desc_json, load_flag, hist=""):
    """the odxtools object of a description, loaded while the flag has the given value (cached per flag and call history:
    the calls of one history tag share their objects, a new tag gets fresh ones)"""
    import codec_oracles as O
    from odxgen import desc as D
    key = (json.dumps(desc_json, sort_keys=True), load_flag, hist)
    if key not in _DOCS:
        set_flag(load_flag)
        c = D.from_json(desc_json)
        L, err = O.safe_load(c)
        _DOCS[key] = (c, L[c.name] if L is not None else None, err)
    return _DOCS[key]


def run_op(case, load_flag, call_flag, hist=""):
    """canonical result string of one case under a schedule; `hist` names the call history the objects belong to"""
    import codec_oracles as O
    from odxgen import values as V
    if not _budget_left():
        return "(skipped: hang budget of this run exhausted)"
    old = signal.signal(signal.SIGALRM, _alarm)
    keep = get_flag()
    try:
        op = case["op"]
        if op in ("encode", "decode"):
            c, obj, err = load_comp(case["desc"], load_flag, hist)
            if obj is None:
                return "load-error:" + str(err)[:60]
            set_flag(call_flag)
            signal.alarm(_alarm_s())
            if op == "encode":
                r = O.impl_encode(obj, V.from_jsonable(case["value"]), bytes.fromhex(case["trig"]) if case.get("trig") is not None else None)
                return O.reply_encode(r) if r.ok else "(err " + r.status + ")"
            r = O.impl_decode(obj, bytes.fromhex(case["pdu"]), timeout=max(1, _alarm_s() - 1))
            if r.ok:
                return O.reply_decode(r)
            if r.status == "hang":
                _HANGS[0] += 1
            return "(err " + r.status + ")"
        if op == "atomic":
            import atomic_lib as A
            c = dict(case["case"], strict=call_flag)
            set_flag(call_flag)
            signal.alarm(_alarm_s())
            r, exc = A.run_case(c)
            return r if exc is None or not r.startswith("(err foreign") else f"(err foreign:{exc})"
        if op == "scenario":
            return run_scenario(case, load_flag, call_flag, hist)
        if op == "compu":
            import compu_lib as CL
            key = ("compu", json.dumps(case["desc"], sort_keys=True), load_flag, hist)
            if key not in _DOCS:
                set_flag(load_flag)
                _DOCS[key] = CL.try_build(case["desc"])
            cm, berr = _DOCS[key]
            if cm is None:
                return "build-error:" + str(berr)
            set_flag(call_flag)
            signal.alarm(_alarm_s())
            r = CL.call(cm, case["dir"], case["v"])
            return "ok " + json.dumps(r[1]) if r[0] == "ok" else "(err " + str(r[1]) + ")"
        if op == "somersault":
            return run_somersault(case, load_flag, call_flag, hist)
        return "bad-op"
    except Hang:
        _HANGS[0] += 1
        return "(err hang)"
    except Exception as e:  # noqa
        return "(err " + classify(e) + ")"
    finally:
        signal.alarm(0)
        signal.signal(signal.SIGALRM, old)
        set_flag(keep)


# ------------------------------------------------------------------ catch-site scenarios (hand-made XML)
XSI = 'xmlns:xsi="http://www.w3.org/2001/XMLSchema-instance"'
IDENT = "<COMPU-METHOD><CATEGORY>IDENTICAL</CATEGORY></COMPU-METHOD>"


def _dct(bt="A_UINT32", bl=8):
    return f'<DIAG-CODED-TYPE BASE-DATA-TYPE="{bt}" xsi:type="STANDARD-LENGTH-TYPE"><BIT-LENGTH>{bl}</BIT-LENGTH></DIAG-CODED-TYPE>'


def _const(name, val, bl=8):
    return f'<PARAM xsi:type="CODED-CONST"><SHORT-NAME>{name}</SHORT-NAME><CODED-VALUE>{val}</CODED-VALUE>{_dct("A_UINT32", bl)}</PARAM>'


def _value(name, dop):
    return f'<PARAM xsi:type="VALUE"><SHORT-NAME>{name}</SHORT-NAME><DOP-REF ID-REF="{dop}"/></PARAM>'


def _physconst(name, dop, v):
    return f'<PARAM xsi:type="PHYS-CONST"><SHORT-NAME>{name}</SHORT-NAME><PHYS-CONSTANT-VALUE>{v}</PHYS-CONSTANT-VALUE><DOP-REF ID-REF="{dop}"/></PARAM>'


def _matchreq(name, pos, n):
    return (f'<PARAM xsi:type="MATCHING-REQUEST-PARAM"><SHORT-NAME>{name}</SHORT-NAME><REQUEST-BYTE-POS>{pos}</REQUEST-BYTE-POS>'
            f'<BYTE-LENGTH>{n}</BYTE-LENGTH></PARAM>')


def _nrc(name, vals):
    return (f'<PARAM xsi:type="NRC-CONST"><SHORT-NAME>{name}</SHORT-NAME><CODED-VALUES>' + "".join(f"<CODED-VALUE>{v}</CODED-VALUE>" for v in vals)
            + f'</CODED-VALUES>{_dct()}</PARAM>')


def _texttable_dop(id_, scales, bl=8):
    sc = "".join(f'<COMPU-SCALE><LOWER-LIMIT>{lo}</LOWER-LIMIT><UPPER-LIMIT>{hi}</UPPER-LIMIT><COMPU-CONST><VT>{t}</VT></COMPU-CONST></COMPU-SCALE>'
                 for lo, hi, t in scales)
    return (f'<DATA-OBJECT-PROP ID="{id_}"><SHORT-NAME>{id_}</SHORT-NAME><COMPU-METHOD><CATEGORY>TEXTTABLE</CATEGORY><COMPU-INTERNAL-TO-PHYS><COMPU-SCALES>'
            f'{sc}</COMPU-SCALES></COMPU-INTERNAL-TO-PHYS></COMPU-METHOD>{_dct("A_UINT32", bl)}<PHYSICAL-TYPE BASE-DATA-TYPE="A_UNICODE2STRING"/></DATA-OBJECT-PROP>')


DOPS = (f'<DATA-OBJECT-PROP ID="u8"><SHORT-NAME>u8</SHORT-NAME>{IDENT}{_dct()}<PHYSICAL-TYPE BASE-DATA-TYPE="A_UINT32"/></DATA-OBJECT-PROP>'
        + _texttable_dop("onoff", [(0, 0, "off"), (1, 1, "on")])
        + f'<DATA-OBJECT-PROP ID="utf8"><SHORT-NAME>utf8</SHORT-NAME>{IDENT}{_dct("A_UTF8STRING", 8)}<PHYSICAL-TYPE BASE-DATA-TYPE="A_UNICODE2STRING"/></DATA-OBJECT-PROP>'
        # ambiguous tables (round 3): the same text on two scales (physical -> internal is ambiguous), two scales over the same internal value
        + _texttable_dop("duptext", [(0, 0, "off"), (1, 1, "on"), (2, 2, "on")])
        + _texttable_dop("overlap", [(0, 1, "low"), (1, 2, "high")]))


def _msg(tag, id_, params):
    return f'<{tag} ID="{id_}"><SHORT-NAME>{id_}</SHORT-NAME><PARAMS>{"".join(params)}</PARAMS></{tag}>'


def _svc(id_, req, pos=(), neg=()):
    pr = "".join(f'<POS-RESPONSE-REF ID-REF="{x}"/>' for x in pos)
    nr = "".join(f'<NEG-RESPONSE-REF ID-REF="{x}"/>' for x in neg)
    return (f'<DIAG-SERVICE ID="{id_}"><SHORT-NAME>{id_}</SHORT-NAME><REQUEST-REF ID-REF="{req}"/>'
            + (f"<POS-RESPONSE-REFS>{pr}</POS-RESPONSE-REFS>" if pr else "") + (f"<NEG-RESPONSE-REFS>{nr}</NEG-RESPONSE-REFS>" if nr else "") + "</DIAG-SERVICE>")


def _layer(name, kind, services, requests, pos=(), neg=(), gneg=(), extra_ddds="", tail=""):
    ddds = f'<DIAG-DATA-DICTIONARY-SPEC><DATA-OBJECT-PROPS>{DOPS}</DATA-OBJECT-PROPS>{extra_ddds}</DIAG-DATA-DICTIONARY-SPEC>'
    return (f'<{kind} ID="{name}"><SHORT-NAME>{name}</SHORT-NAME>{ddds}<DIAG-COMMS>{"".join(services)}</DIAG-COMMS><REQUESTS>{"".join(requests)}</REQUESTS>'
            + (f'<POS-RESPONSES>{"".join(pos)}</POS-RESPONSES>' if pos else "") + (f'<NEG-RESPONSES>{"".join(neg)}</NEG-RESPONSES>' if neg else "")
            + (f'<GLOBAL-NEG-RESPONSES>{"".join(gneg)}</GLOBAL-NEG-RESPONSES>' if gneg else "") + tail + f'</{kind}>')


def _doc(layers_by_kind):
    body = "".join(f"<{tag}>{''.join(layers_by_kind[k])}</{tag}>" for k, tag in (("BASE-VARIANT", "BASE-VARIANTS"), ("ECU-VARIANT", "ECU-VARIANTS")) if layers_by_kind.get(k))
    return f'<?xml version="1.0"?><ODX MODEL-VERSION="2.2.0" {XSI}><DIAG-LAYER-CONTAINER ID="dlc"><SHORT-NAME>dlc</SHORT-NAME>{body}</DIAG-LAYER-CONTAINER></ODX>'


def scenario_xml(name):
    if name == "two-responses":        # DiagService.decode_message: candidate PR1 fails with an odxraise'd DecodeError, PR2 decodes
        return _doc({"BASE-VARIANT": [_layer("L", "BASE-VARIANT", [_svc("S", "RQ", pos=["PR1", "PR2"])], [_msg("REQUEST", "RQ", [_const("sid", 0x22)])],
                                             pos=[_msg("POS-RESPONSE", "PR1", [_const("sid", 0x62), _value("b", "onoff")]),
                                                  _msg("POS-RESPONSE", "PR2", [_const("sid", 0x62), _value("a", "u8")])])]})
    if name == "no-candidate-gnr":     # DiagLayer._decode: the service cannot decode (NRC mismatch), a global negative response can
        return _doc({"BASE-VARIANT": [_layer("L", "BASE-VARIANT", [_svc("S", "RQ", neg=["NR"])], [_msg("REQUEST", "RQ", [_const("sid", 0x22)])],
                                             neg=[_msg("NEG-RESPONSE", "NR", [_const("sid", 0x7F), _matchreq("rsid", 0, 1), _nrc("nrc", [0x31, 0x33])])],
                                             gneg=[_msg("GLOBAL-NEG-RESPONSE", "GNR", [_const("sid", 0x7F), _value("rsid", "u8"), _value("code", "u8")])])]})
    if name == "two-services":         # DiagLayer._decode: first candidate service cannot decode, the second can
        return _doc({"BASE-VARIANT": [_layer("L", "BASE-VARIANT", [_svc("S1", "RQ1", neg=["NR1"]), _svc("S2", "RQ2", neg=["NR2"])],
                                             [_msg("REQUEST", "RQ1", [_const("sid", 0x22)]), _msg("REQUEST", "RQ2", [_const("sid", 0x22), _value("x", "u8")])],
                                             neg=[_msg("NEG-RESPONSE", "NR1", [_const("sid", 0x7F), _matchreq("rsid", 0, 1), _nrc("nrc", [0x31])]),
                                                  _msg("NEG-RESPONSE", "NR2", [_const("sid", 0x7F), _matchreq("rsid", 0, 1), _value("code", "u8")])])]})
    if name == "two-gnr":              # DiagLayer._decode inner handler: GNR1 fails with an odxraise'd error, GNR2 decodes
        return _doc({"BASE-VARIANT": [_layer("L", "BASE-VARIANT", [_svc("S", "RQ", neg=["NR"])], [_msg("REQUEST", "RQ", [_const("sid", 0x22)])],
                                             neg=[_msg("NEG-RESPONSE", "NR", [_const("sid", 0x7F), _matchreq("rsid", 0, 1), _nrc("nrc", [0x31])])],
                                             gneg=[_msg("GLOBAL-NEG-RESPONSE", "GNR1", [_const("sid", 0x7F), _value("rsid", "u8"), _value("state", "onoff")]),
                                                   _msg("GLOBAL-NEG-RESPONSE", "GNR2", [_const("sid", 0x7F), _value("rsid", "u8"), _value("code", "u8")])])]})
    if name == "ambiguous":            # decode_message: two coding objects decode -> 'cannot uniquely decode' (odxraise)
        return _doc({"BASE-VARIANT": [_layer("L", "BASE-VARIANT", [_svc("S1", "RQ1", pos=["PRa", "PRb"]), _svc("S2", "RQ2", pos=["PRc"])],
                                             [_msg("REQUEST", "RQ1", [_const("sid", 0x22)]), _msg("REQUEST", "RQ2", [_const("sid", 0x22), _value("x", "u8")])],
                                             pos=[_msg("POS-RESPONSE", "PRa", [_const("sid", 0x62), _value("a", "u8")]),
                                                  _msg("POS-RESPONSE", "PRb", [_const("sid", 0x62), _value("b", "u8")]),
                                                  _msg("POS-RESPONSE", "PRc", [_const("sid", 0x62), _value("c", "u8")])])]})
    if name == "variant-phys-const":   # VariantMatcher._ident_response_matches: PHYS-CONST mismatch (odxraise) before the ident parameter
        pat = ('<ECU-VARIANT-PATTERNS><ECU-VARIANT-PATTERN><MATCHING-PARAMETERS><MATCHING-PARAMETER><EXPECTED-VALUE>42</EXPECTED-VALUE>'
               '<DIAG-COMM-SNREF SHORT-NAME="ident"/><OUT-PARAM-IF-SNREF SHORT-NAME="id"/></MATCHING-PARAMETER></MATCHING-PARAMETERS>'
               '</ECU-VARIANT-PATTERN></ECU-VARIANT-PATTERNS>')
        return _doc({"ECU-VARIANT": [_layer("EV", "ECU-VARIANT", [_svc("ident", "RQ", pos=["PR"])], [_msg("REQUEST", "RQ", [_const("sid", 0x22), _const("did", 0xF1)])],
                                            pos=[_msg("POS-RESPONSE", "PR", [_const("sid", 0x62), _physconst("c", "u8", 5), _value("id", "u8")])], tail=pat)]})
    if name == "dup-texttable":        # table ambiguities (odxraise'd 'could not uniquely encode/decode') reached through the service API
        return _doc({"BASE-VARIANT": [_layer("L", "BASE-VARIANT", [_svc("S", "RQ", pos=["PR"])],
                                             [_msg("REQUEST", "RQ", [_const("sid", 0x22), _value("b", "duptext"), _value("x", "u8")])],
                                             pos=[_msg("POS-RESPONSE", "PR", [_const("sid", 0x62), _value("r", "overlap"), _value("t", "duptext")])])]})
    if name == "cached-prefix-tree":   # DiagLayer._prefix_tree (functools.cached_property): the coded prefix of service S contains a PHYS-CONST which
        # cannot be encoded uniquely -- strict mode reports that while the tree is built (and caches nothing), non-strict mode builds and caches the tree
        return _doc({"BASE-VARIANT": [_layer("L", "BASE-VARIANT", [_svc("S", "RQ", pos=["PR"]), _svc("T", "RQT")],
                                             [_msg("REQUEST", "RQ", [_const("sid", 0x22), _physconst("c", "duptext", "on"), _value("x", "u8")]),
                                              _msg("REQUEST", "RQT", [_const("sid", 0x23), _value("x", "u8")])],
                                             pos=[_msg("POS-RESPONSE", "PR", [_const("sid", 0x62), _value("a", "u8")])])]})
    if name == "physconst-dup":        # the same ambiguous PHYS-CONST without going through the prefix tree of the layer
        return _doc({"BASE-VARIANT": [_layer("L", "BASE-VARIANT", [_svc("S", "RQ", pos=["PR"])],
                                             [_msg("REQUEST", "RQ", [_const("sid", 0x22), _physconst("c", "duptext", "on"), _value("x", "u8")])],
                                             pos=[_msg("POS-RESPONSE", "PR", [_const("sid", 0x62), _value("a", "u8")])])]})
    if name == "undefined-length-key":  # round 6: LENGTH-KEYs which nobody defines, reached through the public encode entry points. The key dictionaries
        # are global per PDU and the reference is an ODXLINK, so the user may live in another structure than the key: S -- the user is the item of an
        # END-OF-PDU-FIELD behind the key (no item: nobody defines the key; two items: the second meets the length of the first); O -- a key nobody
        # uses, in the request and in the response; N -- the key is in a nested structure and its user *behind* that structure (the structure writes
        # its keys when it is done: "has not been defined before it is required"); M -- the user is in one case of a MUX
        def key(id_, name, dop="u8"):
            return f'<PARAM xsi:type="LENGTH-KEY" ID="{id_}"><SHORT-NAME>{name}</SHORT-NAME><DOP-REF ID-REF="{dop}"/></PARAM>'

        def plen(id_, keyid):
            return (f'<DATA-OBJECT-PROP ID="{id_}"><SHORT-NAME>{id_}</SHORT-NAME>{IDENT}<DIAG-CODED-TYPE BASE-DATA-TYPE="A_BYTEFIELD" '
                    f'xsi:type="PARAM-LENGTH-INFO-TYPE"><LENGTH-KEY-REF ID-REF="{keyid}"/></DIAG-CODED-TYPE><PHYSICAL-TYPE BASE-DATA-TYPE="A_BYTEFIELD"/></DATA-OBJECT-PROP>')

        def struct(id_, params):
            return f'<STRUCTURE ID="{id_}"><SHORT-NAME>{id_}</SHORT-NAME><PARAMS>{"".join(params)}</PARAMS></STRUCTURE>'
        global DOPS
        keep = DOPS
        DOPS = keep + plen("plS", "RQ.k") + plen("plN", "stN.k") + plen("plM", "RQM.k")
        try:
            ddds = ('<STRUCTURES>' + struct("stS", [_value("x", "plS")]) + struct("stN", [key("stN.k", "k"), _value("a", "u8")])
                    + struct("stM1", [_value("x", "plM")]) + struct("stM2", [_value("a", "u8")]) + '</STRUCTURES>'
                    '<END-OF-PDU-FIELDS><END-OF-PDU-FIELD ID="eopS"><SHORT-NAME>eopS</SHORT-NAME><BASIC-STRUCTURE-REF ID-REF="stS"/></END-OF-PDU-FIELD></END-OF-PDU-FIELDS>'
                    '<MUXS><MUX ID="muxM"><SHORT-NAME>muxM</SHORT-NAME><BYTE-POSITION>1</BYTE-POSITION><SWITCH-KEY><BYTE-POSITION>0</BYTE-POSITION>'
                    '<DATA-OBJECT-PROP-REF ID-REF="u8"/></SWITCH-KEY><CASES>'
                    '<CASE><SHORT-NAME>c1</SHORT-NAME><STRUCTURE-REF ID-REF="stM1"/><LOWER-LIMIT>1</LOWER-LIMIT><UPPER-LIMIT>1</UPPER-LIMIT></CASE>'
                    '<CASE><SHORT-NAME>c2</SHORT-NAME><STRUCTURE-REF ID-REF="stM2"/><LOWER-LIMIT>2</LOWER-LIMIT><UPPER-LIMIT>2</UPPER-LIMIT></CASE></CASES></MUX></MUXS>')
            return _doc({"BASE-VARIANT": [_layer(
                "L", "BASE-VARIANT", [_svc("S", "RQ", pos=["PR"]), _svc("O", "RQO", pos=["PRO"]), _svc("N", "RQN"), _svc("M", "RQM")],
                [_msg("REQUEST", "RQ", [_const("sid", 0x22), key("RQ.k", "k"), _value("f", "eopS")]),
                 _msg("REQUEST", "RQO", [_const("sid", 0x23), key("RQO.k", "k"), _value("y", "u8")]),
                 _msg("REQUEST", "RQN", [_const("sid", 0x24), _value("s", "stN"), _value("x", "plN")]),
                 _msg("REQUEST", "RQM", [_const("sid", 0x25), key("RQM.k", "k"), _value("m", "muxM")])],
                pos=[_msg("POS-RESPONSE", "PR", [_const("sid", 0x62), _value("a", "u8")]),
                     _msg("POS-RESPONSE", "PRO", [_const("sid", 0x63), _value("y", "u8"), key("PRO.k", "k")])], extra_ddds=ddds)]})
        finally:
            DOPS = keep
    raise KeyError(name)


def _kwargs(a):
    """keyword arguments of a scenario entry: {"$b": hex} stands for bytes, {"$t": [...]} for a tuple (JSON has neither)"""
    if isinstance(a, dict):
        if set(a) == {"$b"}:
            return bytes.fromhex(a["$b"])
        if set(a) == {"$t"}:
            return tuple(_kwargs(x) for x in a["$t"])
        return {k: _kwargs(v) for k, v in a.items()}
    if isinstance(a, list):
        return [_kwargs(x) for x in a]
    return a


SCENARIOS = {
    # name: list of (entry, args)
    "two-responses": [("layer.decode", ["6205"]), ("layer.decode", ["6201"]), ("svc.decode_message:S", ["6205"]), ("svc.decode_message:S", ["6200"]),
                      ("layer.decode_response", ["6205", "22"]), ("layer.decode", ["62"]), ("layer.decode", ["22"])],
    "no-candidate-gnr": [("layer.decode", ["7f2211"]), ("layer.decode", ["7f2231"]), ("svc.decode_message:S", ["7f2211"]), ("layer.decode_response", ["7f2211", "22"]),
                         ("layer.decode", ["7f22"]), ("layer.decode", ["7f"])],
    "two-services": [("layer.decode", ["7f2211"]), ("layer.decode", ["7f2231"]), ("layer.decode", ["2201"]), ("layer.decode", ["22"])],
    "two-gnr": [("layer.decode", ["7f2205"]), ("layer.decode", ["7f2201"]), ("layer.decode", ["7f2231"])],
    "ambiguous": [("layer.decode", ["6207"]), ("svc.decode_message:S1", ["6207"]), ("svc.decode_message:S2", ["6207"])],
    "variant-phys-const": [("variant-match", ["62072a"]), ("variant-match", ["62052a"]), ("variant-match", ["620509"]), ("variant-match", ["62"])],
    # round 3: arguments which are dicts are keyword arguments of the encode entry points
    "dup-texttable": [("svc.encode_request:S", [{"b": "on", "x": 5}]), ("svc.encode_request:S", [{"b": "off", "x": 5}]), ("request.encode:S", [{"b": "on", "x": 1}]),
                      ("svc.encode_positive_response:S", ["220105", {"r": "low", "t": "on"}]), ("svc.encode_positive_response:S", ["220105", {"r": "high", "t": "off"}]),
                      ("response.encode:S:PR", ["220105", {"r": "low", "t": "on"}]),
                      ("layer.decode", ["220105"]), ("layer.decode", ["220205"]), ("layer.decode", ["620100"]), ("layer.decode", ["620000"]), ("layer.decode", ["620201"]),
                      ("svc.decode_message:S", ["620100"]), ("response.decode:S:PR", ["620100"]), ("response.decode:S:PR", ["620002"]), ("request.decode:S", ["220205"]),
                      ("layer.decode_response", ["620100", "220105"])],
    "cached-prefix-tree": [("layer.decode", ["2305"]), ("layer.decode", ["220105"]), ("layer.decode", ["6207"]), ("layer.decode_response", ["6207", "2305"])],
    # round 6: (the same assignments through DiagService.encode_request and Request.encode / Response.encode, and what the PDUs decode to)
    "undefined-length-key": [(e, [kw]) for kw in ({"f": []}, {"f": [{"x": {"$b": "0102"}}]}, {"f": [{"x": {"$b": "0102"}}, {"x": {"$b": "03"}}]}, {"k": 16, "f": []},
                                                   {"k": 8, "f": [{"x": {"$b": "0102"}}]}, {"k": None, "f": []})
                             for e in ("svc.encode_request:S", "request.encode:S")]
                            + [(e, [kw]) for kw in ({"y": 1}, {"y": 1, "k": 16}, {"y": 1, "k": None}, {"y": 1, "k": "16"}, {}, {"k": 8}, {"y": 1, "zz": 2}, {"y": 1, "k": 8, "K": 8})
                               for e in ("svc.encode_request:O", "request.encode:O")]
                            + [(e, ["2301", kw]) for kw in ({"y": 1}, {"y": 1, "k": 8}) for e in ("svc.encode_positive_response:O", "response.encode:O:PRO")]
                            + [(e, [kw]) for kw in ({"s": {"a": 1}, "x": {"$b": "0102"}}, {"s": {"a": 1, "k": 16}, "x": {"$b": "0102"}}, {"s": {"a": 1, "k": 8}, "x": {"$b": "0102"}},
                                                    {"s": {"a": 1}, "x": {"$b": ""}})
                               for e in ("svc.encode_request:N", "request.encode:N")]
                            + [(e, [kw]) for kw in ({"m": {"$t": ["c1", {"x": {"$b": "0102"}}]}}, {"m": {"$t": ["c2", {"a": 5}]}}, {"k": 8, "m": {"$t": ["c2", {"a": 5}]}},
                                                    {"k": 8, "m": {"$t": ["c1", {"x": {"$b": "0102"}}]}})
                               for e in ("svc.encode_request:M", "request.encode:M")]
                            + [("layer.decode", [h]) for h in ("2200", "22100102", "220801", "2310", "230001", "24000101", "2410010102", "25100101 02".replace(" ", ""), "25000205", "250802")]
                            + [("request.decode:S", ["22100102"]), ("request.decode:N", ["2410010102"]), ("response.decode:O:PRO", ["630100"]), ("svc.decode_message:M", ["25000205"])],
    "physconst-dup": [("svc.encode_request:S", [{"x": 5}]), ("request.encode:S", [{"x": 5}]), ("request.decode:S", ["220105"]), ("request.decode:S", ["220205"]),
                      ("svc.decode_message:S", ["220105"]), ("svc.decode_message:S", ["6207"]), ("response.encode:S:PR", ["220105", {"a": 7}])],
}


def load_scenario(name, load_flag, hist=""):
    from xml.etree import ElementTree as ET
    key = ("scenario", name, load_flag, hist)
    if key not in _DOCS:
        from odxtools.database import Database
        set_flag(load_flag)
        with warnings.catch_warnings():
            warnings.simplefilter("ignore")
            db = Database()
            db._process_xml_tree(ET.fromstring(scenario_xml(name)))
            db.refresh()
        _DOCS[key] = db
    return _DOCS[key]


def run_scenario(case, load_flag, call_flag, hist=""):
    db = load_scenario(case["name"], load_flag, hist)
    dl = db.diag_layers[0]
    entry, args = case["entry"], [bytes.fromhex(a) if isinstance(a, str) else _kwargs(a) for a in case["args"]]
    set_flag(call_flag)
    signal.alarm(_alarm_s())
    with warnings.catch_warnings():
        warnings.simplefilter("ignore")
        from odxgen import values as V
        part = entry.split(":")
        if part[0] == "svc.encode_request":
            return "ok " + bytes(dl.services[part[1]].encode_request(**args[0])).hex()
        if part[0] == "svc.encode_positive_response":
            return "ok " + bytes(dl.services[part[1]].encode_positive_response(args[0], 0, **args[1])).hex()
        if part[0] == "request.encode":
            return "ok " + bytes(dl.services[part[1]].request.encode(**args[0])).hex()
        if part[0] == "request.decode":
            return "ok " + repr(V.norm(dl.services[part[1]].request.decode(args[0])))
        if part[0] in ("response.encode", "response.decode"):
            svc = dl.services[part[1]]
            r = [x for x in list(svc.positive_responses) + list(svc.negative_responses) if x.short_name == part[2]][0]
            if part[0] == "response.encode":
                return "ok " + bytes(r.encode(args[0], **args[1])).hex()
            return "ok " + repr(V.norm(r.decode(args[0])))
        if entry == "layer.decode":
            return "ok " + json.dumps(canon_messages(dl.decode(args[0])))
        if entry == "layer.decode_response":
            return "ok " + json.dumps(canon_messages(dl.decode_response(args[0], args[1])))
        if entry.startswith("svc.decode_message:"):
            return "ok " + json.dumps(canon_messages([dl.services[entry.split(":")[1]].decode_message(args[0])]))
        if entry == "variant-match":
            from odxtools.variantmatcher import VariantMatcher
            m = VariantMatcher(variant_candidates=[dl], use_cache=False)
            n = 0
            for _phys, _rq in m.request_loop():
                m.evaluate(args[0])
                n += 1
            return "ok " + json.dumps([m.has_match(), getattr(m.matching_variant, "short_name", None), n])
    return "bad-entry"


def load_somersault(load_flag, hist=""):
    key = ("somersault", load_flag, hist)
    if key not in _DOCS:
        import common
        import odxtools
        set_flag(load_flag)
        with warnings.catch_warnings():
            warnings.simplefilter("ignore")
            _DOCS[key] = odxtools.load_pdx_file(str(common.REPO / "examples" / "somersault.pdx"))
    return _DOCS[key]


def run_somersault(case, load_flag, call_flag, hist=""):
    db = load_somersault(load_flag, hist)
    dl = db.diag_layers[case["layer"]]
    msg = bytes.fromhex(case["pdu"])
    set_flag(call_flag)
    signal.alarm(_alarm_s())
    with warnings.catch_warnings():
        warnings.simplefilter("ignore")
        e = case["entry"]
        if e == "layer.decode":
            return "ok " + json.dumps(canon_messages(dl.decode(msg)))
        if e == "layer.decode_response":
            return "ok " + json.dumps(canon_messages(dl.decode_response(msg, bytes.fromhex(case["request"]))))
        svc = dl.services[case["service"]]
        if e == "svc.decode_message":
            return "ok " + json.dumps(canon_messages([svc.decode_message(msg)]))
        from odxgen import values as V
        if e == "request.decode":
            return "ok " + repr(V.norm(svc.request.decode(msg)))
        if e == "response.decode":
            r = [x for x in list(svc.positive_responses) + list(svc.negative_responses) if x.short_name == case["object"]][0]
            return "ok " + repr(V.norm(r.decode(msg)))
    return "bad-entry"


# ================================================================== worker
def install_import_hook():
    import importlib.abc
    import importlib.machinery

    class Hook(importlib.abc.MetaPathFinder):
        def find_spec(self, name, path, target=None):
            if name != "odxtools.exceptions":
                return None
            spec = importlib.machinery.PathFinder.find_spec(name, path)
            if spec is None or spec.loader is None:
                return None
            orig = spec.loader.exec_module

            def exec_module(module, _orig=orig):
                _orig(module)
                module.strict_mode = False      # before any other odxtools module sees it

            spec.loader.exec_module = exec_module
            return spec
    sys.meta_path.insert(0, Hook())


def worker_main(argv):
    import_flag, load_flag, call_flag = (a == "t" for a in argv)
    if not import_flag:
        install_import_hook()
    import common
    common.import_repo()
    import odxtools.exceptions as ex
    assert ex.strict_mode == import_flag, "import hook failed"
    logging.getLogger("odxtools").setLevel(logging.CRITICAL)
    out = sys.stdout
    sys.stdout = open(os.devnull, "w")
    for line in sys.stdin:
        line = line.strip()
        if line:
            try:
                r = run_op(json.loads(line), load_flag, call_flag)
            except BaseException as e:  # noqa
                r = "(err worker:" + type(e).__name__ + ")"
            out.write(json.dumps(r) + "\n")
    out.flush()


def run_worker(cases, import_flag, load_flag, call_flag, repo):
    env = dict(os.environ, ODX_REPO=str(repo))
    f = lambda b: "t" if b else "f"
    p = subprocess.run([sys.executable, str(Path(__file__).resolve()), "--worker", f(import_flag), f(load_flag), f(call_flag)],
                       input="\n".join(json.dumps(c) for c in cases) + "\n", capture_output=True, text=True, env=env, timeout=3000)
    lines = p.stdout.splitlines()
    if p.returncode != 0 or len(lines) != len(cases):
        raise RuntimeError(f"worker rc={p.returncode} {len(lines)}/{len(cases)} results: {p.stderr[-400:]}")
    return [json.loads(l) for l in lines]


# ================================================================== the check
def is_ok(r):
    return r.startswith("(ok") or r.startswith("ok ")


def is_odx_error(r):
    return r.startswith("(err ") and not r.startswith("(err foreign") and not r.startswith("(err hang") and not r.startswith("(err worker")


def op_features(case):
    if case["op"] in ("encode", "decode"):
        import codec_oracles as O
        from odxgen import desc as D
        try:
            c = D.from_json(case["desc"])
            extra = ["termination-value:U+FFFD"] if any(isinstance(p.dop, D.EndMarkerField) and isinstance(p.dop.term, str) and "\ufffd" in p.dop.term
                                                       for p, _ in D.walk_params(c.params)) else []
            return [case["op"]] + O.narrow_features(c, extra)
        except Exception:  # noqa
            return [case["op"]]
    if case["op"] == "atomic":
        return ["atomic", case["case"]["op"], case["case"]["bt"]]
    if case["op"] == "scenario":
        return ["scenario:" + case["name"]]
    if case["op"] == "compu":
        return ["compu-method", case["desc"].get("cat"), case["dir"]]
    return ["somersault", case["entry"]]


def _strings_of(v, out=None):
    out = set() if out is None else out
    if isinstance(v, str):
        out.add(v)
    elif isinstance(v, dict):
        for x in v.values():
            _strings_of(x, out)
    elif isinstance(v, (list, tuple)):
        for x in v:
            _strings_of(x, out)
    return out


def ambiguity_variants(rng, c, v, limit=2):
    """descriptions derived from `c` in which one table-like construct is ambiguous (round 3): a TEXTTABLE with the same text on two scales
    (physical -> internal: 'could not uniquely encode'), a TEXTTABLE with two scales over one internal value ('could not uniquely decode'), a DTC-DOP
    with two DTCs of the same trouble code ('multiple matching DTCs').  All of them are specification violations which strict mode reports and
    non-strict mode downgrades to 'first match' -- on the value `v` / its PDU (valid for the unchanged `c`) whenever the text / internal value that `v`
    uses is the one made ambiguous (preferred).  Returns [(tag, description)]."""
    import copy
    from odxgen import desc as D
    used = _strings_of(v)
    spots = []
    for k, (p, _) in enumerate(D.walk_params(c.params)):
        d = p.dop
        if isinstance(d, (D.SimpleDop, D.DtcDop)) and isinstance(d.compu, D.TextTable) and d.compu.scales:
            hot = [j for j, (_, _, t) in enumerate(d.compu.scales) if t in used]
            spots.append((0 if hot else 1, k, "dup-text", hot))
            spots.append((0 if hot else 1, k, "overlap", hot))
        if isinstance(d, D.DtcDop) and d.dtcs:
            spots.append((1, k, "dup-dtc", []))
    rng.shuffle(spots)
    spots.sort(key=lambda x: x[0])
    out = []
    for _, k, kind, hot in spots[:limit]:
        c2 = copy.deepcopy(c)
        d = list(D.walk_params(c2.params))[k][0].dop
        if kind == "dup-dtc":
            code, name = rng.choice(d.dtcs)
            d.dtcs.insert(rng.randrange(len(d.dtcs) + 1), (code, name + "_bis"))
        else:
            sc = d.compu.scales
            j = rng.choice(hot) if hot else rng.randrange(len(sc))
            lo, hi, t = sc[j]
            if kind == "dup-text":
                others = [i for i in range(len(sc)) if i != j]
                if others and rng.random() < 0.7:
                    i = rng.choice(others)
                    sc[i] = (sc[i][0], sc[i][1], t)
                else:       # a further scale with the same text, over a fresh internal range where there is room (else over a used one)
                    top = max(h for _, h, _ in sc) + 1
                    bl = getattr(d.dct, "bitlen", None)
                    if isinstance(bl, int) and top >= (1 << bl):
                        top = lo
                    sc.insert(rng.randrange(len(sc) + 1), (top, top, t))
            else:           # a second scale over an internal value of scale j, with another text, before or behind it
                x = rng.choice([lo, hi])
                sc.insert(rng.choice([0, j, j + 1, len(sc)]), (x, x, t + "~"))
        out.append((kind, c2))
    return out


def enum_key_protocol(big):
    """round 6: the *key protocol* of the composite encoder / decoder gone wrong.  A LENGTH-KEY / TABLE-KEY is written in two steps (a placeholder
    where the parameter stands, the value after all parameters of the composite have been encoded) and is defined by whoever comes first: an
    explicitly specified value or the parameter that uses the key.  Every way in which this protocol fails is a problem that strict mode reports
    through odxraise and non-strict mode has to downgrade ('... has not been defined before it is required', 'conflicting values', 'invalid
    explicitly specified value', 'is of type ... instead of int', 'cannot represent a length of ... bits', 'unspecified mandatory length key').
    Enumerated: layouts of one parameter list (a key nobody uses -- in the middle, last, at an explicit byte position behind a gap, at a bit
    position; two keys of which one is used; the user in front of its key; the ordinary key/user pair; two users of one key) x the container of
    the list (request, positive / negative response, structure; a nested structure, the items of a STATIC-FIELD / END-OF-PDU-FIELD (the key
    dictionaries are global per PDU: the second item meets the keys of the first), a MUX case) x DOP of the key x type of the user x values (key
    absent, None, consistent, inconsistent, too large, negative, not a multiple of 8, bool / float / str; user value absent, empty, two bytes).
    Yields (tag, composite, [value], [pdu])."""
    from odxgen import desc as D
    from odxgen import gen as G
    u8, val = D.u8, D.value

    def lin(n0, n1, phys):
        return D.SimpleDop(D.Std("A_UINT32", 8), phys, D.Linear(n0, n1, 1))

    kds = [("u8", u8()), ("i8", D.SimpleDop(D.Std("A_INT32", 8), "A_INT32")), ("lin0_8", lin(0, 8, "A_UINT32")), ("lin-8_8u", lin(-8, 8, "A_UINT32")),
           ("lin8_8i", lin(8, 8, "A_INT32")), ("u4", u8(4)), ("u16", u8(16))]
    if big:
        kds += [("i16sm", D.SimpleDop(D.Std("A_INT32", 16, "SM", False), "A_INT32")), ("u12", u8(12))]
        kds += [(f"lin{a}_{b}{ph[2]}", lin(a, b, ph)) for a, b in G.KEY_LINEAR for ph in ("A_INT32", "A_UINT32")]
    bts = ["A_BYTEFIELD", "A_UINT32"] + (["A_UTF8STRING", "A_UNICODE2STRING", "A_INT32", "A_ASCIISTRING"] if big else [])

    def user(name, bt, key="k"):
        return val(name, D.SimpleDop(D.ParamLen(bt, key), bt))

    def layouts(kd, bt):
        k = lambda **kw: D.length_key("k", kd, **kw)
        return [("orphan", [k(), val("y", u8())]), ("orphan-last", [val("y", u8()), k()]), ("orphan-gap", [val("y", u8()), k(bytepos=3)]),
                ("orphan-bitpos", [k(bitpos=3), val("y", u8())]), ("two-keys", [k(), D.length_key("k2", kd), user("x", bt), val("y", u8())]),
                ("two-keys-rev", [D.length_key("k2", kd), k(), user("x", bt)]), ("user-first", [user("x", bt), k()]),
                ("pair", [k(), user("x", bt), val("y", u8())]), ("two-users", [k(), user("x", bt), user("x2", bt)])]

    def xvals(bt, full):
        two = {"A_BYTEFIELD": b"\x01\x02", "A_UINT32": 0x1234, "A_INT32": -0x1234, "A_UNICODE2STRING": "ä"}.get(bt, "ab")
        one = {"A_BYTEFIELD": b"\x07", "A_UINT32": 7, "A_INT32": -7, "A_UNICODE2STRING": ""}.get(bt, "a")
        empty = {"A_BYTEFIELD": b"", "A_UINT32": 0, "A_INT32": 0}.get(bt, "")
        return [two, "absent", empty, one] if full else [two, "absent"]

    KEY_FULL = ["absent", None, 16, 8, 0, 24, 255, 256, -8, 7, True, 8.0, "8"]
    KEY_SMALL = ["absent", 16, 8]

    def values(ps, bt, full):
        names = [p.name for p in ps]
        out = []
        for kv in (KEY_FULL if full else KEY_SMALL):
            for k2v in (["absent", 8] if "k2" in names else ["absent"]):
                for xv in (xvals(bt, full) if "x" in names else ["absent"]):
                    v = {"y": 1} if "y" in names else {}
                    for n, x in (("k", kv), ("k2", k2v), ("x", xv)):
                        if not (isinstance(x, str) and x == "absent"):
                            v[n] = x
                    if "x2" in names:
                        out.append({**v, "x2": xvals(bt, False)[0]})
                        if full:
                            out.append({**v, "x2": xvals(bt, True)[3]})
                    else:
                        out.append(v)
        return out

    def wrap(cont, ps, vs):
        """the parameter list `ps` with its assignments `vs` inside the container"""
        if cont in ("request", "pos-response", "neg-response", "global-neg-response"):
            return D.Composite("K", cont, [D.sid()] + ps), [{**v} for v in vs]
        if cont == "structure":
            return D.Composite("K", "structure", ps), vs
        if cont == "nested":
            return D.Composite("K", "request", [D.sid(), val("s", D.Struct(ps)), val("z", u8())]), [{"s": v, "z": 2} for v in vs]
        if cont == "eop-field":
            # 0, 1 and 2 items: the second item meets the keys which the first one left in the (per PDU) dictionaries
            return (D.Composite("K", "request", [D.sid(), val("f", D.EopField(D.Struct(ps)))]),
                    [{"f": []}] + [{"f": [v]} for v in vs] + [{"f": [v, w]} for v, w in zip(vs, vs[1:] + vs[:1])])
        if cont == "static-field":
            return (D.Composite("K", "request", [D.sid(), val("f", D.StaticField(2, 8, D.Struct(ps))), val("z", u8())]),
                    [{"f": [v, w], "z": 2} for v, w in zip(vs, vs[1:] + vs[:1])])
        if cont == "mux":
            m = D.Mux(1, 0, None, u8(), [D.MuxCase("c1", 1, 1, D.Struct(ps)), D.MuxCase("c2", 2, 2, D.Struct([val("a", u8())]))])
            return D.Composite("K", "request", [D.sid(), val("m", m)]), [{"m": ("c1", v)} for v in vs] + [{"m": ("c2", {"a": 5})}]
        raise KeyError(cont)

    conts = ["request", "pos-response", "structure", "nested", "eop-field", "static-field", "mux"] + (["neg-response", "global-neg-response"] if big else [])
    alphabet = (0x00, 0x08, 0x10, 0xFF)
    import itertools
    for ci, cont in enumerate(conts):
        for ki, (ktag, kd) in enumerate(kds):
            for bi, bt in enumerate(bts):
                # quick: the full product of the values for the first container / key DOP / user type, and each further container, key DOP and
                # user type against the first of the other two with the reduced values; thorough: the longer lists in the same way (the full
                # values for every container) + everything with everything over the lists of the quick tier (reduced values)
                level = sum(1 for i in (ci, ki, bi) if i)
                if level > 1 and not (big and ci < 7 and ki < 7 and bi < 2):
                    continue
                full = (ci, ki, bi) == (0, 0, 0) or (big and ki == 0 and bi == 0)
                for ltag, ps in layouts(kd, bt):
                    if bi and not any(p.name == "x" for p in ps):
                        continue
                    try:
                        comp, vs = wrap(cont, ps, values(ps, bt, full or (ci == 0 and bi == 0 and ltag.startswith("orphan"))))
                    except Exception:  # noqa
                        continue
                    maxlen = 3 if (ci, ki, bi) == (0, 0, 0) else 2
                    head = [0x22] if cont != "structure" else []
                    pdus = [bytes(head) + bytes(b) for n in range(maxlen + 1) for b in itertools.product(alphabet, repeat=n)]
                    yield f"{ltag}/{cont}/{ktag}/{bt}", comp, vs, pdus
    # TABLE-KEY / TABLE-STRUCT: the same protocol (no model counterpart: direct oracle only)
    rows = [D.TableRow("r1", 1, struct=D.Struct([val("a", u8())])), D.TableRow("r2", 2, dop=u8(16)), D.TableRow("r3", 3)]
    for ttag, mk in (("tk-orphan", lambda t: [D.table_key("tk", t), val("y", u8())]), ("tk-orphan-last", lambda t: [val("y", u8()), D.table_key("tk", t)]),
                     ("tk-pair", lambda t: [D.table_key("tk", t), val("y", u8()), D.table_struct("ts", "tk")]),
                     ("tk-static-row", lambda t: [D.table_key("tk", t, "r2"), D.table_struct("ts", "tk"), val("y", u8())]),
                     ("tk-two-keys", lambda t: [D.table_key("tk", t), D.table_key("tk2", t), D.table_struct("ts", "tk")]),
                     ("tk-user-first", lambda t: [D.table_struct("ts", "tk"), D.table_key("tk", t)])):
        for cont in (("request", "pos-response", "structure", "nested", "eop-field", "static-field", "mux") if big else ("request", "structure", "eop-field")):
            ps = mk(D.Table(u8(), rows))
            names = [p.name for p in ps]
            vs = []
            for kv in ("absent", None, "r1", "r2", "r3", "nope", 1, True):
                for tsv in ((("absent", ("r1", {"a": 7}), ("r2", 0x1234), ("r3", None), ("nope", None), ("r1", {}), 5) if "ts" in names else ("absent",))):
                    v = {"y": 1} if "y" in names else {}
                    if not (isinstance(kv, str) and kv == "absent"):
                        v["tk"] = kv
                    if tsv != "absent":
                        v["ts"] = tsv
                    vs.append(v)
            try:
                comp, vs = wrap(cont, ps, vs)
            except Exception:  # noqa
                continue
            head = [0x22] if cont != "structure" else []
            pdus = [bytes(head) + bytes(b) for n in range(4 if big else 3) for b in itertools.product((0x00, 0x01, 0x02, 0x03, 0xFF), repeat=n)]
            yield f"{ttag}/{cont}", comp, vs, pdus


ALL_ENCODINGS = [None, "NONE", "2C", "1C", "SM", "BCD-P", "BCD-UP", "UTF-8", "UCS-2", "ISO-8859-1", "ISO-8859-2", "WINDOWS-1252"]


def enum_dct_grid(big):
    """round 7: *ill-formed type descriptions* -- every DIAG-CODED-TYPE kind x every BASE-DATA-TYPE x legal AND illegal sizes, encodings and
    masks.  The ODX specification restricts the combinations (a float occupies 32 / 64 bits, strings and byte fields whole bytes / code units, a
    BIT-MASK needs an integer or a byte field, MIN-MAX / LEADING-LENGTH / PARAM-LENGTH types hold strings and byte fields, each base type has its
    own encodings, MIN-LENGTH <= MAX-LENGTH, ...); a document that ignores a restriction is the use case of non-strict mode, and where the
    library notices it -- while the document is loaded or on every en-/decoding call -- is the library's business.  Whatever it does, the
    outcome of a call may depend on the flag at the time of the call only.  These descriptions are NOT filtered by loadability: a description
    that strict mode refuses to load is run under the schedules that load it in non-strict mode (see `run`).
    Yields (tag, composite, [value], [pdu])."""
    from odxgen import desc as D
    u8, val = D.u8, D.value
    vals = {"A_INT32": [5, -3, 0, 70000], "A_UINT32": [5, 0, 255, 70000], "A_FLOAT32": [1.5, 0.0, -2.25, 1e39], "A_FLOAT64": [1.5, 0.0, -2.25, 1e39],
            "A_BYTEFIELD": [b"\x01\x02", b"", b"\x07", b"\x01\x02\x03\x04", b"\x01\x02\x03\x04\x05\x06\x07\x08"]}
    svals = ["ab", "", "a", "abcd", "ä€"]
    consts = {"A_INT32": [-3], "A_UINT32": [5], "A_FLOAT32": [1.5], "A_FLOAT64": [1.5], "A_BYTEFIELD": [b"\x01\x02"]}
    if big:
        bodies = ["", "00", "41", "ff", "4142", "3fc0", "0102ff", "3fc00000", "41004200", "4142434400", "3ff8000000000000", "ffffffffffffffffff",
                  "024142", "0841424344454647"]
        pdus = [bytes.fromhex("22" + b + t) for b in bodies for t in ("", "01")]
    else:
        pdus = [bytes.fromhex("22" + b) for b in ("", "4101", "414201", "3fc001", "3fc0000001", "414243440001", "3ff800000000000001", "02414201")]

    def emit(tag, dct, where="value", nv=None):
        bt = dct.bt
        vs = vals.get(bt, svals)[:nv]
        if where == "value":
            comp = D.Composite("T", "request", [D.sid(), val("x", D.SimpleDop(dct, bt)), val("y", u8())])
            return f"{tag}/{where}", comp, [{"x": v, "y": 1} for v in vs] + ([{"y": 1}] if big or nv is None else []), pdus
        if where == "coded-const":
            comp = D.Composite("T", "request", [D.sid(), D.coded_const("x", dct, consts.get(bt, ["ab"])[0]), val("y", u8())])
            return f"{tag}/{where}", comp, [{"y": 1}, {"x": vs[0], "y": 1}], pdus
        if where == "phys-const":
            comp = D.Composite("T", "request", [D.sid(), D.phys_const("x", D.SimpleDop(dct, bt), consts.get(bt, ["ab"])[0]), val("y", u8())])
            return f"{tag}/{where}", comp, [{"y": 1}], pdus
        if where == "struct":       # no SID in front: the object starts the PDU
            comp = D.Composite("T", "structure", [val("x", D.SimpleDop(dct, bt)), val("y", u8())])
            return f"{tag}/{where}", comp, [{"x": v, "y": 1} for v in vs[:2]], [p[1:] for p in pdus]
        raise KeyError(where)

    natural = {"A_FLOAT32": 32, "A_FLOAT64": 64, "A_UNICODE2STRING": 16}
    lens = [0, 1, 7, 8, 12, 16, 24, 31, 32, 33, 48, 63, 64, 65, 72] if big else [0, 1, 8, 12, 16, 32, 33, 64, 65]
    for bt in D.BASE_TYPES:
        nat = natural.get(bt, 16 if bt not in ("A_INT32", "A_UINT32") else 12)
        odd = {"A_FLOAT32": 16, "A_FLOAT64": 32, "A_UNICODE2STRING": 24}.get(bt, 12 if bt not in ("A_INT32", "A_UINT32") else 65)
        # (1) STANDARD-LENGTH-TYPE: every boundary size
        for bl in lens:
            yield emit(f"std/{bt}/len{bl}", D.Std(bt, bl))
            if bl in (nat, odd):
                for where in ("coded-const", "phys-const", "struct"):
                    yield emit(f"std/{bt}/len{bl}", D.Std(bt, bl), where)
                yield emit(f"std/{bt}/len{bl}/lowhigh", D.Std(bt, bl, None, False), nv=2)
        # (2) every encoding (legal or not for the type) at a legal and at an illegal size
        for enc in ALL_ENCODINGS[1:]:
            for bl in ((nat, odd) if big else (nat,) if enc not in D.LEGAL_ENCODINGS[bt] else (odd,)):
                yield emit(f"std/{bt}/len{bl}/enc-{enc}", D.Std(bt, bl, enc), nv=2)
        # (3) BIT-MASK (plain and condensed) on every type
        for bl in (nat, odd):
            for mask in ((0x0F, 0xFF00, 0) if big or bl == nat else (0x0F,)):
                for cond in ((None, True) if big or (mask == 0x0F and bl == nat) else (None,)):
                    yield emit(f"std/{bt}/len{bl}/mask{mask:x}{'c' if cond else ''}", D.Std(bt, bl, None, None, mask, cond), nv=2)
        # (4) MIN-MAX-LENGTH-TYPE: every termination x consistent and inconsistent limits
        for term in ("ZERO", "HEX-FF", "END-OF-PDU"):
            for mn, mx in ((0, None), (0, 2), (1, 1), (2, 1), (0, 0), (3, 70)):
                if term != "ZERO" and not big and (mn, mx) not in (((0, 2), (2, 1)) if term == "HEX-FF" else ((0, 2),)):
                    continue
                yield emit(f"minmax/{bt}/{term}/{mn}-{mx}", D.MinMax(bt, mn, mx, term), nv=3)
        for enc in ALL_ENCODINGS[1:]:
            if big or (enc not in D.LEGAL_ENCODINGS[bt] and enc in ("2C", "BCD-P", "UTF-8", "UCS-2")):
                yield emit(f"minmax/{bt}/enc-{enc}", D.MinMax(bt, 0, 4, "ZERO", enc), nv=2)
        # (5) LEADING-LENGTH-INFO-TYPE: sizes of the length field
        for bl in (0, 3, 8, 16, 65):
            yield emit(f"leading/{bt}/len{bl}", D.Leading(bt, bl), nv=3)
        yield emit(f"leading/{bt}/len8/lowhigh", D.Leading(bt, 8, None, False), nv=2)
        # (6) PARAM-LENGTH-INFO-TYPE: the size comes from a key (every boundary size as an explicit key value and from the PDU)
        kd = D.SimpleDop(D.Std("A_UINT32", 8), "A_UINT32")
        comp = D.Composite("T", "request", [D.sid(), D.length_key("k", kd), val("x", D.SimpleDop(D.ParamLen(bt, "k"), bt)), val("y", u8())])
        vs = vals.get(bt, svals)
        yield (f"paramlen/{bt}", comp, [{"k": k, "x": v, "y": 1} for k in (0, 8, 12, 16, 32, 33, 64, 72) for v in vs[:2]] + [{"x": v, "y": 1} for v in vs],
               [bytes.fromhex("22" + k + b) for k in ("00", "08", "0c", "10", "20", "21", "40", "48") for b in ("", "4142", "3fc0000001", "3ff800000000000001ff")])


def gen_cases(ctx, big):
    """the operations of C01/C04/C05 (+ corpus, scenarios, somersault, atomic) as JSON cases"""
    import atomic_lib as A
    import codec_oracles as O
    import malformed as M
    from odxgen import desc as D
    from odxgen import gen as G
    from odxgen import values as V
    rng = ctx.sub_rng("cases")
    cases = []

    def enc(c, v, t, fam):
        try:
            cases.append({"op": "encode", "desc": D.to_json(c), "value": V.jsonable(v), "trig": t.hex() if t is not None else None, "family": fam})
        except Exception:  # noqa
            ctx.count("case_not_serialisable")

    def dec(c, b, fam):
        cases.append({"op": "decode", "desc": D.to_json(c), "pdu": bytes(b).hex(), "family": fam})

    u8, val = D.u8, D.value
    # corpus: inputs whose handling differs between the modes (and the fixed flag-bound-at-import defect)
    s8 = D.Composite("RQ", "request", [D.sid(), val("s", D.SimpleDop(D.Std("A_UTF8STRING", 16), "A_UTF8STRING"))])
    for b in ("22fffe", "22c328", "224142", "22ff"):
        dec(s8, bytes.fromhex(b), "corpus")
    s16 = D.Composite("RQ", "request", [D.sid(), val("s", D.SimpleDop(D.Std("A_UNICODE2STRING", 16), "A_UNICODE2STRING"))])
    dec(s16, bytes.fromhex("22d800"), "corpus")
    i8 = D.Composite("RQ", "request", [D.sid(), val("x", D.SimpleDop(D.Std("A_INT32", 8), "A_INT32")), val("y", u8())])
    for x in (200, -129, -256, -257, 127, -128):
        enc(i8, {"x": x, "y": 1}, None, "corpus")
    u8c = D.Composite("RQ", "request", [D.sid(), val("x", u8()), val("y", u8())])
    for v in ({"x": 300, "y": 1}, {"x": 1, "y": 1, "zz": 2}, {"x": 1}, {"x": "a", "y": 1}, {"x": 1, "y": 1}):
        enc(u8c, v, None, "corpus")
    lat = D.Composite("RQ", "request", [D.sid(), val("s", D.SimpleDop(D.Std("A_ASCIISTRING", 8, "ISO-8859-1"), "A_ASCIISTRING"))])
    for s in ("€", "a", "ab", ""):
        enc(lat, {"s": s}, None, "corpus")
    tt = D.Composite("RQ", "request", [D.sid(), val("b", D.SimpleDop(D.Std("A_UINT32", 8), "A_UNICODE2STRING", D.TextTable([(0, 0, "off"), (1, 1, "on")])))])
    for b in ("22ff", "2201", "2200"):
        dec(tt, bytes.fromhex(b), "corpus")
    pc = D.Composite("RQ", "request", [D.sid(), D.phys_const("c", u8(), 5), val("y", u8())])
    for b in ("220501", "220701", "2205"):
        dec(pc, bytes.fromhex(b), "corpus")
    emf = D.Composite("RQ", "request", [D.sid(), val("f", D.EndMarkerField("�", D.SimpleDop(D.Std("A_UTF8STRING", 8), "A_UTF8STRING"),
                                                                              D.Struct([val("a", u8())])))])
    for b in ("22ff41", "224142", "22efbfbd", "22"):
        dec(emf, bytes.fromhex(b), "corpus-end-marker")
    # end-marker fields whose termination DOP has a RESTRICTED internal domain (LINEAR with limits, TEXTTABLE, sign-magnitude string …):
    # the probe for the termination value then fails through odxraise (strict: DecodeError after the cursor moved; lenient: a value) —
    # every message over a small alphabet of first bytes inside / outside the domain / equal to the marker, 0–2 items, with and without marker
    import itertools
    lin = D.SimpleDop(D.Std("A_UINT32", 8), "A_UINT32", D.Linear(0, 1, 1, (0x10, "CLOSED"), (0x7F, "CLOSED")))
    lin2 = D.SimpleDop(D.Std("A_UINT32", 8), "A_INT32", D.Linear(-16, 1, 1, (0x10, "OPEN"), None))
    # (odxtools parses TERMINATION-VALUE with the base data type of the termination DOP's *coded* type, so a text table — whose physical
    #  values are strings — cannot be a termination DOP with a parsable marker; the restricted domains are numeric)
    for tag, td, term in (("linear-limits", lin, 0x10), ("linear-open", lin2, 1)):
        for item in (D.Struct([val("a", u8()), val("b", u8())]), D.Struct([val("a", u8(16))])):
            comp = D.Composite("RQ", "request", [D.sid(), val("f", D.EndMarkerField(term, td, item))])
            alphabet = (0x05, 0x10, 0x11, 0x20, 0x80, 0xFF)
            for n in (0, 1, 2, 3, 4, 5):
                for body in itertools.islice(itertools.product(alphabet, repeat=n), 0, None, 1 if n <= 3 else 7):
                    dec(comp, bytes([0x22]) + bytes(body), "enum-end-marker-domain")
    mux = D.Composite("RQ", "request", [D.sid(), val("m", D.Mux(1, 0, None, u8(), [D.MuxCase("c1", 1, 1, D.Struct([val("a", u8())]))]))])
    for b in ("220105", "220205", "2200"):
        dec(mux, bytes.fromhex(b), "corpus")
    bs = D.Composite("RQ", "request", [D.sid(), val("s", D.Struct([val("a", u8(16))], bytesize=1)), val("y", u8())])
    dec(bs, bytes.fromhex("22010203"), "corpus")
    # round 3: ambiguous tables -- reported in strict mode, 'first match' in non-strict mode (and again reported after switching back)
    dup = D.Composite("RQ", "request", [D.sid(), val("b", D.SimpleDop(D.Std("A_UINT32", 8), "A_UNICODE2STRING", D.TextTable([(0, 0, "off"), (1, 1, "on"), (2, 2, "on")])))])
    for t in ("on", "off", "ON"):
        enc(dup, {"b": t}, None, "corpus-ambiguous")
    for b in ("2200", "2201", "2202", "2203"):
        dec(dup, bytes.fromhex(b), "corpus-ambiguous")
    ovl = D.Composite("RQ", "request", [D.sid(), val("b", D.SimpleDop(D.Std("A_UINT32", 8), "A_UNICODE2STRING", D.TextTable([(0, 1, "low"), (1, 2, "high")])))])
    for b in ("2200", "2201", "2202", "2203"):
        dec(ovl, bytes.fromhex(b), "corpus-ambiguous")
    for t in ("low", "high"):
        enc(ovl, {"b": t}, None, "corpus-ambiguous")
    dtc2 = D.Composite("RQ", "request", [D.sid(), val("d", D.DtcDop(D.Std("A_UINT32", 8), "A_UINT32", D.Identical(), [(1, "A"), (1, "B"), (2, "C")]))])
    for b in ("2201", "2202", "2203"):
        dec(dtc2, bytes.fromhex(b), "corpus-ambiguous")
    for x in ("A", "B", "C", 1, 2):
        enc(dtc2, {"d": x}, None, "corpus-ambiguous")
    pcd = D.Composite("RQ", "request", [D.sid(), D.phys_const("c", D.SimpleDop(D.Std("A_UINT32", 8), "A_UNICODE2STRING", D.TextTable([(0, 0, "off"), (1, 1, "on"), (2, 2, "on")])), "on"),
                                        val("y", u8())])
    enc(pcd, {"y": 1}, None, "corpus-ambiguous")
    for b in ("220101", "220201", "220001"):
        dec(pcd, bytes.fromhex(b), "corpus-ambiguous")
    # scenarios
    for name, entries in SCENARIOS.items():
        for entry, args in entries:
            cases.append({"op": "scenario", "name": name, "entry": entry, "args": args, "family": "scenario"})
    # somersault
    try:
        import props.c05 as c05
        db = load_somersault(True)
        srng = ctx.sub_rng("somersault")
        for dl in db.diag_layers:
            own = c05.somersault_own(srng, dl)
            pdus = sorted({p for p, _ in own})
            rqs = sorted({r for _, r in own if r is not None})
            strs = [b for _, b, _ in M.byte_strings(srng, pdus, M.BASE_ALPHABET + [0x10, 0x50, 0x7f], maxlen=2, n_random=60 if big else 20, n_mut=6)]
            strs = srng.sample(strs, min(len(strs), 900 if big else 140))
            for b in strs:
                cases.append({"op": "somersault", "layer": dl.short_name, "entry": "layer.decode", "pdu": b.hex(), "family": "somersault"})
                if rqs:
                    cases.append({"op": "somersault", "layer": dl.short_name, "entry": "layer.decode_response", "pdu": b.hex(), "request": srng.choice(rqs).hex(),
                                  "family": "somersault"})
            for s in dl.services:
                for b in srng.sample(strs, min(len(strs), 30 if big else 6)):
                    cases.append({"op": "somersault", "layer": dl.short_name, "entry": "svc.decode_message", "service": s.short_name, "pdu": b.hex(), "family": "somersault"})
                    if s.request is not None:
                        cases.append({"op": "somersault", "layer": dl.short_name, "entry": "request.decode", "service": s.short_name, "pdu": b.hex(), "family": "somersault"})
                    for r in list(s.positive_responses) + list(s.negative_responses):
                        cases.append({"op": "somersault", "layer": dl.short_name, "entry": "response.decode", "service": s.short_name, "object": r.short_name,
                                      "pdu": b.hex(), "family": "somersault"})
    except Exception as e:  # noqa
        ctx.notes.append(f"somersault cases not generated: {e!r}"[:200])
    # atomic
    arng = ctx.sub_rng("atomic")
    for i in range(12000 if big else 2500):
        c = A.gen_emplace(arng, valid=(i % 3 == 0)) if i % 2 == 0 else A.gen_extract(arng, valid=(i % 3 == 0))
        cases.append({"op": "atomic", "case": c, "family": "atomic"})
    # round 3: the conversions of the compu methods called directly on one object per description (the DOP's validity checks shadow most of their
    # odxraise sites; a direct call reaches all of them): C07's generator of descriptions (all categories; text tables with repeated texts and
    # overlapping scales included) and of internal / physical test values
    try:
        import compu_lib as CL
        crng = ctx.sub_rng("compu")
        keep_flag = get_flag()
        set_flag(True)
        try:
            n_cm = 0
            for i in range(4000):
                if n_cm >= (500 if big else 110):
                    break
                desc = CL.gen_desc(crng, "TEXTTABLE" if i % 3 == 0 else None)
                cm, _ = CL.try_build(desc)
                if cm is None:        # must be constructible in strict mode (else 'flag while loading' is not comparable)
                    continue
                n_cm += 1
                ivs = CL.internal_values(crng, desc, False)
                imgs = [r[1] for r in (CL.call(cm, "i2p", x) for x in ivs) if r[0] == "ok"]
                pvs = CL.physical_values(crng, desc, imgs, False)
                for d, vs_ in (("i2p", ivs), ("p2i", pvs)):
                    for x in (vs_ if len(vs_) <= 14 else crng.sample(vs_, 14)):
                        cases.append({"op": "compu", "desc": desc, "dir": d, "v": x, "family": "compu-method"})
        finally:
            set_flag(keep_flag)
    except Exception as e:  # noqa
        ctx.notes.append(f"compu-method cases not generated: {e!r}"[:200])
    # round 3: small scopes of ambiguous text tables -- every text and every internal value of a generated table with one ambiguity
    trng = ctx.sub_rng("tables")
    for i in range(240 if big else 60):
        try:
            dct = D.Std("A_UINT32", trng.choice([2, 3, 8]))
            tt, phys = G.gen_texttable(trng, dct)
            base = D.Composite("C", "request", [D.sid(), val("t", D.SimpleDop(dct, phys, tt)), val("y", u8())])
            for kind, c2 in ambiguity_variants(trng, base, {"t": trng.choice(tt.scales)[2]}, limit=2):
                if O.safe_load(c2)[0] is None:
                    ctx.count("ambiguous_variant_not_loadable")
                    continue
                ctx.histo("ambiguity", kind)
                sc = c2.params[1].dop.compu.scales
                for t in sorted({t for _, _, t in sc}) + ["?"]:
                    enc(c2, {"t": t, "y": 1}, None, "ambiguous-table")
                for x in range(min((1 << dct.bitlen) - 1, max(h for _, h, _ in sc) + 1) + 1):
                    dec(c2, bytes([0x22, x, 1]), "ambiguous-table")
        except Exception:  # noqa
            ctx.count("case_generation_skipped")
    # round 6: the key protocol (LENGTH-KEY / TABLE-KEY: placeholder, definition by an explicit value or by the user, value written at the end of
    # the composite) with every problem it can report -- each value encoded, the PDUs of both modes and all short byte strings decoded
    keep_flag = get_flag()
    try:
        for tag, comp, vs, pdus in enum_key_protocol(big):
            try:
                set_flag(True)
                L, err = O.safe_load(comp)
                if L is None:
                    ctx.count("key_protocol_not_loadable")
                    continue
                fam = "key-protocol-table" if tag.startswith("tk-") else "key-protocol"
                ctx.histo("key_protocol_layout", tag.split("/")[0])
                own = []
                for v in vs:
                    enc(comp, v, None, fam)
                    for flag in (True, False):
                        set_flag(flag)
                        r = O.impl_encode(L[comp.name], v, None)
                        if r.ok and r.pdu not in own:
                            own.append(r.pdu)
                for b in dict.fromkeys(own + list(pdus)):
                    dec(comp, b, fam)
            except Exception:  # noqa
                ctx.count("case_generation_skipped")
    finally:
        set_flag(keep_flag)
    # round 7: ill-formed type descriptions (kind x base type x legal and illegal sizes / encodings / masks) -- NOT filtered by loadability: what
    # strict mode refuses to load is exercised on objects loaded in non-strict mode (the use case of non-strict mode)
    try:
        for tag, comp, vs, pdus in enum_dct_grid(big):
            ctx.histo("dct_grid_kind", tag.split("/")[0])
            for v in vs:
                enc(comp, v, None, "enum-dct-grid")
            for b in pdus:
                dec(comp, b, "enum-dct-grid")
    except Exception as e:  # noqa
        ctx.notes.append(f"enum-dct-grid cases not generated: {e!r}"[:200])
    # generated descriptions: C01 valid values, C04 mutants, C05 byte strings
    n_docs = 1500 if big else 420
    arng2 = ctx.sub_rng("ambiguity")
    for i in range(n_docs):
        prof = (G.THOROUGH if big else G.QUICK) if i % 3 else G.SIMPLE
        try:
            c = G.gen_composite(rng, profile=prof, name="C", depth=rng.choice([0, 1, 1, 2, prof.max_depth]))
            L, err = O.safe_load(c)
            if L is None:
                continue
            v, t = V.gen_value(rng, c), V.gen_trigger(rng, c)
        except Exception:  # noqa
            ctx.count("case_generation_skipped")
            continue
        enc(c, v, t, "c01-valid")
        r = O.impl_encode(L[c.name], v, t)
        own = [r.pdu] if r.ok else []
        for b in own:
            dec(c, b, "c01-valid")
        try:
            # implicit SYSTEM values read the clock (not a function of the input): no value mutants for such descriptions
            has_system = any(p.type == "system" for p, _ in D.walk_params(c.params))
            for tag, mv in ([] if has_system else M.value_mutants(rng, c, v, limit=14 if not big else 20)[6:]):
                enc(c, mv, t, "c04-malformed")
        except Exception:  # noqa
            ctx.count("case_generation_skipped")
        alpha = sorted(set(M.BASE_ALPHABET + M.constants_of(c)))[:6]
        bs = list(M.byte_strings(rng, own, alpha, maxlen=1, n_random=3, n_mut=3))
        for fam, b, k in rng.sample(bs, min(len(bs), 16 if not big else 24)):
            dec(c, b, "c05-bytes")
        # round 3: the same value / PDU on descriptions in which a table used by the value has been made ambiguous
        try:
            for kind, c2 in ambiguity_variants(arng2, c, v, limit=3 if big else 2):
                if O.safe_load(c2)[0] is None:
                    ctx.count("ambiguous_variant_not_loadable")
                    continue
                ctx.histo("ambiguity", kind)
                enc(c2, v, t, "ambiguous-desc")
                for b in own:
                    dec(c2, b, "ambiguous-desc")
        except Exception:  # noqa
            ctx.count("case_generation_skipped")
    return cases


def model_line(case, strict):
    """request line for drv_codec (None if the operation has no model counterpart)"""
    import atomic_lib as A
    from odxgen import desc as D
    from odxgen import sexp
    from odxgen import values as V
    try:
        if case["op"] == "encode":
            c = D.from_json(case["desc"])
            if not sexp.modelled(c):
                return None
            v = V.from_jsonable(case["value"])
            import props.c04 as c04
            if c04.has_unfaithful_sexp(v):
                return None
            return sexp.encode_line(c, v, bytes.fromhex(case["trig"]) if case.get("trig") is not None else None, strict=strict)
        if case["op"] == "decode":
            c = D.from_json(case["desc"])
            if not sexp.modelled(c):
                return None
            return sexp.decode_line(c, bytes.fromhex(case["pdu"]), strict=strict)
        if case["op"] == "atomic":
            return A.request_line(dict(case["case"], strict=strict))
    except Exception:  # noqa
        return None
    return None


def canon17(reply):
    reply = reply.strip()
    if reply.startswith("(err "):
        if "foreign" in reply or "hang" in reply:
            return "(err foreign)"
        return "(err odxerror)"
    return reply


def _load_attempt(xml, flag):
    """load one document with the given mode: 'loaded' | 'odxerror' | 'foreign:<Type>'"""
    import warnings
    import xml.etree.ElementTree as ET
    from odxtools.database import Database
    from odxtools.exceptions import OdxError
    set_flag(flag)
    try:
        with warnings.catch_warnings():
            warnings.simplefilter("ignore")
            db = Database()
            db._process_xml_tree(ET.fromstring(xml))
            db.refresh()
        return "loaded"
    except OdxError:
        return "odxerror"
    except Exception as e:  # noqa
        return "foreign:" + type(e).__name__


def ill_formed_documents(ctx, big):
    """load-time problems: documents in which ONE numeric text node / attribute is not a number ("zz"), an empty string or a float where an
    integer is expected. Where strict mode reports an OdxError, non-strict mode must DOWNGRADE the problem — load, or still report an
    OdxError —, never end in a foreign exception (`UnboundLocalError`, `TypeError`, …), and switching back to strict mode must restore the
    strict outcome."""
    import re
    import warnings
    import xml.etree.ElementTree as ET
    from odxgen import gen as G
    from odxgen import xmlgen
    from odxtools.database import Database
    from odxtools.exceptions import OdxError
    import random
    # the documents of this family do NOT depend on VERIF_SEED: which (element, corruption) pairs are covered is part of the check's
    # definition (so that the recorded known findings of this class are reproduced by every run, and thorough covers a superset of quick)
    rng = random.Random("C17/ill-formed-documents/v2")
    seen = set()

    attempt = _load_attempt

    keep = get_flag()
    try:
        n_docs = 60
        per_tag = {}
        docs = []
        for i in range(n_docs):
            try:
                c = G.gen_composite(rng, profile=G.QUICK, name="C")
                xml = xmlgen.to_xml([c])
            except Exception:  # noqa
                continue
            docs.append(xml)
        quota = 6 if big else 2
        work = []
        for i, xml in enumerate(docs):
            for m in re.finditer(r">(-?\d+(?:\.\d+)?)<", xml):
                tag = xml[:m.start()].rsplit("<", 1)[-1].split(" ")[0].split(">")[0]
                if per_tag.get(tag, 0) < quota:
                    per_tag[tag] = per_tag.get(tag, 0) + 1
                    work.append((i, xml, m, tag))
        # corpus of the recorded findings of this class (both tiers reproduce them): the denominator of the first LINEAR scale with limits
        for i, xml in enumerate(docs):
            m = re.search(r"<CATEGORY>LINEAR</CATEGORY><COMPU-INTERNAL-TO-PHYS><COMPU-SCALES><COMPU-SCALE><LOWER-LIMIT[^/]*</LOWER-LIMIT>"
                          r"(?:<UPPER-LIMIT[^/]*</UPPER-LIMIT>)?<COMPU-RATIONAL-COEFFS><COMPU-NUMERATOR>(?:<V>[^<]*</V>)+</COMPU-NUMERATOR>"
                          r"<COMPU-DENOMINATOR><V>(-?\d+(?:\.\d+)?)<", xml)
            if m is not None:
                if not any(w[0] == i and w[2].start(1) == m.start(1) for w in work):
                    work.append((i, xml, m, "V"))
                break
        ctx.count("ill_formed_tags", len(per_tag))
        for i, xml, m, tag in work:
            if True:
                for bad in ("zz", "", "1.5x"):
                    broken = xml[:m.start(1)] + bad + xml[m.end(1):]
                    s1, l, s2 = attempt(broken, True), attempt(broken, False), attempt(broken, True)
                    ctx.case(("ill-formed", tag, bad, i, m.start()), nontrivial=(s1 != l))
                    ctx.histo("family", "ill-formed-document")
                    ctx.histo("ill-formed strict/lenient", f"{s1.split(':')[0]}/{l.split(':')[0]}")
                    for item in (
                            # (a document outside the ODX schema that makes BOTH modes end in a plain ValueError of `int()` is outside the
                            #  statement: nothing was "reported as an error in strict mode" by the library; counted in the histogram only)
                            ("load-problem-downgraded", l, f"a problem that strict mode reports as an OdxError — <{tag}> is {bad!r} — makes non-strict "
                                                           f"loading end in {l} instead of being downgraded") if s1 == "odxerror" and l.startswith("foreign") else None,
                            ("re-enabling-strict-restores-the-result", s2, f"strict loading after a non-strict attempt gives {s2}, before: {s1}") if s2 != s1 else None):
                        if item is None:
                            continue
                        clause, obs, what = item
                        key = (clause, tag, obs)
                        if key in seen:
                            ctx.count(f"violations_duplicate[{clause}]")
                            continue
                        seen.add(key)
                        ctx.violate(clause, ["ill-formed-document", tag], obs, {"xml": broken[max(0, m.start() - 300):m.end() + 100], "tag": tag, "bad": bad, "document": broken}, what)
    finally:
        set_flag(keep)


def run(ctx):
    import common
    import malformed as M
    big = ctx.tier == "thorough"
    # every round of the check (the source sentinel may start further ones) works on objects of its own: the schedules below are defined
    # relative to FRESH objects ("first call strict", "first call lenient"); objects left behind by an earlier round carry its call history
    _DOCS.clear()
    _HANGS[0] = 0
    # (0) table obligation
    check_sites(ctx)
    # (0') load-time problems are downgraded, never foreign
    ill_formed_documents(ctx, big)
    # (1) cases
    cases = gen_cases(ctx, big)
    ctx.count("cases", len(cases))
    keep = get_flag()
    results = {}
    try:
        for sched in ((True, True), (True, False), (False, True), (False, False)):
            results[sched] = [run_op(c, *sched) for c in cases]
        results["again"] = [run_op(c, True, True) for c in cases]          # strict re-enabled on the very same objects
        results["again-f"] = [run_op(c, True, False) for c in cases]
        # round 3: the opposite call history on fresh objects -- the first call an object ever sees is a non-strict one (anything the objects
        # remember from it: memoised conversions, cached prefix trees, ... was computed while errors were downgraded), then strict, then non-strict
        stateful = [c["op"] != "atomic" for c in cases]                  # atomic cases build their objects anew for every call
        for tag, flag in (("lf-1", False), ("lf-2", True), ("lf-3", False)):
            results[tag] = [run_op(c, True, flag, "lenient-first") if st else None for c, st in zip(cases, stateful)]
        # round 7: descriptions that strict mode refuses to LOAD exist as objects only when they were loaded in non-strict mode. Every schedule
        # above that loads in strict mode is vacuous for them ("load-error"), so both call histories are run on the non-strictly loaded objects
        unloadable = [str(r).startswith("load-error") for r in results[(True, True)]]
        results["nl-again"] = [run_op(c, False, True) if u else None for c, u in zip(cases, unloadable)]
        results["nl-again-f"] = [run_op(c, False, False) if u else None for c, u in zip(cases, unloadable)]
        for tag, flag in (("nl-lf-1", False), ("nl-lf-2", True), ("nl-lf-3", False)):
            results[tag] = [run_op(c, False, flag, "lenient-first") if u else None for c, u in zip(cases, unloadable)]
    finally:
        set_flag(keep)
    workers = {}
    for tag, sched in (("import-f/call-t", (False, True, True)), ("import-f/call-f", (False, False, False))):
        try:
            workers[tag] = run_worker(cases, *sched, common.REPO)
        except Exception as e:  # noqa
            ctx.notes.append(f"worker {tag} failed: {e!r}"[:400])
            ctx.obligation("fresh-interpreter worker " + tag, False, repr(e)[:200])
    seen = set()

    def report(clause, case, observed, detail, what):
        feats = op_features(case)
        sig = (clause, observed, tuple(feats))
        if sig in seen:
            ctx.count(f"violations_duplicate[{clause}]")
            return
        seen.add(sig)
        ctx.violate(clause, feats, observed, {"case": case, **detail}, what)

    for i, c in enumerate(cases):
        s, l = results[(True, True)][i], results[(True, False)][i]
        ctx.case(json.dumps({k: v for k, v in c.items() if k != "family"}, sort_keys=True), nontrivial=(s != l or c["op"] == "scenario"))
        ctx.histo("family", c.get("family", c["op"]))
        ctx.histo("strict/lenient", ("ok" if is_ok(s) else "odxerror" if is_odx_error(s) else "foreign") + "/" +
                  ("same" if l == s else "ok" if is_ok(l) else "odxerror" if is_odx_error(l) else "foreign"))
        if c["op"] == "encode" and "system" in op_features(c) and results["again"][i] != s:
            ctx.count("nondeterministic(SYSTEM parameter reads the clock)")
            continue
        if unloadable[i]:
            # round 7: strict mode refuses to load the description. The objects of a non-strict load: (a) the problem is downgraded (no foreign
            # exception while loading), (b) a strict success implies the same non-strict result, (c) the result of a call depends on the flag
            # at the time of the call only (both histories, fresh interpreter)
            ctx.histo("unloadable-in-strict-mode", s.split(":")[1] if ":" in s else "?")
            ns, nl = results[(False, True)][i], results[(False, False)][i]
            ctx.histo("loaded-non-strict: strict/lenient", ("load-error" if ns.startswith("load-error") else "ok" if is_ok(ns) else "odxerror" if is_odx_error(ns) else "foreign") + "/" +
                      ("same" if nl == ns else "ok" if is_ok(nl) else "odxerror" if is_odx_error(nl) else "foreign"))
            if s.startswith("load-error:odx") and ns.startswith("load-error:foreign"):
                report("switch-takes-effect-immediately", c, "load-problem-downgraded", {"strict": s[:300], "lenient": ns[:300]},
                       f"a problem that strict mode reports as an OdxError while loading ({s[:80]}) makes non-strict loading end in {ns[:80]}")
            if is_ok(ns) and nl != ns:
                report("strict-success-implies-same-lenient-result", c, "different-result(loaded-non-strict)", {"strict": ns[:600], "lenient": nl[:600]},
                       f"{c['op']} on a description loaded in non-strict mode succeeds in strict mode but non-strict mode returns something else: {ns[:120]} vs {nl[:120]}")
            for name, r, want in (("re-enabling-strict-restores-the-result(loaded-non-strict)", results["nl-again"][i], ns),
                                  ("switching-again-to-lenient-gives-the-lenient-result(loaded-non-strict)", results["nl-again-f"][i], nl),
                                  ("lenient-first-call-on-fresh-objects-gives-the-lenient-result(loaded-non-strict)", results["nl-lf-1"][i], nl),
                                  ("strict-after-a-lenient-first-call-gives-the-strict-result(loaded-non-strict)", results["nl-lf-2"][i], ns),
                                  ("lenient-again-after-lenient-strict-gives-the-lenient-result(loaded-non-strict)", results["nl-lf-3"][i], nl),
                                  ("fresh-interpreter:import-f/call-f(loaded-non-strict)", workers["import-f/call-f"][i] if "import-f/call-f" in workers else None, nl),
                                  ("fresh-interpreter:import-f/call-t", workers["import-f/call-t"][i] if "import-f/call-t" in workers else None, s)):
                if r is not None and r != want:
                    report("switch-takes-effect-immediately", c, name, {"expected": want[:600], "got": r[:600]},
                           f"{c['op']}: {name}: expected {want[:100]} got {r[:100]}")
            continue
        if is_ok(s) and l != s:
            report("strict-success-implies-same-lenient-result", c, "different-result", {"strict": s[:600], "lenient": l[:600]},
                   f"{c['op']} succeeds in strict mode but non-strict mode returns something else: {s[:120]} vs {l[:120]}")
        for name, r, want in (("flag-while-loading-irrelevant(strict call)", results[(False, True)][i], s),
                              ("flag-while-loading-irrelevant(lenient call)", results[(False, False)][i], l),
                              ("re-enabling-strict-restores-the-result", results["again"][i], s),
                              ("switching-again-to-lenient-gives-the-lenient-result", results["again-f"][i], l),
                              ("lenient-first-call-on-fresh-objects-gives-the-lenient-result", results["lf-1"][i], l),
                              ("strict-after-a-lenient-first-call-gives-the-strict-result", results["lf-2"][i], s),
                              ("lenient-again-after-lenient-strict-gives-the-lenient-result", results["lf-3"][i], l)):
            if r is not None and r != want:
                report("switch-takes-effect-immediately", c, name, {"expected": want[:600], "got": r[:600]},
                       f"{c['op']}: {name}: expected {want[:100]} got {r[:100]}")
        for tag, want in (("import-f/call-t", s), ("import-f/call-f", l)):
            if tag in workers and workers[tag][i] != want:
                report("switch-takes-effect-immediately", c, "fresh-interpreter:" + tag, {"expected": want[:600], "got": workers[tag][i][:600]},
                       f"{c['op']}: interpreter with the flag cleared before import, {tag}: expected {want[:100]} got {workers[tag][i][:100]}")
    # (2) correspondence with the model under both flags
    M.guarded(ctx)
    drv = ctx.driver("drv_codec")
    if drv.available():
        lines, meta = [], []
        for i, c in enumerate(cases):
            for strict in (True, False):
                ln = model_line(c, strict)
                if ln is None:
                    continue
                # round 7: the model describes CALLS and knows no 'flag while loading': its reply is compared with the result on the objects of
                # a strict load and -- where that differs or does not exist -- with the result on the objects of a non-strict load. A problem
                # that the model reports at every call must not disappear because the lenient loader repaired the object once.
                a, b = results[(True, strict)][i], results[(False, strict)][i]
                for how, impl in (("", a), ("/loaded-lenient", b if b != a else None)):
                    if impl is None:
                        continue
                    if impl.startswith("load-error"):
                        ctx.count("corr_not_loadable" + how)
                        continue
                    lines.append(ln)
                    meta.append((i, strict, impl, how))
        try:
            replies = drv.query(lines)
        except Exception as e:  # noqa
            replies = None
            ctx.notes.append(f"driver failed: {e!r}"[:300])
        if replies is not None:
            for (i, strict, impl, how), ln, rep in zip(meta, lines, replies):
                rep = rep.strip()
                if rep in ("(unsupported)", "(bad-args)", "(not-implemented)", "(bad-line)"):
                    ctx.count("corr_" + rep.strip("()") + ("" if strict else "(lenient)"))
                    continue
                ctx.traces += 1
                if canon17(rep) != canon17(impl):
                    ctx.disagree(("strict" if strict else "lenient") + how, ln[:3000], rep[:1500], impl[:1500])
                    s0 = results[(True, True)][i]
                    if how and strict and s0.startswith("load-error:odx") and canon17(rep) == "(err odxerror)" and is_ok(impl):
                        # round 7, a failing input for "re-enabling strict mode restores the error": the library itself reports a problem of
                        # this description in strict mode (it refuses to load it), the description of the calls (the model) reports it at every
                        # strict call -- and the objects of a non-strict load answer the strict call as if nothing was wrong
                        report("switch-takes-effect-immediately", cases[i], "strict-call-on-objects-loaded-non-strict-reports-the-problem",
                               {"strict-load": s0[:300], "model_strict": rep[:300], "got": impl[:600]},
                               f"{cases[i]['op']}: strict mode refuses to load the description ({s0[:90]}); loaded in non-strict mode and called in "
                               f"strict mode it returns {impl[:100]} where every strict call has to report the problem (model: {rep[:40]})")
            if lines:
                ctx.sample({"request": lines[0][:300], "model": replies[0][:120], "impl": meta[0][2][:120]})
    else:
        ctx.notes.append("drv_codec not available: correspondence skipped")
    # (3) round 8: compu-method calls against the model of C07 (`drv_compu`, the strict-mode semantics): where the MODEL says that strict mode
    #     reports a problem of the library's own classes (the value is outside the limits, has no inverse, ...), the implementation in strict
    #     mode has to report an OdxError -- an exception of another class is not "a problem reported as an error in strict mode", and
    #     non-strict mode has nothing to downgrade.  (A model error of class `foreign` -- wrongly typed arguments -- claims nothing.)
    cdrv = ctx.driver("drv_compu")
    if cdrv.available():
        import compu_lib as CL
        idx = [i for i, c in enumerate(cases) if c["op"] == "compu" and not results[(True, True)][i].startswith("build-error")]
        try:
            replies = cdrv.query([CL.request(cases[i]["desc"], [(cases[i]["dir"], cases[i]["v"])]) for i in idx])
        except Exception as e:  # noqa
            replies = []
            ctx.notes.append(f"drv_compu failed: {e!r}"[:300])
        for i, rep in zip(idx, replies):
            try:
                m = CL.parse_reply(rep, 1)[0]
            except Exception:  # noqa
                ctx.count("compu_model_reply_unparseable")
                continue
            s = results[(True, True)][i]
            ctx.traces += 1
            ctx.histo("compu: model(strict)/impl(strict)", f"{m[0]}{':' + CL.canon_err(str(m[1])) if m[0] == 'err' else ''}/" +
                      ("ok" if is_ok(s) else "odxerror" if is_odx_error(s) else "foreign"))
            if m[0] == "err" and CL.canon_err(str(m[1])) in ("encode", "decode", "odx") and not is_ok(s) and not is_odx_error(s):
                report("problem-reported-as-an-error-in-strict-mode", cases[i], "foreign-exception-instead-of-the-library-error",
                       {"model_strict": rep[:200], "strict": s[:400], "lenient": results[(True, False)][i][:400]},
                       f"compu {cases[i]['dir']}: the model reports the problem as {m[1]} in strict mode; the implementation raises {s[:120]} "
                       f"(strict) / {results[(True, False)][i][:80]} (non-strict): not an OdxError, nothing for non-strict mode to downgrade")
    else:
        ctx.notes.append("drv_compu not available: compu-method calls not compared with the C07 model")


def replay(ctx, data):
    w = data["witness"]
    if "document" in w and "case" not in w:      # family ill-formed-document: the whole document is the witness
        keep = get_flag()
        try:
            s1, l, s2 = _load_attempt(w["document"], True), _load_attempt(w["document"], False), _load_attempt(w["document"], True)
        finally:
            set_flag(keep)
        return not (s1 == "odxerror" and l.startswith("foreign")) and s2 == s1
    c = w["case"]
    keep = get_flag()
    try:
        s = run_op(c, True, True)
        l = run_op(c, True, False)
        s2 = run_op(c, True, True)
        f = run_op(c, False, True)
        l1 = run_op(c, True, False, "lenient-first")
        s3 = run_op(c, True, True, "lenient-first")
        l3 = run_op(c, True, False, "lenient-first")
        if s.startswith("load-error"):
            # round 7: strict mode refuses to load the description -- the same oracle on the objects of a non-strict load
            ns, nl, ns2 = run_op(c, False, True), run_op(c, False, False), run_op(c, False, True)
            n1, n2, n3 = (run_op(c, False, fl, "lenient-first") for fl in (False, True, False))
            if w.get("model_strict") and is_ok(ns) and s.startswith("load-error:odx"):
                try:
                    ln = model_line(c, True)
                    if ln is not None and canon17(ctx.driver("drv_codec").query([ln])[0]) == "(err odxerror)":
                        return False
                except Exception:  # noqa
                    pass
            return (not (is_ok(ns) and nl != ns) and ns2 == ns and n1 == nl and n2 == ns and n3 == nl
                    and not (s.startswith("load-error:odx") and ns.startswith("load-error:foreign")))
    finally:
        set_flag(keep)
    return not (is_ok(s) and l != s) and s2 == s and f == s and l1 == l and s3 == s and l3 == l


if __name__ == "__main__":
    if len(sys.argv) >= 5 and sys.argv[1] == "--worker":
        worker_main(sys.argv[2:5])


# --- W19: the decode theorem with the end-marker probe ---------------------------------------------------------------------------
LEAN_TARGETS = LEAN_TARGETS + ["OdxVerif.Props.C17Marker"]
THEOREMS = THEOREMS + [P + t for t in ["C17_marker_probe_hard", "C17_marker_catch_site", "C17_same_result_decode_marker_partial",
                                       "C17_marker_text_counterexample", "C17_marker_subsumes", "sim_decode_all_marker", "hard_probe"]]
